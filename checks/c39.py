"""C39 device commands loop back to the state they requested.

Every row of the table below is (device class, configuration generator, setter,
state property, expected value, representable set).  The real device sits on a
real XKNX (virtual loop, real telegram queue, fake interface confirming at once);
the setter's telegrams travel through the queue and come back through
`devices.process` as outgoing telegrams; afterwards the public state property is
compared with the requested value.

"Nearest value the configured datapoint can represent": the representable set is
the decode image of the configured datapoint (all payloads of <= 2 octets decoded
by the real DPT class; integers / binary32 / k*step for the rest).
  * request representable (it IS a value of the decode image, compared exactly) -> the device must report exactly it;
  * request strictly between two representable values -> the device must report
    one of the two neighbours (= within one step) AND, for setters that hand the
    value straight to one remote value, exactly what that remote value's own
    to_knx/from_knx makes of the request (the device layer adds no error of its
    own, e.g. by skipping a telegram); which of the two neighbours is recorded
    (`reported_not_nearest`), not judged: the rounding mode of a DPT is the
    business of the DPT properties (C08/C09).
Values a setter refuses (any exception) are counted, not judged.
"""

from __future__ import annotations

import asyncio
import bisect
import math
import random
import struct

from vlib.dev_harness import DevHarness, ProbeDevice

LEVEL = "exploration"
TECHNIQUE = "runtime monitor: device state after the real queue looped the setter's telegrams back, compared with the requested value over the datapoint's decode image"
LEVEL_TEXT = (
    "Table of 20 row classes (about 45 device-class/setter pairs) covering Switch, Light (switch, brightness, tunable white, RGB, RGBW, individual colours, HS, xyY, colour "
    "temperature), Fan, Cover (position / up-down / angle incl. invert flags, with and without a position address), Climate (target temperature, setpoint "
    "shift DPT 6.010 / 9.002 / auto-detected with steps 0.05..1 and ranges, on/off invert, fan speed, swing), ClimateMode (all address subsets), "
    "NumericValue / ExposeSensor over DPT choices, Notification, RawValue, Scene, Time/Date/DateTime devices and a RemoteValueScaling with generated "
    "ranges; every configuration additionally draws a GA->DPT table for the device's addresses (none / the remote value's own DPT / a parent or child "
    "class of it / an unrelated DPT, installed through xknx.group_address_dpt.set) with an unchanged oracle; per row quick 20 generated configurations x 24 setter calls (thorough 60 x 40, 16 shards; NumericValue/ExposeSensor: one configuration per DPT class x 2 resp. 6 repetitions). Exploration: configurations and values are sampled."
)
LEVEL_NOTE = (
    "Trusted: virtual loop, fake interface (confirms at once), clock shim for Cover travel. Judged: the public state property named in the row, right after the "
    "queue is drained (Cover position: additionally after the travel time). Expected value = requested value clamped the way the setter documents "
    "(min/max temperature, setpoint shift range, Notification cropping to 14 characters). Not judged: setters that send nothing (no writable address), refused "
    "values, which of two neighbouring representable values is reported, state properties the setter's own telegrams do not address (e.g. Climate target "
    "temperature without a writable target address). 2-octet DPT choices in the quick tier are a fixed list (thorough: all numeric DPT classes)."
)
SHARDS = {"quick": 1, "thorough": 16}
TIMEOUT = {"quick": 200, "thorough": 2400}


# ---------------------------------------------------------------------------
# representable sets


def _eps(*xs: float) -> float:
    return 1e-9 * max(1.0, *(abs(x) for x in xs))


class ImageRep:
    """Explicit sorted set of representable numbers."""

    def __init__(self, values) -> None:
        self.v = sorted(set(values))

    def around(self, want: float):
        """'exact' only if the request IS a decode-image value (exact comparison, no tolerance)."""
        i = bisect.bisect_left(self.v, want)
        if i < len(self.v) and self.v[i] == want:
            return "exact", self.v[i], self.v[i]
        lo = self.v[i - 1] if i > 0 else None
        hi = self.v[i] if i < len(self.v) else None
        return "between", lo, hi

    @staticmethod
    def same(got, r) -> bool:
        return got == r

    def sample(self, rng: random.Random, ints: bool = False):
        c = rng.random()
        if c < 0.12:
            return rng.choice((self.v[0], self.v[-1]))
        i = rng.randrange(len(self.v))
        if not ints and c < 0.22 and 0 < i < len(self.v) - 1:
            # deliberately one float step beside a representable value: falls under the neighbour rule
            return math.nextafter(float(self.v[i]), rng.choice((-math.inf, math.inf)))
        if c < 0.6 or ints or i + 1 >= len(self.v):
            return self.v[i]
        a, b = self.v[i], self.v[i + 1]
        x = a + (b - a) * rng.choice((0.5, 0.25, 0.75, rng.random()))
        if rng.random() < 0.5:
            x = round(x, 2)
        return min(max(x, self.v[0]), self.v[-1])


class IntRep:
    """Every integer in [lo, hi]."""

    def __init__(self, lo: int, hi: int) -> None:
        self.lo, self.hi = lo, hi

    def around(self, want: float):
        if want < self.lo or want > self.hi:
            return "between", None, None
        if want == math.floor(want):
            return "exact", int(want), int(want)
        return "between", math.floor(want), math.ceil(want)

    @staticmethod
    def same(got, r) -> bool:
        return got == r

    def sample(self, rng: random.Random, ints: bool = True):
        c = rng.random()
        if c < 0.15:
            return rng.choice((self.lo, self.hi))
        if c < 0.4 and self.hi - self.lo > 300:
            return rng.choice((self.lo + rng.randint(0, 300), self.hi - rng.randint(0, 300)))
        return rng.randint(self.lo, self.hi)


class Float32Rep:
    """DPT 14: decode image of the binary32 grid around the request (the real class rounds to 7 significant digits)."""

    def __init__(self, dpt_class) -> None:
        self.dpt_class = dpt_class

    @staticmethod
    def _f32(x: float) -> float:
        return struct.unpack(">f", struct.pack(">f", x))[0]

    def around(self, want: float):
        from xknx.dpt import DPTArray

        try:
            bits = struct.unpack(">I", struct.pack(">f", want))[0]
        except (OverflowError, struct.error):
            return "between", None, None
        cands = []
        for j in range(-24, 25):
            b = bits + j
            if not 0 <= b <= 0xFFFFFFFF or (b & 0x7F800000) == 0x7F800000:
                continue
            try:
                cands.append(self.dpt_class.from_knx(DPTArray(struct.pack(">I", b))))
            except Exception:  # noqa: BLE001
                pass
        for c in cands:
            if c == want:
                return "exact", c, c
        lo = max((c for c in cands if c <= want), default=None)
        hi = min((c for c in cands if c >= want), default=None)
        return "between", lo, hi

    @staticmethod
    def same(got, r) -> bool:
        return got == r

    def sample(self, rng: random.Random, ints: bool = False):
        c = rng.random()
        if c < 0.1:
            # a float step beside a value of the decode image
            v = self.around(self._f32(rng.uniform(-1e5, 1e5)))[1]
            if v is not None:
                return math.nextafter(v, rng.choice((-math.inf, math.inf)))
        if c < 0.4:
            return self._f32(rng.uniform(-1e6, 1e6))
        if c < 0.6:
            return float(rng.randint(-100000, 100000))
        if c < 0.8:
            return round(rng.uniform(-5000, 5000), 3)
        return rng.choice((0.0, 1.5, -2.25, 1e-3, 123456.7, 3.4e20))


class GridRep:
    """k * step for k in [kmin, kmax] (setpoint shift through DPT 6.010)."""

    def __init__(self, step: float, kmin: int, kmax: int) -> None:
        self.step, self.kmin, self.kmax = step, kmin, kmax

    def around(self, want: float):
        """The representable reals are k x step with step read as the decimal it was configured with.  A request is 'exact'
        only if it is the float of such a real (what a user writes: 0.3) or the float product k*step the device itself reports."""
        from fractions import Fraction

        step = Fraction(repr(self.step))
        k = Fraction(want) / step
        kr = round(k)
        if want == float(kr * step) or want == kr * self.step:
            if not self.kmin <= kr <= self.kmax:
                return "between", None, None
            return "exact", kr * self.step, kr * self.step
        lo, hi = math.floor(k), math.ceil(k)
        if lo < self.kmin or hi > self.kmax:
            return "between", None, None
        return "between", lo * self.step, hi * self.step

    @staticmethod
    def same(got, r) -> bool:
        # the device reports the float product count*step; allow its last-bit noise only
        return math.isclose(got, r, rel_tol=1e-12, abs_tol=1e-15)


_IMAGES: dict = {}

QUICK_2BYTE = ("temperature", "2byte_float", "percentV16", "2byte_unsigned", "color_temperature", "time_period_10msec",
               "time_period_100msec", "delta_time_10ms", "rotation_angle", "2byte_signed", "humidity", "brightness")


def dpt_rep(dpt_class):
    """Representable set of a numeric DPT class (decode image for <= 2 octets)."""
    from xknx.dpt import DPTArray

    key = dpt_class.__name__
    if key in _IMAGES:
        return _IMAGES[key]
    n = dpt_class.payload_length
    if n in (1, 2):
        vals = []
        for raw in range(256**n):
            try:
                vals.append(dpt_class.from_knx(DPTArray(raw.to_bytes(n, "big"))))
            except Exception:  # noqa: BLE001  (outside the declared range: not representable)
                pass
        rep = ImageRep(vals)
    elif dpt_class.dpt_main_number == 14:
        rep = Float32Rep(dpt_class)
    else:
        rep = IntRep(int(dpt_class.value_min), int(dpt_class.value_max))
    _IMAGES[key] = rep
    return rep


def scaling_rep(range_from: int, range_to: int) -> ImageRep:
    """RemoteValueScaling / DPT 5.001 style: 256 raw steps over the range, reported as integers."""
    from fractions import Fraction

    key = ("scaling", range_from, range_to)
    if key not in _IMAGES:
        d = range_to - range_from
        _IMAGES[key] = ImageRep(range_from + round(Fraction(raw * d, 255)) for raw in range(256))
    return _IMAGES[key]


def numeric_classes():
    from xknx.dpt import DPTNumeric

    out = []

    def walk(c) -> None:
        for s in c.__subclasses__():
            if s not in out:
                if getattr(s, "value_type", None) and getattr(s, "payload_length", None):
                    out.append(s)
                walk(s)

    walk(DPTNumeric)
    return sorted(out, key=lambda c: (c.payload_length, c.__name__))


# ---------------------------------------------------------------------------
# table rows


class Row:
    name = ""
    n_cfg_factor = 1.0
    ctx = None

    def gen_cfg(self, rng: random.Random, ctx) -> dict:
        return {}

    def kind(self, cfg: dict) -> str:
        """Coarse, stable configuration label used in mechanism strings."""
        return ""

    async def build(self, h: DevHarness, cfg: dict):
        raise NotImplementedError

    def gen_ops(self, rng: random.Random, cfg: dict, dev, n: int) -> list:
        raise NotImplementedError

    def pre(self, dev, cfg: dict, op: list):
        return None

    async def call(self, h: DevHarness, dev, cfg: dict, op: list) -> None:
        raise NotImplementedError

    def observe(self, dev, cfg: dict, op: list, pre) -> list:
        """[(label, got, want, rep-or-None)]"""
        raise NotImplementedError

    async def after(self, h: DevHarness, dev, cfg: dict, op: list, pre) -> list:
        """Optional second observation after waiting (Cover travel)."""
        return []


def add(h: DevHarness, dev):
    h.xknx.devices.async_add(dev)
    return dev


class RSwitch(Row):
    name = "Switch"

    def gen_cfg(self, rng, ctx):
        return {"invert": rng.random() < 0.5, "state_addr": rng.random() < 0.4}

    def kind(self, cfg):
        return "invert" if cfg["invert"] else "plain"

    async def build(self, h, cfg):
        from xknx.devices import Switch

        return add(h, Switch(h.xknx, "sw", group_address="5/0/1", group_address_state="5/0/2" if cfg["state_addr"] else None,
                             invert=cfg["invert"], sync_state=False))

    def gen_ops(self, rng, cfg, dev, n):
        return [[rng.choice(("set_on", "set_off")), None] for _ in range(n)]

    async def call(self, h, dev, cfg, op):
        await getattr(dev, op[0])()

    def observe(self, dev, cfg, op, pre):
        return [("state", dev.state, op[0] == "set_on", None)]


class RLightBasic(Row):
    name = "Light"

    def gen_cfg(self, rng, ctx):
        return {"state_addr": rng.random() < 0.4}

    async def build(self, h, cfg):
        from xknx.devices import Light

        st = cfg["state_addr"]
        return add(h, Light(h.xknx, "l", group_address_switch="5/0/1", group_address_switch_state="5/0/2" if st else None,
                            group_address_brightness="5/0/3", group_address_brightness_state="5/0/4" if st else None,
                            group_address_tunable_white="5/0/5", sync_state=False))

    def gen_ops(self, rng, cfg, dev, n):
        ops = []
        for _ in range(n):
            c = rng.random()
            if c < 0.2:
                ops.append([rng.choice(("set_on", "set_off")), None])
            elif c < 0.65:
                ops.append(["set_brightness", rng.choice((0, 1, 127, 128, 254, 255, rng.randint(0, 255), rng.randint(0, 255)))])
            else:
                ops.append(["set_tunable_white", rng.choice((0, 255, rng.randint(0, 255), rng.randint(0, 255)))])
        return ops

    async def call(self, h, dev, cfg, op):
        if op[1] is None:
            await getattr(dev, op[0])()
        else:
            await getattr(dev, op[0])(op[1])

    def observe(self, dev, cfg, op, pre):
        if op[0] in ("set_on", "set_off"):
            return [("state", dev.state, op[0] == "set_on", None)]
        if op[0] == "set_brightness":
            return [("current_brightness", dev.current_brightness, op[1], scaling_rep(0, 255), dev.brightness)]
        return [("current_tunable_white", dev.current_tunable_white, op[1], scaling_rep(0, 255), dev.tunable_white)]


class RLightColor(Row):
    name = "Light"

    def gen_cfg(self, rng, ctx):
        return {"layout": rng.choice(("rgb", "rgbw", "individual_rgb", "individual_rgbw", "individual_rgbw_switches"))}

    def kind(self, cfg):
        return cfg["layout"]

    async def build(self, h, cfg):
        from xknx.devices import Light

        lay = cfg["layout"]
        kw = {}
        if lay == "rgb":
            kw["group_address_color"] = "5/1/1"
        elif lay == "rgbw":
            kw["group_address_rgbw"] = "5/1/2"
        else:
            for i, c in enumerate(("red", "green", "blue") + (("white",) if "rgbw" in lay else ())):
                kw[f"group_address_brightness_{c}"] = f"5/2/{i + 1}"
                if lay.endswith("switches"):
                    kw[f"group_address_switch_{c}"] = f"5/3/{i + 1}"
        return add(h, Light(h.xknx, "l", sync_state=False, **kw))

    def gen_ops(self, rng, cfg, dev, n):
        ops = []
        lay = cfg["layout"]
        col = [rng.choice((0, 255, rng.randint(0, 255))) for _ in range(3)]
        white = rng.choice((0, 255, rng.randint(0, 255)))
        for _ in range(n):
            if rng.random() < 0.6:
                # exactly one channel changes with respect to the previous request
                i = rng.randrange(4 if "rgbw" in lay else 3)
                v = rng.choice((0, 255, rng.randint(0, 255)))
                if i < 3:
                    col = list(col)
                    col[i] = v if v != col[i] else (v + 1) % 256
                else:
                    white = v if v != white else (v + 1) % 256
            else:
                col = [rng.choice((0, 255, rng.randint(0, 255))) for _ in range(3)]
                white = rng.choice((0, 255, rng.randint(0, 255)))
            if lay.startswith("individual") and rng.random() < 0.25:
                ops.append([rng.choice(("set_on", "set_off")), None])
            elif "rgbw" in lay:
                ops.append(["set_color", [list(col), white]])
            else:
                ops.append(["set_color", [list(col), None]])
        return ops

    def pre(self, dev, cfg, op):
        return dev.current_color

    async def call(self, h, dev, cfg, op):
        if op[1] is None:
            await getattr(dev, op[0])()
        else:
            await dev.set_color(tuple(op[1][0]), op[1][1])

    def observe(self, dev, cfg, op, pre):
        if op[1] is None:
            return [("state", dev.state, op[0] == "set_on", None)]
        return [("current_color", dev.current_color, (tuple(op[1][0]), op[1][1]), None)]


class RLightHS(Row):
    name = "Light"

    def kind(self, cfg):
        return "hs"

    async def build(self, h, cfg):
        from xknx.devices import Light

        return add(h, Light(h.xknx, "l", group_address_hue="5/1/1", group_address_saturation="5/1/2", sync_state=False))

    def gen_ops(self, rng, cfg, dev, n):
        from xknx.dpt import DPTAngle, DPTScaling

        ops = []
        h_prev, s_prev = dpt_rep(DPTAngle).sample(rng), dpt_rep(DPTScaling).sample(rng)
        for _ in range(n):
            c = rng.random()
            if c < 0.5:
                # carried state: a hue / saturation less than one unit away from the previous request, usually another raw octet
                h_new = min(360.0, max(0.0, round(round(h_prev) + rng.uniform(-0.99, 0.99), 2)))
                s_new = min(100.0, max(0.0, round(round(s_prev) + rng.uniform(-0.99, 0.99), 2))) if rng.random() < 0.4 else dpt_rep(DPTScaling).sample(rng)
            else:
                h_new, s_new = dpt_rep(DPTAngle).sample(rng), dpt_rep(DPTScaling).sample(rng)
            ops.append(["set_hs_color", [h_new, s_new]])
            h_prev, s_prev = h_new, s_new
        return ops

    async def call(self, h, dev, cfg, op):
        await dev.set_hs_color(tuple(op[1]))

    def observe(self, dev, cfg, op, pre):
        from xknx.dpt import DPTAngle, DPTScaling

        cur = dev.current_hs_color
        return [("hue", None if cur is None else cur[0], op[1][0], dpt_rep(DPTAngle), dev.hue),
                ("saturation", None if cur is None else cur[1], op[1][1], dpt_rep(DPTScaling), dev.saturation)]


class RLightXYY(Row):
    name = "Light"

    def kind(self, cfg):
        return "xyy"

    async def build(self, h, cfg):
        from xknx.devices import Light

        return add(h, Light(h.xknx, "l", group_address_xyy_color="5/1/1", sync_state=False))

    @staticmethod
    def rep():
        if "xy" not in _IMAGES:
            _IMAGES["xy"] = ImageRep(round(k / 0xFFFF, 5) for k in range(0x10000))
        return _IMAGES["xy"]

    def gen_ops(self, rng, cfg, dev, n):
        r = self.rep()
        ops = []
        cur = [r.sample(rng), r.sample(rng), rng.randint(0, 255)]
        for _ in range(n):
            c = rng.random()
            if c < 0.5:
                i = rng.randrange(3)  # exactly one component changes
                cur = list(cur)
                cur[i] = r.sample(rng) if i < 2 else (cur[2] + rng.randint(1, 255)) % 256
            elif c < 0.7:
                cur = [round(rng.random(), rng.choice((1, 2, 3, 4))), round(rng.random(), rng.choice((1, 2, 3))), rng.choice((0, 255))]
            else:
                cur = [r.sample(rng), r.sample(rng), rng.choice((0, 255, rng.randint(0, 255)))]
            ops.append(["set_xyy_color", list(cur)])
        return ops

    async def call(self, h, dev, cfg, op):
        from xknx.dpt import XYYColor

        await dev.set_xyy_color(XYYColor(color=(op[1][0], op[1][1]), brightness=op[1][2]))

    def observe(self, dev, cfg, op, pre):
        cur = dev.current_xyy_color
        col = None if cur is None or cur.color is None else cur.color
        return [("x", None if col is None else col[0], op[1][0], self.rep()),
                ("y", None if col is None else col[1], op[1][1], self.rep()),
                ("brightness", None if cur is None else cur.brightness, op[1][2], None)]


class RLightColorTemp(Row):
    name = "Light"

    def gen_cfg(self, rng, ctx):
        return {"type": rng.choice(("UINT_2_BYTE", "FLOAT_2_BYTE"))}

    def kind(self, cfg):
        return "color_temperature_" + cfg["type"]

    async def build(self, h, cfg):
        from xknx.devices import Light
        from xknx.devices.light import ColorTemperatureType

        return add(h, Light(h.xknx, "l", group_address_color_temperature="5/1/1",
                            color_temperature_type=ColorTemperatureType[cfg["type"]], sync_state=False))

    def rep(self, cfg):
        from xknx.dpt import DPT2ByteFloat, DPTColorTemperature

        return dpt_rep(DPTColorTemperature if cfg["type"] == "UINT_2_BYTE" else DPT2ByteFloat)

    def gen_ops(self, rng, cfg, dev, n):
        ops = []
        for _ in range(n):
            if cfg["type"] == "UINT_2_BYTE":
                v = rng.choice((0, 65535, 2700, 6500, rng.randint(0, 65535)))
            else:
                v = rng.choice((2700, 6500, 4000, rng.randint(1000, 12000), rng.randint(0, 60000)))
            ops.append(["set_color_temperature", v])
        return ops

    async def call(self, h, dev, cfg, op):
        await dev.set_color_temperature(op[1])

    def observe(self, dev, cfg, op, pre):
        return [("current_color_temperature", dev.current_color_temperature, op[1], self.rep(cfg), dev.color_temperature)]


class RFan(Row):
    name = "Fan"

    def gen_cfg(self, rng, ctx):
        return {"max_step": rng.choice((None, None, 3, 4, 5, 10, 255)), "switch": rng.random() < 0.4, "osc": rng.random() < 0.5}

    def kind(self, cfg):
        return ("step" if cfg["max_step"] else "percent") + ("+switch" if cfg["switch"] else "")

    async def build(self, h, cfg):
        from xknx.devices import Fan

        return add(h, Fan(h.xknx, "f", group_address_speed="5/0/1", group_address_switch="5/0/2" if cfg["switch"] else None,
                          group_address_oscillation="5/0/3" if cfg["osc"] else None, max_step=cfg["max_step"], sync_state=False))

    def rep(self, cfg):
        return IntRep(0, 255) if cfg["max_step"] else scaling_rep(0, 100)

    def speed(self, rng, cfg, nonzero=False):
        top = cfg["max_step"] or 100
        return rng.choice((1 if nonzero else 0, top, rng.randint(1 if nonzero else 0, top), rng.randint(1, top)))

    def gen_ops(self, rng, cfg, dev, n):
        ops = []
        for _ in range(n):
            c = rng.random()
            if c < 0.5:
                ops.append(["set_speed", self.speed(rng, cfg)])
            elif c < 0.7:
                ops.append(["turn_on", rng.choice((None, self.speed(rng, cfg, nonzero=True)))])
            elif c < 0.85 or not cfg["osc"]:
                ops.append(["turn_off", None])
            else:
                ops.append(["set_oscillation", rng.random() < 0.5])
        return ops

    async def call(self, h, dev, cfg, op):
        if op[0] == "turn_off":
            await dev.turn_off()
        elif op[0] == "turn_on":
            await dev.turn_on(op[1])
        else:
            await getattr(dev, op[0])(op[1])

    def observe(self, dev, cfg, op, pre):
        rep = self.rep(cfg)
        if op[0] == "set_speed":
            return [("current_speed", dev.current_speed, op[1], rep)]
        if op[0] == "set_oscillation":
            return [("current_oscillation", dev.current_oscillation, op[1], None)]
        if op[0] == "turn_off":
            out = [("is_on", dev.is_on, False, None)]
            if not cfg["switch"]:
                out.append(("current_speed", dev.current_speed, 0, rep))
            return out
        out = [("is_on", dev.is_on, True, None)]
        speed = op[1]  # turn_on() without a speed requests no particular speed: only is_on is judged
        if speed is not None:
            out.append(("current_speed", dev.current_speed, speed, rep))
        return out


class RCover(Row):
    name = "Cover"
    _mark = 0
    ctx = None

    def gen_cfg(self, rng, ctx):
        return {
            "layout": rng.choice(("position", "position+updown", "updown+stop", "updown+step", "position+updown+stop")),
            "angle": rng.random() < 0.5,
            "invert_updown": rng.random() < 0.5,
            "invert_position": rng.random() < 0.5,
            "invert_angle": rng.random() < 0.5,
            "tt_down": 100.0 * rng.randint(1, 40) / 2 ** rng.randint(2, 5),
            "tt_up": 100.0 * rng.randint(1, 40) / 2 ** rng.randint(2, 5),
        }

    def kind(self, cfg):
        inv = any(cfg[k] for k in ("invert_updown", "invert_position", "invert_angle"))
        return ("position-address" if "position" in cfg["layout"] else "updown-only") + ("/inverted" if inv else "")

    async def build(self, h, cfg):
        from xknx.devices import Cover

        lay = cfg["layout"]
        kw = {}
        if "updown" in lay:
            kw["group_address_long"] = "5/0/1"
        if "stop" in lay:
            kw["group_address_stop"] = "5/0/2"
        if "step" in lay:
            kw["group_address_short"] = "5/0/3"
        if "position" in lay:
            kw["group_address_position"] = "5/0/4"
        if cfg["angle"]:
            kw["group_address_angle"] = "5/0/6"
        dev = add(h, Cover(h.xknx, "c", group_address_position_state="5/0/5", travel_time_down=cfg["tt_down"], travel_time_up=cfg["tt_up"],
                           invert_updown=cfg["invert_updown"], invert_position=cfg["invert_position"], invert_angle=cfg["invert_angle"],
                           sync_state=False, **kw))
        # a cover that knows where it is: report "fully open" on the state address
        h.incoming_write("5/0/5", dev.position_current.to_knx(0))
        await h.settle()
        return dev

    def gen_ops(self, rng, cfg, dev, n):
        ops = []
        for _ in range(max(3, n // 2)):
            c = rng.random()
            if rng.random() < 0.4:
                # a timed command sequence: 2-3 setter calls, the later ones arriving while the cover still travels (or after it
                # arrived); judged on the state after the LAST command's travel time
                seq = []
                for _j in range(rng.randint(2, 3)):
                    k = rng.random()
                    if k < 0.7:
                        cmd = ["set_position", rng.choice((0, 100, 50, rng.randint(0, 100), rng.randint(1, 99)))]
                    else:
                        cmd = [rng.choice(("set_up", "set_down")), None]
                    seq.append(cmd + [rng.choice(("zero", "eighth", "quarter", "half", "most", "beyond"))])
                ops.append(["sequence", seq])
                continue
            if c < 0.5:
                ops.append(["set_position", rng.choice((0, 100, 50, rng.randint(0, 100), rng.randint(1, 99)))])
            elif c < 0.62:
                ops.append(["set_up", None])
            elif c < 0.74:
                ops.append(["set_down", None])
            elif cfg["angle"]:
                ops.append(["set_angle", rng.choice((0, 100, rng.randint(0, 100)))])
            else:
                ops.append(["set_position", rng.randint(0, 100)])
        return ops

    def pre(self, dev, cfg, op):
        return dev.current_position()

    async def call(self, h, dev, cfg, op):
        if op[0] == "sequence":
            tt = max(cfg["tt_down"], cfg["tt_up"])
            gaps = {"zero": 0.0, "eighth": tt / 8, "quarter": tt / 4, "half": tt / 2, "most": tt * 0.875, "beyond": tt + 2}
            for i, (name, val, gap) in enumerate(op[1]):
                self._mark = len(h.iface.sent)
                if val is None:
                    await getattr(dev, name)()
                else:
                    await getattr(dev, name)(val)
                if i + 1 < len(op[1]):
                    await h.settle()
                    if gaps[gap] > 0:
                        await asyncio.sleep(gaps[gap])
                        await h.settle()
            return
        if op[1] is None:
            await getattr(dev, op[0])()
        else:
            await getattr(dev, op[0])(op[1])

    def observe(self, dev, cfg, op, pre):
        if op[0] == "sequence":
            return []
        if op[0] == "set_angle":
            return [("current_angle", dev.current_angle(), op[1], scaling_rep(0, 100))]
        if op[0] == "set_position" and "position" in cfg["layout"]:
            return [("position_target", dev.position_target.value, op[1], scaling_rep(0, 100))]
        return []

    async def after(self, h, dev, cfg, op, pre):
        if op[0] == "set_angle":
            return []
        if op[0] == "sequence" and len(h.iface.sent) == self._mark:
            # the last command sent no telegram (e.g. set_position(p) while the estimate happens to equal p, even though the cover
            # is travelling elsewhere): the statement speaks about the telegrams a setter sends -> recorded, not judged
            self.ctx.count("cover_sequence_last_command_sent_nothing_not_judged")
            return []
        await asyncio.sleep(max(cfg["tt_down"], cfg["tt_up"]) + 2)
        await h.settle()
        if op[0] == "sequence":
            op = op[1][-1][:2]  # the last requested value counts
        want = op[1] if op[0] == "set_position" else (0 if op[0] == "set_up" else 100)
        out = [("current_position_after_travel", dev.current_position(), want, scaling_rep(0, 100))]
        if op[0] == "set_up":
            out.append(("is_open_after_travel", dev.is_open(), True, None))
        if op[0] == "set_down":
            out.append(("is_closed_after_travel", dev.is_closed(), True, None))
        return out


class RClimateTarget(Row):
    name = "Climate"

    def gen_cfg(self, rng, ctx):
        lim = rng.choice(((None, None), (7.0, 35.0), (16.0, 26.0), (None, 30.0), (5.5, None)))
        return {"min_temp": lim[0], "max_temp": lim[1], "state_addr": rng.random() < 0.4}

    def kind(self, cfg):
        return "target_temperature" + ("+limits" if cfg["min_temp"] is not None or cfg["max_temp"] is not None else "")

    async def build(self, h, cfg):
        from xknx.devices import Climate

        return add(h, Climate(h.xknx, "cl", group_address_target_temperature="5/1/1",
                              group_address_target_temperature_state="5/1/2" if cfg["state_addr"] else None,
                              min_temp=cfg["min_temp"], max_temp=cfg["max_temp"], sync_state=False))

    def gen_ops(self, rng, cfg, dev, n):
        from xknx.dpt import DPTTemperature

        rep = dpt_rep(DPTTemperature)
        ops = []
        for _ in range(n):
            c = rng.random()
            if c < 0.5:
                v = round(rng.uniform(-10, 45), rng.choice((0, 1, 1, 2)))
            elif c < 0.8:
                v = round(rng.uniform(15, 28) * 2) / 2
            else:
                v = rep.sample(rng)
                if not -273 <= v <= 2000:
                    v = 21.0
            ops.append(["set_target_temperature", v])
        return ops

    async def call(self, h, dev, cfg, op):
        await dev.set_target_temperature(op[1])

    def observe(self, dev, cfg, op, pre):
        from xknx.dpt import DPTTemperature

        want = op[1]
        if cfg["min_temp"] is not None:
            want = max(want, cfg["min_temp"])
        if cfg["max_temp"] is not None:
            want = min(want, cfg["max_temp"])
        return [("target_temperature", dev.target_temperature.value, want, dpt_rep(DPTTemperature), dev.target_temperature)]


class RClimateShift(Row):
    name = "Climate"
    n_cfg_factor = 2.0

    def gen_cfg(self, rng, ctx):
        step = rng.choice((0.1, 0.1, 0.5, 0.2, 1.0, 0.25, 0.05))
        rng_ = rng.choice(((-6, 6), (-6, 6), (-3.5, 3.5), (-12, 12), (-2, 4)))
        k0 = rng.randint(-5, 5)
        return {
            "mode": rng.choice(("DPT6010", "DPT6010", "DPT9002", "auto6010", "auto9002")),
            "step": step,
            "shift_min": rng_[0],
            "shift_max": rng_[1],
            "target_writable": rng.random() < 0.6,
            "t0": rng.choice((21.0, 20.5, 22.3, 19.0, 23.7)),
            "k0": k0,
            # derived base temperature exactly 0.0: current target temperature == current setpoint shift
            "zero_base": rng.random() < 0.3,
        }

    def kind(self, cfg):
        return "setpoint_shift_" + ("6010" if "6010" in cfg["mode"] else "9002")

    async def build(self, h, cfg):
        from xknx.devices import Climate
        from xknx.dpt import DPTTemperature, DPTValue1Count
        from xknx.remote_value.remote_value_setpoint_shift import SetpointShiftMode

        mode = {"DPT6010": SetpointShiftMode.DPT6010, "DPT9002": SetpointShiftMode.DPT9002}.get(cfg["mode"])
        dev = add(h, Climate(h.xknx, "cl", group_address_target_temperature="5/1/1" if cfg["target_writable"] else None,
                             group_address_target_temperature_state="5/1/2", group_address_setpoint_shift="5/1/3",
                             group_address_setpoint_shift_state="5/1/4", setpoint_shift_mode=mode, temperature_step=cfg["step"],
                             setpoint_shift_min=cfg["shift_min"], setpoint_shift_max=cfg["shift_max"], sync_state=False))
        k0 = max(min(cfg["k0"], int(cfg["shift_max"] / cfg["step"])), int(cfg["shift_min"] / cfg["step"]))
        if "6010" in cfg["mode"]:
            h.incoming_write("5/1/4", DPTValue1Count.to_knx(k0))
        else:
            h.incoming_write("5/1/4", DPTTemperature.to_knx(k0 * cfg["step"]))
        if cfg.get("zero_base"):
            await h.settle()
            h.incoming_write("5/1/2", DPTTemperature.to_knx(dev.setpoint_shift))
        else:
            h.incoming_write("5/1/2", DPTTemperature.to_knx(cfg["t0"]))
        await h.settle()
        if dev.base_temperature == 0:
            self.ctx.count("climate_base_temperature_exactly_zero")
        return dev

    def rep(self, cfg):
        from xknx.dpt import DPTTemperature

        return GridRep(cfg["step"], -128, 127) if "6010" in cfg["mode"] else dpt_rep(DPTTemperature)

    def gen_ops(self, rng, cfg, dev, n):
        ops = []
        step = cfg["step"]
        kmin, kmax = math.ceil(cfg["shift_min"] / step), math.floor(cfg["shift_max"] / step)
        for _ in range(n):
            k = rng.randint(kmin - 3, kmax + 3)
            c = rng.random()
            if c < 0.5:
                # what a user types: a decimal literal of a multiple of the step
                ops.append(["set_setpoint_shift", float(f"{k * step:.2f}")])
            elif c < 0.6:
                ops.append(["set_setpoint_shift", round(rng.uniform(cfg["shift_min"] - 1, cfg["shift_max"] + 1), 2)])
            elif c < 0.9:
                ops.append(["set_target_temperature", ["base+", float(f"{k * step:.2f}")]])
            else:
                ops.append(["set_target_temperature", ["abs", round(rng.uniform(15, 28), 1)]])
        return ops

    def pre(self, dev, cfg, op):
        tt, ss = dev.target_temperature.value, dev.setpoint_shift
        return None if tt is None or ss is None else tt - ss

    async def call(self, h, dev, cfg, op):
        if op[0] == "set_setpoint_shift":
            await dev.set_setpoint_shift(op[1])
        else:
            base = self.pre(dev, cfg, op)
            t = op[1][1] if op[1][0] == "abs" else float(f"{base + op[1][1]:.2f}")
            op[1] = ["abs", t]  # resolved: replay uses the same number
            await dev.set_target_temperature(t)

    def observe(self, dev, cfg, op, pre):
        from xknx.dpt import DPTTemperature

        base = pre
        if base is None:
            return []
        offset = op[1] if op[0] == "set_setpoint_shift" else op[1][1] - base
        offset = min(max(offset, cfg["shift_min"]), cfg["shift_max"])
        out = [("setpoint_shift", dev.setpoint_shift, offset, self.rep(cfg))]
        if cfg["target_writable"]:
            out.append(("target_temperature", dev.target_temperature.value, base + offset, dpt_rep(DPTTemperature)))
        return out


class RClimateMisc(Row):
    name = "Climate"

    def gen_cfg(self, rng, ctx):
        return {"on_off_invert": rng.random() < 0.5, "fan_mode": rng.choice(("PERCENT", "STEP")), "state_addr": rng.random() < 0.3}

    def kind(self, cfg):
        return "misc" + ("/on_off_invert" if cfg["on_off_invert"] else "") + "/fan_" + cfg["fan_mode"].lower()

    async def build(self, h, cfg):
        from xknx.devices import Climate
        from xknx.devices.fan import FanSpeedMode

        return add(h, Climate(h.xknx, "cl", group_address_on_off="5/1/1", group_address_on_off_state="5/1/2" if cfg["state_addr"] else None,
                              on_off_invert=cfg["on_off_invert"], group_address_fan_speed="5/1/3", fan_speed_mode=FanSpeedMode[cfg["fan_mode"]],
                              group_address_swing="5/1/4", group_address_horizontal_swing="5/1/5", sync_state=False))

    def gen_ops(self, rng, cfg, dev, n):
        ops = []
        top = 100 if cfg["fan_mode"] == "PERCENT" else 255
        for _ in range(n):
            c = rng.random()
            if c < 0.3:
                ops.append([rng.choice(("turn_on", "turn_off")), None])
            elif c < 0.7:
                ops.append(["set_fan_speed", rng.choice((0, top, rng.randint(0, top)))])
            elif c < 0.85:
                ops.append(["set_swing", rng.random() < 0.5])
            else:
                ops.append(["set_horizontal_swing", rng.random() < 0.5])
        return ops

    async def call(self, h, dev, cfg, op):
        if op[1] is None:
            await getattr(dev, op[0])()
        else:
            await getattr(dev, op[0])(op[1])

    def observe(self, dev, cfg, op, pre):
        if op[0] in ("turn_on", "turn_off"):
            return [("is_on", dev.is_on, op[0] == "turn_on", None)]
        if op[0] == "set_fan_speed":
            return [("current_fan_speed", dev.current_fan_speed, op[1], scaling_rep(0, 100) if cfg["fan_mode"] == "PERCENT" else IntRep(0, 255))]
        if op[0] == "set_swing":
            return [("current_swing", dev.current_swing, op[1], None)]
        return [("current_horizontal_swing", dev.current_horizontal_swing, op[1], None)]


class RClimateMode(Row):
    name = "ClimateMode"
    n_cfg_factor = 2.0
    PARTS = ("operation_mode", "comfort", "economy", "protection", "standby", "controller_mode", "heat_cool", "controller_status")

    def gen_cfg(self, rng, ctx):
        parts = [p for p in self.PARTS if rng.random() < 0.35]
        if not parts:
            parts = [rng.choice(self.PARTS)]
        return {"parts": parts}

    def kind(self, cfg):
        return "modes"

    async def build(self, h, cfg):
        from xknx.devices import ClimateMode
        from xknx.dpt import DPTHVACStatus
        from xknx.dpt.dpt_1 import HeatCool
        from xknx.dpt.dpt_20 import HVACOperationMode, HVACStatus

        p = cfg["parts"]
        kw = {}
        if "operation_mode" in p:
            kw["group_address_operation_mode"] = "5/2/1"
        for i, b in enumerate(("comfort", "economy", "protection", "standby")):
            if b in p:
                kw[f"group_address_operation_mode_{b}"] = f"5/2/{i + 2}"
        if "controller_mode" in p:
            kw["group_address_controller_mode"] = "5/2/6"
        if "heat_cool" in p:
            kw["group_address_heat_cool"] = "5/2/7"
        if "controller_status" in p:
            kw["group_address_controller_status"] = "5/2/8"
            kw["group_address_controller_status_state"] = "5/2/9"
        dev = add(h, ClimateMode(h.xknx, "cm", sync_state=False, **kw))
        if "controller_status" in p:
            h.incoming_write("5/2/9", DPTHVACStatus.to_knx(HVACStatus(mode=HVACOperationMode.STANDBY, dew_point=False, heat_cool=HeatCool.HEAT,
                                                                   inactive=False, frost_alarm=False)))
            await h.settle()
        return dev

    def gen_ops(self, rng, cfg, dev, n):
        ops = []
        oms = sorted(m.name for m in dev.operation_modes)
        cms = sorted(m.name for m in dev.controller_modes)
        for _ in range(n):
            if oms and (not cms or rng.random() < 0.6):
                ops.append(["set_operation_mode", rng.choice(oms)])
            elif cms:
                ops.append(["set_controller_mode", rng.choice(cms)])
        return ops

    async def call(self, h, dev, cfg, op):
        from xknx.dpt.dpt_20 import HVACControllerMode, HVACOperationMode

        if op[0] == "set_operation_mode":
            await dev.set_operation_mode(HVACOperationMode[op[1]])
        else:
            await dev.set_controller_mode(HVACControllerMode[op[1]])

    def observe(self, dev, cfg, op, pre):
        if op[0] == "set_operation_mode":
            return [("operation_mode", dev.operation_mode.name, op[1], None)]
        return [("controller_mode", dev.controller_mode.name, op[1], None)]


class RNumeric(Row):
    """NumericValue / ExposeSensor over DPT choices."""

    def __init__(self, device: str) -> None:
        self.name = device

    n_cfg_factor = 0.0  # configurations are enumerated (one per DPT class)

    def classes(self, ctx):
        cls = numeric_classes()
        if ctx.quick:
            cls = [c for c in cls if c.payload_length == 1 or (c.payload_length == 2 and c.value_type in QUICK_2BYTE)
                   or (c.payload_length >= 4 and c.value_type in ("4byte_unsigned", "4byte_signed", "4byte_float", "power", "active_energy",
                                                                  "8byte_signed", "long_time_period_sec", "temperature_a"))]
        if self.name == "ExposeSensor":
            keep = ("temperature", "percent", "pulse", "2byte_unsigned", "4byte_float", "angle", "percentV8", "illuminance", "4byte_signed")
            cls = [c for c in cls if c.value_type in keep]
        return cls

    def kind(self, cfg):
        return cfg["dpt"]

    async def build(self, h, cfg):
        from xknx.devices import ExposeSensor, NumericValue

        if self.name == "NumericValue":
            return add(h, NumericValue(h.xknx, "n", group_address="5/0/1", value_type=cfg["value_type"], sync_state=False))
        return add(h, ExposeSensor(h.xknx, "e", group_address="5/0/1", value_type=cfg["value_type"]))

    def rep(self, cfg):
        from xknx.dpt import DPTBase

        return dpt_rep(DPTBase.get_dpt(cfg["value_type"]))

    def gen_ops(self, rng, cfg, dev, n):
        rep = self.rep(cfg)
        if isinstance(rep, IntRep):
            ops = []
            for _ in range(n):
                v = rep.sample(rng)
                if rng.random() < 0.08 and rep.lo < v < rep.hi and abs(v) < 2**52:
                    v = math.nextafter(float(v), rng.choice((-math.inf, math.inf)))  # neighbour rule
                ops.append(["set", v])
            return ops
        ops = []
        prev = None
        for _ in range(n):
            v = rep.sample(rng, ints=cfg.get("ints", False))
            if prev is not None and isinstance(rep, ImageRep) and rng.random() < 0.25:
                # carried state: less than one unit away from the previous request
                v = min(rep.v[-1], max(rep.v[0], round(prev + rng.uniform(-0.99, 0.99), 2)))
            ops.append(["set", v])
            prev = v
        return ops

    async def call(self, h, dev, cfg, op):
        await dev.set(op[1])

    def observe(self, dev, cfg, op, pre):
        return [("resolve_state", dev.resolve_state(), op[1], self.rep(cfg), dev.sensor_value)]


class RExposeOther(Row):
    name = "ExposeSensor"

    def gen_cfg(self, rng, ctx):
        return {"value_type": rng.choice(("binary", "string", "latin_1"))}

    def kind(self, cfg):
        return cfg["value_type"]

    async def build(self, h, cfg):
        from xknx.devices import ExposeSensor

        return add(h, ExposeSensor(h.xknx, "e", group_address="5/0/1", value_type=cfg["value_type"]))

    def gen_ops(self, rng, cfg, dev, n):
        if cfg["value_type"] == "binary":
            return [["set", rng.random() < 0.5] for _ in range(n)]
        return [["set", _text(rng, cfg["value_type"] == "latin_1", 14)] for _ in range(n)]

    async def call(self, h, dev, cfg, op):
        await dev.set(op[1])

    def observe(self, dev, cfg, op, pre):
        return [("resolve_state", dev.resolve_state(), op[1], None)]


def _text(rng: random.Random, latin: bool, maxlen: int) -> str:
    alphabet = [chr(c) for c in range(0x20, 0x7F)]
    if latin:
        alphabet += [chr(c) for c in range(0xA0, 0x100)]
    return "".join(rng.choice(alphabet) for _ in range(rng.choice((0, 1, 5, 13, 14, rng.randint(0, maxlen)))))


class RNotification(Row):
    name = "Notification"

    def gen_cfg(self, rng, ctx):
        return {"value_type": rng.choice((None, "string", "latin_1"))}

    def kind(self, cfg):
        return cfg["value_type"] or "default"

    async def build(self, h, cfg):
        from xknx.devices import Notification

        return add(h, Notification(h.xknx, "n", group_address="5/0/1", value_type=cfg["value_type"], sync_state=False))

    def gen_ops(self, rng, cfg, dev, n):
        return [["set", _text(rng, cfg["value_type"] == "latin_1", 24)] for _ in range(n)]

    async def call(self, h, dev, cfg, op):
        await dev.set(op[1])

    def observe(self, dev, cfg, op, pre):
        return [("message", dev.message, op[1][:14], None)]


class RRawValue(Row):
    name = "RawValue"

    def gen_cfg(self, rng, ctx):
        return {"payload_length": rng.choice((0, 1, 2, 3, 4, 6, 8, 14))}

    def kind(self, cfg):
        return "len" + str(cfg["payload_length"])

    async def build(self, h, cfg):
        from xknx.devices import RawValue

        return add(h, RawValue(h.xknx, "r", payload_length=cfg["payload_length"], group_address="5/0/1", sync_state=False))

    def gen_ops(self, rng, cfg, dev, n):
        top = 63 if cfg["payload_length"] == 0 else 256 ** cfg["payload_length"] - 1
        return [["set", rng.choice((0, top, rng.randint(0, top), rng.randint(0, min(top, 300))))] for _ in range(n)]

    async def call(self, h, dev, cfg, op):
        await dev.set(op[1])

    def observe(self, dev, cfg, op, pre):
        return [("resolve_state", dev.resolve_state(), op[1], None)]


class RScene(Row):
    name = "Scene"

    def gen_cfg(self, rng, ctx):
        return {"scene_number": rng.choice((1, 64, rng.randint(1, 64)))}

    def kind(self, cfg):
        return "scene"

    async def build(self, h, cfg):
        from xknx.devices import Scene

        return add(h, Scene(h.xknx, "s", group_address="5/0/1", scene_number=cfg["scene_number"]))

    def gen_ops(self, rng, cfg, dev, n):
        return [[rng.choice(("run", "learn")), None] for _ in range(n)]

    async def call(self, h, dev, cfg, op):
        await getattr(dev, op[0])()

    def observe(self, dev, cfg, op, pre):
        v = dev.scene_value.value
        return [("learn_requested", dev.learn_requested, op[0] == "learn", None),
                ("scene_number", None if v is None else v.scene_number, cfg["scene_number"], None)]


class RDateTime(Row):
    """Time / Date / DateTime devices and ExposeSensor with the same DPTs; consecutive values mostly differ in ONE field."""

    name = "DateTime"
    n_cfg_factor = 1.5
    FIELDS = {
        "time": ("hour", "minutes", "seconds", "day"),
        "date": ("year", "month", "day"),
        "datetime": ("year", "month", "day", "hour", "minutes", "seconds", "day_of_week", "fault", "working_day", "dst",
                     "external_sync", "source_reliable"),
    }

    def gen_cfg(self, rng, ctx):
        return {"dpt": rng.choice(("time", "date", "datetime")), "host": rng.choice(("device", "device", "expose"))}

    def kind(self, cfg):
        return cfg["dpt"] + ("/ExposeSensor" if cfg["host"] == "expose" else "")

    async def build(self, h, cfg):
        import xknx.devices as d

        if cfg["host"] == "expose":
            return add(h, d.ExposeSensor(h.xknx, "e", group_address="5/0/1", value_type=cfg["dpt"]))
        cls = {"time": "TimeDevice", "date": "DateDevice", "datetime": "DateTimeDevice"}[cfg["dpt"]]
        return add(h, getattr(d, cls)(h.xknx, "t", localtime=False, group_address="5/0/1", sync_state=False))

    @staticmethod
    def _field(rng, dpt, name):
        if name == "hour":
            return rng.randint(0, 23)
        if name in ("minutes", "seconds"):
            return rng.randint(0, 59)
        if name == "year":
            return rng.randint(1990, 2089) if dpt == "date" else rng.choice((1900, 2155, rng.randint(1900, 2155)))
        if name == "month":
            return rng.randint(1, 12)
        if name == "day" and dpt == "time":
            return rng.randint(0, 7)  # KNXDay, 0 = no day
        if name == "day":
            return rng.randint(1, 28)
        if name == "day_of_week":
            return rng.randint(0, 7)
        if name == "working_day":
            return rng.choice((None, True, False))
        return rng.random() < 0.5  # flags

    def gen_ops(self, rng, cfg, dev, n):
        dpt = cfg["dpt"]
        names = self.FIELDS[dpt]
        cur = [self._field(rng, dpt, f) for f in names]
        ops = [["set", list(cur)]]
        for _ in range(n - 1):
            if rng.random() < 0.75:
                i = rng.randrange(len(names))  # exactly one component changes
                for _try in range(8):
                    v = self._field(rng, dpt, names[i])
                    if v != cur[i]:
                        cur[i] = v
                        break
            else:
                cur = [self._field(rng, dpt, f) for f in names]
            ops.append(["set", list(cur)])
        return ops

    def _value(self, cfg, op):
        from xknx.dpt.dpt_10 import KNXDay, KNXTime
        from xknx.dpt.dpt_11 import KNXDate
        from xknx.dpt.dpt_19 import KNXDateTime, KNXDayOfWeek

        v = op[1]
        if cfg["dpt"] == "time":
            return KNXTime(v[0], v[1], v[2], KNXDay(v[3]))
        if cfg["dpt"] == "date":
            return KNXDate(*v)
        return KNXDateTime(v[0], v[1], v[2], v[3], v[4], v[5], day_of_week=KNXDayOfWeek(v[6]), fault=v[7], working_day=v[8], dst=v[9],
                           external_sync=v[10], source_reliable=v[11])

    async def call(self, h, dev, cfg, op):
        await dev.set(self._value(cfg, op))

    def observe(self, dev, cfg, op, pre):
        want = self._value(cfg, op)
        if cfg["host"] == "expose":
            return [("resolve_state", dev.resolve_state(), want, None)]
        out = [("remote_value.value", dev.remote_value.value, want, None)]
        py = want.as_time() if cfg["dpt"] == "time" else want.as_date() if cfg["dpt"] == "date" else want.as_datetime()
        out.append(("value", dev.value, py, None))
        return out


class RScalingProbe(Row):
    """RemoteValueScaling with generated ranges, inside a minimal Device."""

    name = "RemoteValueScaling"
    n_cfg_factor = 2.0

    def gen_cfg(self, rng, ctx):
        a = rng.choice((0, 0, 100, 255, -50, rng.randint(-500, 500)))
        b = a
        while b == a:
            b = rng.choice((0, 100, 255, 1, 10, 1000, -100, rng.randint(-1000, 1000)))
        return {"range_from": a, "range_to": b}

    def kind(self, cfg):
        d = abs(cfg["range_to"] - cfg["range_from"])
        return ("descending" if cfg["range_to"] < cfg["range_from"] else "ascending") + ("-wide" if d > 255 else "")

    async def build(self, h, cfg):
        from xknx.remote_value import RemoteValueScaling

        return add(h, ProbeDevice.make(h.xknx, "p", lambda d: RemoteValueScaling(
            h.xknx, group_address="5/0/1", device_name="p", range_from=cfg["range_from"], range_to=cfg["range_to"], sync_state=False)))

    def gen_ops(self, rng, cfg, dev, n):
        lo, hi = sorted((cfg["range_from"], cfg["range_to"]))
        return [["set", rng.choice((lo, hi, rng.randint(lo, hi), rng.randint(lo, hi)))] for _ in range(n)]

    async def call(self, h, dev, cfg, op):
        dev.remote_value.set(op[1])

    def observe(self, dev, cfg, op, pre):
        return [("value", dev.remote_value.value, op[1], scaling_rep(cfg["range_from"], cfg["range_to"]), dev.remote_value)]


GA_DPT_MODES = ("none", "own", "relative", "unrelated")


def install_ga_dpt_table(ctx, h: DevHarness, dev, table_cfg: dict) -> None:
    """Fill `xknx.group_address_dpt` for the device's addresses (public API).  The oracle does not change: whatever the
    table says, the device must report what was requested (C38: the table never changes what devices see)."""
    mode = table_cfg.get("mode", "none")
    ctx.count("ga_dpt_table_" + mode)
    if mode == "none":
        return
    from xknx.dpt import DPTBase, DPTSwitch

    rng = random.Random(table_cfg.get("seed", 0))
    pool = numeric_classes()
    table = {}
    devices = [dev] + ([dev.mode] if getattr(dev, "mode", None) is not None and hasattr(dev.mode, "_iter_remote_values") else [])
    for d in devices:
        for rv in d._iter_remote_values():
            own = getattr(rv, "dpt_class", None)
            if not (isinstance(own, type) and issubclass(own, DPTBase)):
                own = getattr(rv, "_internal_dpt_class", None)
            if not (isinstance(own, type) and issubclass(own, DPTBase)):
                own = None
            choice = None
            if mode == "own":
                choice = own
            elif mode == "relative" and own is not None:
                parents = [c for c in own.__mro__[1:] if isinstance(c, type) and issubclass(c, DPTBase)
                           and getattr(c, "dpt_main_number", None) is not None and getattr(c, "payload_length", None) is not None]
                children = [c for c in pool + [DPTSwitch] if c is not own and issubclass(c, own)]

                def walk(c, acc):
                    for sub in c.__subclasses__():
                        if getattr(sub, "dpt_main_number", None) is not None:
                            acc.append(sub)
                        walk(sub, acc)
                    return acc

                children = walk(own, [])
                cands = parents[:1] + children
                if cands:
                    choice = rng.choice(cands)
                    ctx.count("ga_dpt_relative_parent" if choice in parents else "ga_dpt_relative_child")
            if choice is None and mode in ("unrelated", "relative"):
                choice = rng.choice(pool) if rng.random() < 0.8 else DPTSwitch
            if choice is None:
                continue
            for ga in rv.group_addresses():
                table[ga] = {"main": choice.dpt_main_number, "sub": choice.dpt_sub_number}
    if table:
        h.xknx.group_address_dpt.set(table)
        ctx.count("ga_dpt_entries_installed", sum(1 for ga in table if h.xknx.group_address_dpt.get(ga) is not None))


def rows():
    return [RSwitch(), RLightBasic(), RLightColor(), RLightHS(), RLightXYY(), RLightColorTemp(), RFan(), RCover(), RClimateTarget(),
            RClimateShift(), RClimateMisc(), RClimateMode(), RNumeric("NumericValue"), RNumeric("ExposeSensor"), RExposeOther(),
            RNotification(), RRawValue(), RScene(), RDateTime(), RScalingProbe()]


# ---------------------------------------------------------------------------
# engine


def fieldwise(x):
    """Compare complex values field by field, never through the value's own __eq__ (a dataclass may exclude fields from it)."""
    import dataclasses
    import enum

    if dataclasses.is_dataclass(x) and not isinstance(x, type):
        return {"__class__": type(x).__name__, **{f.name: fieldwise(getattr(x, f.name)) for f in dataclasses.fields(x)}}
    if isinstance(x, enum.Enum):
        return (type(x).__name__, x.name)
    if isinstance(x, (list, tuple)):
        return tuple(fieldwise(i) for i in x)
    if isinstance(x, dict):
        return {k: fieldwise(v) for k, v in x.items()}
    return x


def judge(got, want, rep):
    """None if fine, else (kind, detail). Also returns a tag for the counters."""
    if rep is None:
        if got is None and want is not None:
            return "state-not-updated", "exact"
        return (None if fieldwise(got) == fieldwise(want) else "wrong-value"), "exact"
    kind, lo, hi = rep.around(want)
    if lo is None and hi is None:
        return None, "out_of_range_not_judged"
    if got is None:
        return "state-not-updated", kind
    if not isinstance(got, (int, float)) or isinstance(got, bool):
        return "wrong-value", kind

    def close(a, b) -> bool:
        return b is not None and rep.same(a, b)

    if kind == "exact":
        return (None if close(got, lo) else "representable-value-not-reported"), "representable"
    if close(got, lo) or close(got, hi):
        cands = [c for c in (lo, hi) if c is not None]
        nearest = min(cands, key=lambda c: abs(c - want))
        tag = "between" if close(got, nearest) or (len(cands) == 2 and abs(lo - want) == abs(hi - want)) else "between_not_nearest"
        return None, tag
    return "outside-neighbouring-representable-values", "between"


def run_config(ctx, row: Row, cfg: dict, ops: list | None, seed_key: str, n_values: int) -> str | None:
    """One device instance, a sequence of setter calls. Returns first violation mechanism."""
    h = DevHarness()
    found: list[str] = []
    done_ops: list = []

    def viol(mech: str, msg: str, extra: dict) -> None:
        w = {"row": row.name, "row_class": type(row).__name__, "cfg": cfg, "ops": done_ops,
             "wire": [s.as_tuple() for s in h.iface.sent][-8:], "log": h.log.records[-3:]}
        w.update(extra)
        ctx.violation(mech, w, msg)
        found.append(mech)

    def check(obs: list, op: list, phase: str) -> bool:
        for item in obs:
            label, got, want, rep = item[:4]
            codec = item[4] if len(item) > 4 else None
            ctx.ev()
            bad, tag = judge(got, want, rep)
            if not bad and codec is not None and got is not None and tag.startswith("between"):
                # the device layer must not add an error of its own: it reports what its remote value's own encoding of the
                # request decodes to (which of the two neighbours that is stays the datapoint's business)
                try:
                    through_codec = codec.from_knx(codec.to_knx(want))
                except Exception:  # noqa: BLE001
                    through_codec = got
                ctx.count("judged_against_codec_round_trip")
                if fieldwise(through_codec) != fieldwise(got):
                    bad = "not-the-value-the-datapoint-encodes-the-request-to"
            ctx.count("judged_" + tag if tag != "out_of_range_not_judged" else tag)
            if tag == "between_not_nearest":
                ctx.count("reported_not_nearest")
                ctx.count(f"reported_not_nearest[{row.name}.{op[0]}/{row.kind(cfg)}]")
            if bad:
                mech = f"{row.name}.{op[0]}[{row.kind(cfg)}]-{label}-{bad}"
                lo_hi = rep.around(want) if rep is not None else None
                viol(mech, f"{row.name}({cfg}).{op[0]}({op[1]!r}): {label} is {got!r}, requested {want!r}"
                     + (f" (representable: {lo_hi})" if lo_hi else ""), {"label": label, "got": got, "want": want, "phase": phase})
                return False
        return True

    async def scenario() -> None:
        await h.start()
        dev = await row.build(h, cfg)
        install_ga_dpt_table(ctx, h, dev, cfg.get("ga_dpt", {}))
        rng = random.Random(seed_key)
        the_ops = ops if ops is not None else row.gen_ops(rng, cfg, dev, n_values)
        for op in the_ops:
            op = list(op)
            pre = row.pre(dev, cfg, op)
            before = len(h.iface.sent)
            try:
                await row.call(h, dev, cfg, op)
            except Exception as exc:  # noqa: BLE001  refused value: not "a value its setters accept"
                ctx.count("refused")
                ctx.count(f"refused_{type(exc).__name__}")
                await h.settle()
                continue
            done_ops.append(op)
            await h.settle()
            sent = h.iface.sent[before:]
            ctx.count("setter_calls")
            ctx.count(f"calls[{row.name}.{op[0]}]")
            if not sent:
                ctx.count("setter_sent_nothing_not_judged")
                continue
            ctx.count("telegrams_looped_back", len(sent))
            if not check(row.observe(dev, cfg, op, pre), op, "after-queue"):
                return
            obs2 = await row.after(h, dev, cfg, op, pre)
            if obs2 and not check(obs2, op, "after-travel"):
                return
        if h.loop.exceptions:
            ctx.count("diagnostic_loop_exceptions", len(h.loop.exceptions))

    try:
        h.run(scenario(), max_vtime=1e6)
    finally:
        h.close()
    if not found:
        ctx.distinct((type(row).__name__, row.kind(cfg), tuple(sorted(str(k) + "=" + str(v) for k, v in cfg.items()))))
    return found[0] if found else None


def run(ctx):
    ctx.rule = (
        "per table row: generated configurations (invert flags, address layouts, travel times, limits, setpoint-shift mode/step/range, DPT class, "
        "scaling range) x generated setter calls on one device instance (values: representable ones from the decode image, values between two "
        "representable ones, range ends, decimal literals of multiples of the step); distinct = (row, configuration)."
    )
    ctx.require("setter_calls", "telegrams_looped_back", "judged_exact", "judged_representable", "judged_between",
                "calls[Climate.set_setpoint_shift]", "calls[Climate.set_target_temperature]", "calls[Cover.set_position]",
                "calls[Switch.set_on]", "calls[Light.set_brightness]", "calls[Fan.set_speed]", "calls[ClimateMode.set_operation_mode]",
                "calls[NumericValue.set]", "calls[Cover.sequence]", "calls[DateTime.set]", "judged_against_codec_round_trip", "climate_base_temperature_exactly_zero", "ga_dpt_table_own", "ga_dpt_table_relative", "ga_dpt_table_unrelated", "ga_dpt_table_none",
                "ga_dpt_relative_parent", "ga_dpt_relative_child", "ga_dpt_entries_installed")
    n_cfg = ctx.scale(20, 60)
    n_val = ctx.scale(24, 40)
    item = 0
    for row in rows():
        row.ctx = ctx
        if isinstance(row, RNumeric):
            cfgs = [{"dpt": c.__name__, "value_type": c.value_type} for c in row.classes(ctx)]
            reps = ctx.scale(3, 8)
            # every DPT class meets every kind of table entry: own type, parent/child class, unrelated type (and none in thorough)
            order = ("relative", "own", "unrelated", "none")
            cfgs = [dict(c, rep=i, ga_dpt={"mode": order[i % 4], "seed": i}) for c in cfgs for i in range(reps)]
        else:
            count = max(1, int(n_cfg * (row.n_cfg_factor or 1)))
            cfgs = None
        total = len(cfgs) if cfgs is not None else count
        for ci in range(total):
            item += 1
            if not ctx.mine(item):
                continue
            key = f"C39/{ctx.seed}/{type(row).__name__}/{row.name}/{ci}"
            rng = random.Random(key)
            cfg = cfgs[ci] if cfgs is not None else row.gen_cfg(rng, ctx)
            if "ga_dpt" not in cfg:
                cfg["ga_dpt"] = {"mode": GA_DPT_MODES[ci % 4], "seed": rng.randint(0, 10**6)}
            run_config(ctx, row, cfg, None, key + "/ops", n_val)
            ctx.count("configurations")
            if len(ctx.samples) < 5 and ci == 0:
                ctx.sample({"row": type(row).__name__, "cfg": cfg})


def replay(ctx, witness):
    ctx.rule = "replay of one recorded configuration and setter sequence"
    row = next(r for r in rows() if type(r).__name__ == witness["row_class"] and r.name == witness["row"])
    row.ctx = ctx
    run_config(ctx, row, witness["cfg"], witness["ops"], "replay", 0)
    ctx.distinct("replay")
    ctx.distinct("replay2")
