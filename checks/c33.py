"""C33 telegram queue: order, one at a time, rate-limit spacing, internal telegrams, no stall."""

from __future__ import annotations

import asyncio
import random
import sys

from xknx.devices import BinarySensor, ExposeSensor, Sensor, Switch
from xknx.dpt import DPTArray, DPTBinary
from xknx.exceptions import (
    CommunicationError,
    ConversionError,
    CouldNotParseTelegram,
    XKNXException,
)
from xknx.telegram import Telegram, TelegramDirection
from xknx.telegram.address import GroupAddress, IndividualAddress, InternalGroupAddress
from xknx.telegram.apci import DeviceDescriptorRead, GroupValueRead, GroupValueResponse, GroupValueWrite
from xknx.telegram.tpci import TDataConnected, TDataIndividual

from vlib.core_harness import (
    Outcome,
    ProbeDevice,
    bounded,
    fake,
    inject_incoming,
    make_xknx,
    queue_outgoing,
    run_case,
)

LEVEL = "exploration"
TECHNIQUE = (
    "runtime monitor: real XKNX.start()/join()/stop() + TelegramQueue + CEMIHandler on a virtual clock with a scripted "
    "interface; oracle over the interface hand-off log (order, overlap, spacing), Device.process / callback logs and "
    "bounded completion of join()/stop() with definite deadlock detection"
)
LEVEL_TEXT = (
    "Generated mixes (8-40 events) of outgoing / internal / incoming / unserialisable telegrams, joins and stop/start cycles at "
    "chosen virtual instants (same instant, around 1/r, around the 3 s confirmation timeout), rate limits {0,5,20,100}, with a "
    "per-hand-off scripted send outcome {ok+sync/late/no confirmation, confirmation after the 3 s timeout, duplicate confirmations, "
    "unsolicited confirmations while idle, slow, CommunicationError, ConversionError, ValueError, "
    "RuntimeError, KeyError, OSError, TimeoutError}, raising callbacks and raising devices. Exploration: the space of mixes is sampled."
)
LEVEL_NOTE = (
    "Trusted: asyncio, the virtual loop. The interface is a fake at the public slot xknx.knxip_interface (serialises the frame like "
    "every real interface, then follows the script). Judged: hand-off order/exactly-once/no overlap, the next hand-off not before the previous telegram was "
    "confirmed by an L_DATA.con delivered after its own hand-off began (or its send failed / the 3 s timeout ran out), spacing (spacing not judged "
    "across a stop/start cycle: the interface is torn down in between), internal telegrams never handed off but seen once by the "
    "devices on the address and by matching outgoing callbacks (only when no device on the address raises: what a raising device does "
    "to later devices/callbacks is recorded, not judged), every join()/stop() returning within the sum of declared timeouts. "
    "Sends that never return and BaseException from callbacks are not generated."
)
SHARDS = {"quick": 1, "thorough": 16}
TIMEOUT = {"quick": 300, "thorough": 3000}

CONFIRM_TIMEOUT = 3.0  # xknx.cemi.cemi_handler.REQUEST_TO_CONFIRMATION_TIMEOUT
EPS = 1e-6

GAS = ["1/2/3", "1/2/4", "2/0/1", "5/7/200"]
IGAS = ["i-alpha", "i-beta"]

EXC_FACTORIES = {
    "CommunicationError": lambda: CommunicationError("scripted"),
    "CommunicationErrorQuiet": lambda: CommunicationError("scripted", should_log=False),
    "ConversionError": lambda: ConversionError("scripted"),
    "ValueError": lambda: ValueError("scripted"),
    "RuntimeError": lambda: RuntimeError("scripted"),
    "KeyError": lambda: KeyError("scripted"),
    "OSError": lambda: OSError("scripted"),
    "TimeoutError": lambda: TimeoutError("scripted"),
    "XKNXException": lambda: XKNXException("scripted"),
}
CB_EXC = {
    "ValueError": lambda: ValueError("cb"),
    "CouldNotParseTelegram": lambda: CouldNotParseTelegram("cb"),
    "ZeroDivisionError": lambda: ZeroDivisionError("cb"),
    "CommunicationError": lambda: CommunicationError("cb"),
}


def gen_case(rng: random.Random) -> dict:
    r = rng.choice((0, 0, 5, 20, 20, 100))
    step = 1.0 / r if r else 0.05
    n = rng.randint(8, 40)
    faulty = rng.random() < 0.8
    events = []
    dts = (0.0, 0.0, 0.0, 0.001, step, step - 1e-4, step + 1e-4, step / 2, 0.5, CONFIRM_TIMEOUT, 5.0)
    for _ in range(n):
        kind = rng.choices(
            ("out", "outi", "in", "ini", "bad", "join", "restart", "burst", "con", "rate", "outp"),
            (40, 14, 18, 3, 4, 6, 5, 6, 4, 3, 5),
        )[0]
        ev = {"dt": rng.choice(dts), "kind": kind}
        if kind in ("out", "in", "bad"):
            ev["addr"] = rng.choice(GAS)
        elif kind in ("outi", "ini"):
            ev["addr"] = rng.choice(IGAS)
        elif kind == "outp":
            # point-to-point telegram (IndividualAddress destination) queued by user code / tools: only internal addresses
            # may be withheld from the interface
            ev["addr"] = "ia:" + rng.choice(("1.1.1", "1.1.250", "15.15.255"))
            ev["payload"] = rng.choice(("p2p_ind", "p2p_con"))
        elif kind == "rate":
            ev["rate"] = rng.choice((0, 5, 20, 100))  # xknx.rate_limit is a public attribute: changed while the queue runs
        elif kind == "burst":
            ev["n"] = rng.randint(2, 6)
            ev["addrs"] = [rng.choice(GAS + IGAS) for _ in range(ev["n"])]
        if kind in ("out", "in", "outi", "ini", "burst"):
            # typed_*: payload of the right kind and length for the DPT the GA->DPT table gives the address (if it has one):
            # decodable, or a value the type cannot represent (from_knx raises ConversionError)
            ev["payload"] = rng.choice(("write1", "write2", "writeb", "response", "read", "typed_valid", "typed_undecodable",
                                        "typed_undecodable"))
        events.append(ev)
    # send outcomes per hand-off index
    outcomes = []
    for _ in range(6 * n + 8):
        if not faulty:
            outcomes.append(("ok", 0.0, None, "sync"))
            continue
        k = rng.random()
        if k < 0.40:
            outcomes.append(("ok", 0.0, None, "sync"))
        elif k < 0.52:
            outcomes.append(("ok_late_con", 0.0, None, rng.choice((0.0, 0.01, 1.0, 2.99))))
        elif k < 0.55:
            # the confirmation arrives after the handler gave up (ConfirmationError), possibly while the queue is idle
            outcomes.append(("ok_con_after_timeout", 0.0, None, rng.choice((CONFIRM_TIMEOUT + 1e-3, 3.5, 5.0))))
        elif k < 0.58:
            outcomes.append(("ok_duplicate_con", 0.0, None, rng.choice((["sync", "sync"], ["sync", 0.0], [0.01, 0.01, 0.5], [0.0, 1.0], ["sync", 3.5]))))
        elif k < 0.64:
            outcomes.append(("ok_no_con", 0.0, None, None))
        elif k < 0.74:
            outcomes.append(("slow", rng.choice((0.3, 1.0, 4.0)), None, rng.choice(("sync", 0.01))))
        elif k < 0.78:
            outcomes.append(("slow_then_raise", rng.choice((0.3, 2.0)), "CommunicationError", None))
        else:
            outcomes.append(("raise", 0.0, rng.choice(sorted(EXC_FACTORIES)), None))
    # devices: (kind, address, raising exc name or None)
    devices = []
    for a in GAS + IGAS:
        for _ in range(rng.choice((0, 1, 1, 2))):
            devices.append(("probe", a, rng.choice((None, None, None, "ValueError", "CouldNotParseTelegram", "ZeroDivisionError"))))
    if rng.random() < 0.5:
        devices.append(("switch", GAS[0], None))
        devices.append(("sensor", GAS[1], None))
        devices.append(("binary", GAS[2], None))
    if rng.random() < 0.5:
        # devices that put a follow-up telegram on the queue while a telegram is being processed (answer a GroupValueRead)
        devices.append(("responder", rng.choice(GAS), None))
        if rng.random() < 0.5:
            devices.append(("expose", rng.choice(GAS), None))
    rng.shuffle(devices)
    callbacks = []
    for _ in range(rng.randint(1, 4)):
        callbacks.append(
            {
                "addrs": rng.choice((None, None, [rng.choice(GAS + IGAS)], rng.sample(GAS + IGAS, 3))),
                "outgoing": rng.random() < 0.6,
                "raises": rng.choice((None, None, "ValueError", "CouldNotParseTelegram", "ZeroDivisionError", "CommunicationError")),
            }
        )
    ga_dpt = {}
    if rng.random() < 0.5:
        ga_dpt = {a: rng.choice(sorted(TYPED)) for a in GAS + IGAS if rng.random() < 0.7}
        ga_dpt[rng.choice(GAS)] = rng.choice(("switch", "percent", "2byte_unsigned", "string"))
    final_join = rng.random() < 0.5
    return {"rate_limit": r, "final_join": final_join, "events": events, "outcomes": outcomes, "devices": devices, "callbacks": callbacks, "ga_dpt": ga_dpt}


# DPT name -> (a decodable raw value, a raw value of the right length that the type cannot represent)
TYPED = {
    "temperature": ((0x0C, 0x1A), (0x7F, 0xFF)),
    "hvac_mode": ((0x01,), (0x63,)),
    "date": ((1, 1, 20), (0, 13, 1)),
    "time": ((10, 30, 0), (0xFF, 0xFF, 0xFF)),
    "scene_number": ((5,), (0xFF,)),
}


def _payload(kind: str, seq: int, dpt: str | None = None):
    if kind in ("typed_valid", "typed_undecodable"):
        if dpt not in TYPED:
            kind = "write1"
        else:
            raw = TYPED[dpt][0 if kind == "typed_valid" else 1]
            return (GroupValueResponse if seq % 3 == 0 else GroupValueWrite)(DPTArray(raw))
    if kind == "write1":
        return GroupValueWrite(DPTArray((seq & 0xFF,)))
    if kind == "write2":
        return GroupValueWrite(DPTArray(((seq >> 8) & 0xFF, seq & 0xFF)))
    if kind == "writeb":
        return GroupValueWrite(DPTBinary(seq & 1))
    if kind == "response":
        return GroupValueResponse(DPTArray((seq & 0xFF, 1, 2, 3)))
    return GroupValueRead()


def _addr(text: str):
    if text.startswith("ia:"):
        return IndividualAddress(text[3:])
    return InternalGroupAddress(text) if text.startswith("i-") else GroupAddress(text)


def execute(case: dict) -> dict:
    """Run one case against the real code; return everything observed."""
    obs: dict = {
        "queued": [],  # (key, kind, addr) in put order, outgoing only
        "incoming": 0,
        "cb_calls": [],  # (cb index, telegram key)
        "cb_raised": 0,
        "stage": "setup",
        "joins": [],  # (ok, vtime)
        "restarts": 0,
        "stall": None,
        "restart_marks": [],  # number of hand-offs seen when a restart completed
    }
    r = case["rate_limit"]
    bound = len(case["outcomes"]) * (4.0 + CONFIRM_TIMEOUT + 0.2) + 60.0  # 0.2 = 1/r for the smallest rate limit used
    obs["bound"] = bound
    keyof: dict[int, int] = {}  # id(payload) -> seq
    nopayload: dict[int, int] = {}  # source raw -> seq
    keep = []  # keep telegrams alive so id() stays unique

    def key_of_telegram(t: Telegram):
        if t.payload is not None:
            return keyof.get(id(t.payload))
        return nopayload.get(t.source_address.raw)

    obs["_key"] = key_of_telegram
    obs["_keep"] = keep

    async def main(loop):
        outcomes = case["outcomes"]

        def script(cemi, index):
            kind, delay, exc, confirm = outcomes[index] if index < len(outcomes) else ("ok", 0.0, None, "sync")
            return Outcome(kind=kind if exc is None else f"{kind}:{exc}", delay=delay,
                           exc=EXC_FACTORIES[exc] if exc else None, confirm=confirm)

        xknx = make_xknx(rate_limit=r, script=script)
        obs["xknx"] = xknx
        seq = [0]
        # done-accounting observer at the public slot xknx.telegrams: which hand-off was never followed by task_done()
        acct = obs["acct"] = []

        class AccountingQueue(asyncio.Queue):
            def put_nowait(self, item) -> None:  # type: ignore[override]
                # follow-ups that devices queue themselves (responses to reads) take part in the order / done accounting
                if (item is not None and item.direction == TelegramDirection.OUTGOING and item.payload is not None
                        and id(item.payload) not in keyof):
                    seq[0] += 1
                    keyof[id(item.payload)] = seq[0]
                    keep.append(item)
                    da = item.destination_address
                    obs["queued"].append((seq[0], "out", da.raw if isinstance(da, InternalGroupAddress) else str(da)))
                    obs["followups"] = obs.get("followups", 0) + 1
                super().put_nowait(item)

            def task_done(self) -> None:  # noqa: D102
                acct.append(("done", sys._getframe(1).f_code.co_name))  # noqa: SLF001  (diagnosis only)
                super().task_done()

        xknx.telegrams = AccountingQueue()
        fake(xknx).on_handoff.append(lambda ho: acct.append(("start", ho.index)))
        fake(xknx).on_handoff_end.append(lambda ho: acct.append(("end", ho.index)))
        if case["ga_dpt"]:
            xknx.group_address_dpt.set(case["ga_dpt"])
        devs = []
        for i, (kind, a, exc) in enumerate(case["devices"]):
            if kind == "probe":
                d = ProbeDevice(xknx, f"p{i}", [_addr(a)], raises=CB_EXC[exc] if exc else None)
            elif kind == "responder":
                d = Switch(xknx, f"rs{i}", group_address=a, respond_to_read=True)
                d.switch.value = True
            elif kind == "expose":
                d = ExposeSensor(xknx, f"ex{i}", group_address=a, value_type="temperature")
                d.sensor_value.value = 21.5
            elif kind == "switch":
                d = Switch(xknx, f"sw{i}", group_address=a)
            elif kind == "sensor":
                d = Sensor(xknx, f"se{i}", group_address_state=a, value_type="temperature", sync_state=False)
            else:
                d = BinarySensor(xknx, f"bs{i}", group_address_state=a, sync_state=False)
            xknx.devices.async_add(d)
            devs.append(d)
        obs["devs"] = devs

        def make_cb(i, spec):
            def cb(telegram):
                obs["cb_calls"].append((i, key_of_telegram(telegram), telegram.direction))
                if spec["raises"]:
                    obs["cb_raised"] += 1
                    raise CB_EXC[spec["raises"]]()
            return cb

        for i, spec in enumerate(case["callbacks"]):
            xknx.telegram_queue.register_telegram_received_cb(
                make_cb(i, spec),
                group_addresses=None if spec["addrs"] is None else [_addr(a) for a in spec["addrs"]],
                match_for_outgoing=spec["outgoing"],
            )

        def emit(kind, addr, pkind):
            seq[0] += 1
            s = seq[0]
            if kind == "bad":
                t = Telegram(destination_address=_addr(addr), payload=None,
                             source_address=IndividualAddress(0x1000 + s))
                nopayload[t.source_address.raw] = s
            elif kind == "outp":
                p = DeviceDescriptorRead(descriptor=0)
                keyof[id(p)] = s
                t = Telegram(destination_address=_addr(addr), payload=p,
                             tpci=TDataIndividual() if pkind == "p2p_ind" else TDataConnected(sequence_number=s % 16))
                obs["p2p"] = obs.get("p2p", 0) + 1
            else:
                p = _payload(pkind, s, case["ga_dpt"].get(addr))
                if pkind.startswith("typed") and case["ga_dpt"].get(addr) in TYPED:
                    obs[pkind] = obs.get(pkind, 0) + 1
                keyof[id(p)] = s
                t = Telegram(destination_address=_addr(addr), payload=p)
            keep.append(t)
            if kind in ("in", "ini"):
                obs["incoming"] += 1
                obs["queued"].append((s, "in", addr))
                inject_incoming(xknx, t)
            else:
                obs["queued"].append((s, "bad" if kind == "bad" else "out", addr))
                queue_outgoing(xknx, t)

        obs["stage"] = "start"
        await xknx.start()
        for n_ev, ev in enumerate(case["events"]):
            obs["stage"] = f"event{n_ev}:{ev['kind']}"
            if ev["dt"]:
                await asyncio.sleep(ev["dt"])
            kind = ev["kind"]
            if kind == "join":
                ok, _ = await bounded(xknx.join(), bound)
                obs["joins"].append((ok, loop.time()))
                if not ok:
                    obs["stall"] = ("join", n_ev)
                    return
            elif kind == "restart":
                ok, _ = await bounded(xknx.stop(), bound)
                if not ok:
                    obs["stall"] = ("stop", n_ev)
                    return
                await xknx.start()
                obs["restarts"] += 1
                obs["restart_marks"].append(len(fake(xknx).handoffs))
            elif kind == "rate":
                xknx.rate_limit = ev["rate"]
                obs["rate_changes"] = obs.get("rate_changes", 0) + 1
                obs.setdefault("rate_events", []).append((loop.time(), ev["rate"]))
            elif kind == "con":
                # an unsolicited / repeated L_DATA.con from the gateway (queue idle or busy)
                if fake(xknx).confirm_last():
                    obs["unsolicited_cons"] = obs.get("unsolicited_cons", 0) + 1
            elif kind == "burst":
                for a in ev["addrs"]:
                    emit("outi" if a.startswith("i-") else "out", a, ev["payload"])
            else:
                emit(kind, ev["addr"], ev.get("payload", "write1"))
        if case["final_join"]:
            obs["stage"] = "final-join"
            await xknx.join()
        obs["stage"] = "final-stop"
        await xknx.stop()
        obs["stage"] = "done"

    from vlib.core_harness import watch_device_process

    with watch_device_process() as plog:
        res = run_case(main, max_vtime=(len(case["events"]) + 3) * (bound + 10.0))
    obs["plog"] = [(d, key_of_telegram(t), exc) for (_t, d, t, exc) in plog.calls]
    if obs.get("xknx") is not None:
        obs["xknx"].started.clear()  # keep XKNX.__del__ from trying to stop a stalled instance
    obs["res"] = res
    return obs


def judge(ctx, case: dict, obs: dict, wit: dict) -> None:
    xknx = obs.get("xknx")
    res = obs["res"]
    r = case["rate_limit"]
    if res.error is not None:
        exc_name = res.error.split(":")[0]
        ctx.violation(f"queue-task-died-with-{exc_name}-raised-from-stop" + ("-after-rate-limit-change" if obs.get("rate_changes") else "")
                      if obs["stage"] in ("final-stop",) or obs["stage"].endswith(":restart") else "exception-escapes-start-join-stop",
                      dict(wit, error=res.error, stage=obs["stage"]),
                      f"{res.error} escaped the driver at stage {obs['stage']}")
        return
    iface = fake(xknx)
    hos = iface.handoffs
    ctx.count("handoffs", len(hos))
    for h in hos:
        ctx.count("send_outcome_" + h.outcome.kind.split(":")[0])
        if h.raised:
            ctx.count("send_raised_" + h.raised)
    ctx.count("callback_raised", obs["cb_raised"])
    ctx.count("incoming", obs["incoming"])
    ctx.count("restarts", obs["restarts"])
    ctx.count("joins_midway", len(obs["joins"]))

    # ---- every queued telegram is eventually marked done: join/stop return
    stalled = obs["stall"] is not None or res.deadlock or res.budget
    if stalled:
        last = hos[-1] if hos else None
        after_restart = bool(obs["restart_marks"]) and obs["restart_marks"][-1] == len(hos)
        # the first hand-off that returned / raised without a task_done() before the next hand-off (or the end)
        culprit = None
        acct = obs.get("acct", [])
        for n, (what, idx) in enumerate(acct):
            if what == "end":
                nxt = next((w for w, who in acct[n + 1:] if w == "start" or (w == "done" and who != "_telegram_consumer")), None)
                if nxt != "done":
                    culprit = hos[idx]
                    break
        died = None
        ct = getattr(xknx.telegram_queue, "_consumer_task", None)
        if ct is not None and ct.done() and not ct.cancelled() and ct.exception() is not None \
                and not isinstance(ct.exception(), asyncio.CancelledError):  # (cancelled by the harness teardown after the stall)
            died = type(ct.exception()).__name__
        if died is not None:
            # the consumer / sender task itself ended with an exception: nothing is processed any more
            cause = f"queue-task-died-with-{died}" + ("-after-rate-limit-change" if obs.get("rate_changes") else "")
        elif culprit is None and obs["stage"].split(":")[-1] in ("restart", "final-stop") and xknx.telegrams.qsize() > 0:
            cause = "telegram-queued-during-stop-left-behind-the-stop-marker"
        elif culprit is not None:
            cause = "telegram-not-marked-done-after-send-" + (culprit.raised or culprit.outcome.kind.split(":")[0])
        elif after_restart:
            cause = "after-restart-before-first-send"
        elif last is not None and last.t_end is None:
            cause = "inside-send"
        elif last is not None:
            cause = "after-send-" + (last.raised or last.outcome.kind.split(":")[0])
        else:
            cause = "before-any-send"
        how = "deadlock" if res.deadlock else "no-progress-within-bound"
        what = obs["stall"][0] if obs["stall"] else obs["stage"]
        ctx.violation(
            f"queue-stalls-{cause}",
            dict(wit, stage=obs["stage"], how=how, waiting_for=what, vtime=res.vtime, bound=obs["bound"],
                 unfinished=getattr(xknx.telegrams, "_unfinished_tasks", None),
                 last_handoff=None if last is None else {"index": last.index, "outcome": last.outcome.kind, "raised": last.raised}),
            f"{what} did not return ({how}, {cause}); rate_limit={r}",
        )
    else:
        ctx.count("join_stop_returned")
        if obs["stage"] != "done":
            ctx.violation("driver-ended-early", dict(wit, stage=obs["stage"]), "driver ended before 'done' without a stall")

    # ---- order / exactly once / overlap / spacing
    key_of = {}
    for s, kind, addr in obs["queued"]:
        key_of[s] = (kind, addr)
    expected = [s for s, kind, addr in obs["queued"] if kind in ("out", "bad") and not addr.startswith("i-")]
    got = [None if h.telegram is None else obs["_key"](h.telegram) for h in hos]
    if None in got:
        ctx.violation("unknown-frame-handed-to-interface", dict(wit, got=got), "interface received a frame that was never queued")
    seen = set()
    for k in got:
        if k in seen:
            ctx.violation("telegram-handed-to-interface-twice", dict(wit, key=k, got=got), f"telegram #{k} handed to the interface twice")
        seen.add(k)
        if k is not None and key_of.get(k, ("?", "i-"))[1].startswith("i-"):
            ctx.violation("internal-telegram-reached-interface", dict(wit, key=k), f"internal telegram #{k} was handed to the interface")
    if not stalled:
        if got != expected:
            missing = [k for k in expected if k not in seen]
            if missing:
                ctx.violation("outgoing-telegram-never-reached-interface", dict(wit, missing=missing, expected=expected, got=got),
                              f"queued outgoing telegrams {missing[:5]} never reached the interface")
            else:
                ctx.violation("handoff-order-differs-from-queue-order", dict(wit, expected=expected, got=got),
                              "interface hand-offs are not in queue order")
        else:
            ctx.count("order_checked", len(got))
    else:
        # prefix property still holds for what was handed off
        if got != expected[: len(got)]:
            ctx.violation("handoff-order-differs-from-queue-order", dict(wit, expected=expected, got=got),
                          "interface hand-offs are not a prefix of queue order")
    for h in hos:
        if h.active_at_start != 0:
            ctx.violation("send-overlaps-previous-send", dict(wit, index=h.index, t=h.t_start),
                          f"send_cemi #{h.index} started while {h.active_at_start} send(s) still in progress")
    ctx.count("overlap_checked", len(hos))
    # "one at a time" on the bus: the next telegram is not handed over before the previous one was confirmed by an
    # L_DATA.con delivered AFTER its own hand-off began, its send failed, or the declared confirmation timeout ran out
    tl = iface.timeline
    ctx.count("unsolicited_or_repeated_cons", obs.get("unsolicited_cons", 0))
    pos_start = {idx: n for n, (what, idx, _t) in enumerate(tl) if what == "start"}
    for a, b in zip(hos, hos[1:]):
        if a.t_end is None:
            continue
        if a.raised:
            release = a.t_end
            why = "send-failed"
        else:
            own = next((t for (what, _i, t) in tl[pos_start[a.index] + 1:] if what == "con"), None)
            release = a.t_end + CONFIRM_TIMEOUT
            why = "timeout"
            if own is not None and max(own, a.t_end) <= release:
                release = max(own, a.t_end)
                why = "con"
        ctx.count("release_by_" + why)
        # cons that cannot be this telegram's: a second copy, or one that came after the predecessor's timeout, before its hand-off
        lo = pos_start[a.index - 1] if a.index - 1 in pos_start else 0
        before = [t for (what, _i, t) in tl[lo:pos_start[a.index]] if what == "con"]
        prev = hos[a.index - 1] if a.index else None
        stale = len(before) >= 2 or (prev is not None and prev.t_end is not None and any(t > prev.t_end + CONFIRM_TIMEOUT for t in before)) \
            or (prev is None and bool(before))
        if stale:
            ctx.count("handoffs_preceded_by_a_stale_or_duplicate_con")
        if b.t_start < release - EPS:
            ctx.violation("next-telegram-handed-over-before-previous-was-confirmed",
                          dict(wit, prev=a.index, next=b.index, prev_end=a.t_end, next_start=b.t_start, earliest_release=release,
                               cons=[(i, t) for (what, i, t) in tl if what == "con"][-8:]),
                          f"hand-off #{b.index} started at {b.t_start:.3f} although #{a.index} (sent {a.t_end:.3f}) was not confirmed "
                          f"before {release:.3f}")
        else:
            ctx.count("confirmation_order_checked")
    # spacing: the limiter sleep is started with the rate limit in force when a telegram is handed over and awaited before the next
    # one if a limit is (still) in force then: both hand-offs under a limit -> at least 1/r (r at the first of the two) apart
    marks = set(obs["restart_marks"])
    ctx.count("rate_limit_changed_while_running", obs.get("rate_changes", 0))
    ctx.count("followup_telegrams_queued_by_devices", obs.get("followups", 0))
    ctx.count("outgoing_individual_address_telegrams", obs.get("p2p", 0))
    ctx.count("telegrams_decodable_by_the_ga_dpt_table", obs.get("typed_valid", 0))
    ctx.count("telegrams_of_right_length_undecodable_by_the_ga_dpt_table", obs.get("typed_undecodable", 0))
    if case["ga_dpt"]:
        ctx.count("histories_with_ga_dpt_table")
    rate_events = [(0.0, r)] + obs.get("rate_events", [])

    def rates_in_force(t0, t1):
        """Every value xknx.rate_limit had at some moment of [t0, t1]."""
        vals = {([v for (t, v) in rate_events if t < t0 - EPS] or [r])[-1]}  # the value before anything that happened in the instant t0
        vals.update(v for (t, v) in rate_events if t0 - EPS <= t <= t1 + EPS)
        return vals

    for n_a, (a, b) in enumerate(zip(hos, hos[1:])):
        rb = b.rate_limit_at_start
        # the telegram may have waited in the limiter since its predecessor went out: a change during that wait leaves it open
        # which value its own sleep was started with -> the weakest of them is demanded (none if the limit was off meanwhile)
        since = hos[n_a - 1].t_start if n_a else 0.0
        cands = rates_in_force(since, a.t_start) | {a.rate_limit_at_start}
        if not rb or 0 in cands or None in cands:
            continue
        ra = max(cands)
        gap = b.t_start - a.t_start
        changed = ra != r or rb != r
        if b.index in marks:
            ctx.count("spacing_across_restart_recorded")
            if gap < 1.0 / ra - EPS:
                ctx.count("spacing_across_restart_below_1_over_r")
            continue
        ctx.count("spacing_checked")
        if changed:
            ctx.count("spacing_checked_after_rate_limit_change")
        if gap < 1.0 / ra - EPS:
            ctx.violation(
                "handoffs-closer-than-rate-limit" + ("-after-failed-send" if a.raised else "") + ("-after-rate-limit-change" if changed else ""),
                dict(wit, index=b.index, gap=gap, min_gap=1.0 / ra, rate_at_prev=ra, rate_at_next=rb, rate_at_start=r,
                     prev_raised=a.raised, prev_outcome=a.outcome.kind),
                f"hand-offs #{a.index} and #{b.index} are {gap:.6f}s apart, rate limit {ra}/s in force demands {1.0 / ra:.6f}s",
            )
        if abs(gap - 1.0 / ra) < EPS:
            ctx.count("spacing_exactly_1_over_r")

    # ---- internal telegrams: processed by devices and callbacks
    if not stalled:
        devs = obs["devs"]
        plog = obs["plog"]
        for s, kind, addr in obs["queued"]:
            if kind != "out" or not addr.startswith("i-"):
                continue
            ctx.count("internal_outgoing")
            on_addr = [d for d in devs if isinstance(d, ProbeDevice) and _addr(addr) in d.addresses]
            saw = [d for (d, k, _exc) in plog if k == s]
            cbs = [i for (i, k, _dir) in obs["cb_calls"] if k == s]
            exp_cbs = [i for i, spec in enumerate(case["callbacks"])
                       if spec["outgoing"] and (spec["addrs"] is None or addr in spec["addrs"])]
            if any(d.raises for d in on_addr):
                ctx.count("internal_with_raising_device_recorded")
                if [id(d) for d in saw] != [id(d) for d in on_addr]:
                    ctx.count("internal_dispatch_cut_by_raising_device_recorded")
                if sorted(cbs) != exp_cbs:
                    ctx.count("internal_callbacks_skipped_after_raising_device_recorded")
                continue
            ctx.count("internal_judged")
            if sorted(id(d) for d in saw) != sorted(id(d) for d in on_addr):
                ctx.violation("internal-telegram-not-processed-once-by-devices",
                              dict(wit, key=s, addr=addr, expected=[d.name for d in on_addr], got=[d.name for d in saw]),
                              f"internal telegram #{s} to {addr}: devices {[d.name for d in saw]} processed it, expected {[d.name for d in on_addr]}")
            if sorted(cbs) != exp_cbs:
                ctx.violation("internal-telegram-not-seen-once-by-callbacks",
                              dict(wit, key=s, addr=addr, expected=exp_cbs, got=cbs),
                              f"internal telegram #{s} to {addr}: callbacks {cbs} called, expected {exp_cbs}")
    for d, _k, exc in obs["plog"]:
        if exc:
            ctx.count("device_raised_" + exc)
    for e in res.loop_exceptions:
        ctx.count("loop_exception_recorded")
    if res.leaked and not stalled:
        ctx.count("leaked_tasks_after_stop_recorded", len(res.leaked))


def run_one(ctx, case_seed: str) -> None:
    rng = random.Random(case_seed)
    case = gen_case(rng)
    obs = execute(case)
    wit = {"case_seed": case_seed, "rate_limit": case["rate_limit"],
           "events": [(e["dt"], e["kind"], e.get("addr") or e.get("addrs")) for e in case["events"]],
           "outcomes_used": [o[0] + (":" + o[2] if o[2] else "") for o in case["outcomes"][: 1 + len(fake(obs["xknx"]).handoffs) if obs.get("xknx") else 0]],
           "devices": case["devices"], "callbacks": case["callbacks"]}
    ctx.ev()
    judge(ctx, case, obs, wit)
    kinds = "".join(e["kind"][0] if e["kind"] != "outi" else "I" for e in case["events"])
    outs = tuple(h.raised or h.outcome.kind.split(":")[0] for h in fake(obs["xknx"]).handoffs[:10]) if obs.get("xknx") else ()
    ctx.distinct((case["rate_limit"], kinds[:14], outs))
    ctx.sample({"rate_limit": case["rate_limit"], "events": kinds, "handoff_outcomes": list(outs),
                "vtime": round(obs["res"].vtime, 3)}, cap=4)


def run(ctx):
    ctx.rule = ("case = (rate limit, 8-40 timed events of kinds out/internal/incoming/unserialisable/join/restart/burst, per-hand-off send "
                "outcome script, raising/non-raising devices and callbacks, optional GA->DPT table) drawn from the seeded rng; "
                "distinct = (rate limit, first 14 event kinds, first 10 observed send outcomes)")
    ctx.require("handoffs", "order_checked", "overlap_checked", "spacing_checked", "internal_judged", "join_stop_returned",
                "send_raised_CommunicationError", "send_raised_ValueError", "send_raised_ConversionError",
                "send_outcome_slow", "send_outcome_ok_no_con", "callback_raised", "restarts", "joins_midway",
                "send_outcome_ok_con_after_timeout", "send_outcome_ok_duplicate_con", "unsolicited_or_repeated_cons",
                "confirmation_order_checked", "release_by_con", "release_by_timeout", "release_by_send-failed",
                "handoffs_preceded_by_a_stale_or_duplicate_con", "rate_limit_changed_while_running",
                "spacing_checked_after_rate_limit_change", "followup_telegrams_queued_by_devices",
                "outgoing_individual_address_telegrams", "histories_with_ga_dpt_table", "telegrams_decodable_by_the_ga_dpt_table",
                "telegrams_of_right_length_undecodable_by_the_ga_dpt_table")
    n = ctx.scale(2500, 160000)
    for i in range(n):
        if not ctx.mine(i):
            continue
        run_one(ctx, f"C33/{ctx.seed}/{i}")


def replay(ctx, witness):
    ctx.rule = "replay of one recorded case"
    run_one(ctx, witness["case_seed"])
    ctx.distinct("replay-a")
    ctx.distinct("replay-b")
