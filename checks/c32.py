"""C32 device management connections: own answer only, one outstanding request, prompt failure on close, UDP repetition and counters."""

from __future__ import annotations

import asyncio
import itertools

from vlib.peers_mgmt import (
    M_PROP_INFO_IND,
    M_PROP_READ_CON,
    M_PROP_READ_REQ,
    M_PROP_WRITE_CON,
    SYMBOL_TEXT,
    TCP_SYMBOLS,
    UDP_SYMBOLS,
    DevMgmtServer,
    parse_prop_request,
)
from vlib.vloop import Deadlock, LoopBudget, new_loop
from xknx.exceptions import CommunicationError
from xknx.io import TCPDeviceManagementConnection, UDPDeviceManagementConnection
from xknx.knxip import DeviceConfigurationRequest, KNXIPFrame
from xknx.profile.const import ResourceObjectType

LEVEL = "fault_enumeration"
TECHNIQUE = (
    "runtime monitor: real UDP/TCP device management connections on a virtual-time loop against a scripted server; "
    "oracle = server ground truth (accepted counters, delivered frames with unique ids) vs call results, wire frames and callback log"
)
LEVEL_TEXT = (
    "Every fault script over the per-transmission alphabet (18 UDP / 13 TCP behaviours: lost, ack dropped/duplicated/late duplicate/error, "
    "answer lost/late/twice/retransmitted/for another property, instance, object type or service, indication interleaved, error answer, "
    "server disconnect, TCP reset) of length <= 3 (quick) / <= 4 (thorough) is run against 4 sequential property calls (the third repeats the "
    "key of the first); closes (user disconnect, server DisconnectRequest, TCP reset) are injected at every distinct wire instant of the baseline "
    "and between them for scripts of length <= 1 / <= 2; 2-4 concurrent callers for scripts <= 1 / <= 2; the application cancelling the task of a call at every wire instant (scripts <= 1 / <= 2, also one of 3 concurrent callers) with the later calls going on over the same connection; requests that fail before transmission (number_of_elements 16, object instance 256, oversized data, transport refusing the send) between good ones; counter wrap-around 254->1; configuration dimension: indication callback "
    "registered / not registered (the class default) / raising, UDP route-back, for scripts <= 2 / <= 3 with unsolicited indications for the "
    "property being read. "
    "Bounded exhaustive enumeration of fault sequences, hence fault_enumeration."
)
LEVEL_NOTE = (
    "Trusted: KNXIPFrame codec (C20/C21), the virtual loop. Judged: returned data/None belongs to a delivered frame of matching service, object "
    "type, instance and property; indications reach only the callback; no new request on the wire while an earlier call is unfinished; a close "
    "fails every unfinished call with CommunicationError within 1 virtual second; <= 4 transmissions and one counter per call; each new request "
    "carries the counter the server expects (a counter that ran ahead because a late answer for the very same property arrived while the request was "
    "lost is reported under its own mechanism `...indistinguishable-stale-answer...`). Not judged (recorded): the data of a late answer for the *same* "
    "property returned to a retry (indistinguishable, documented in the code), number_of_elements/start_index of answers, what happens to the "
    "connection after 4 unacknowledged transmissions, exceptions reaching the loop handler."
)
SHARDS = {"quick": 1, "thorough": 16}
TIMEOUT = {"quick": 300, "thorough": 3000}

PROMPT = 1.0  # "promptly": virtual seconds between a close and the failure of unfinished calls

DEV = int(ResourceObjectType.OBJECT_DEVICE)
IPP = int(ResourceObjectType.OBJECT_KNXNETIP_PARAMETER)
#: (kind, object type, instance, property id, start index); call 2 repeats the key of call 0
CALLS = [
    ("read", DEV, 1, 11, 1),
    ("write", IPP, 1, 52, 2),
    ("read", DEV, 1, 11, 3),
    ("read", DEV, 2, 12, 4),
]


def _call_of_request(raw):
    """Which workload call does this request cEMI belong to (by start index)?"""
    req = parse_prop_request(raw)
    if req is None:
        return None
    for idx, (kind, obj, inst, pid, start) in enumerate(CALLS):
        if req["start"] == start and req["key"] == (obj, inst, pid) and (req["code"] == M_PROP_READ_REQ) == (kind == "read"):
            return idx
    return None


def run_case(ctx, case, judge=True):
    """Run one scenario; returns the observation dict."""
    tcp = case["transport"] == "tcp"
    script = case["script"]
    close = case.get("close")  # None | {"kind":..., "at": t}
    concurrent = case.get("concurrent", 0)
    first_counter = case.get("first_counter", 0)
    ncalls = case.get("ncalls", len(CALLS))
    loop = new_loop()
    server = DevMgmtServer(loop, tcp, script, first_counter=first_counter)
    indications = []
    calls = []  # dicts: idx, start, end, outcome, value/exception
    close_rec = {}
    cancel = case.get("cancel")  # None | {"at": t, "worker": k}
    bad_before = {int(k): v for k, v in (case.get("bad_before") or {}).items()}  # call index -> kind of unserialisable request issued before it
    send_faults = set(case.get("send_faults") or ())  # indexes of client request transmissions the transport refuses
    local = {"bad": [], "refused_tx": [], "n": 0}
    server_hook = loop.on_send

    def on_send(transport, data, addr):
        if data[2:4] == b"\x03\x10":  # DEVICE_CONFIGURATION_REQUEST
            k = local["n"]
            local["n"] += 1
            if k in send_faults:
                local["refused_tx"].append((round(loop.time() - 1000.0, 6), k))
                raise CommunicationError("transport refuses to send (scripted)")
        server_hook(transport, data, addr)

    if send_faults:
        loop.on_send = on_send

    async def bad_call(conn, kind):
        rec = {"kind": kind, "time": round(loop.time() - 1000.0, 6), "counter_before": conn.sequence_number}
        try:
            if kind == "noe16":
                await conn.read_property(ResourceObjectType(DEV), 11, number_of_elements=16)
            elif kind == "inst256":
                await conn.read_property(ResourceObjectType(DEV), 11, object_instance=256)
            else:
                await conn.write_property(ResourceObjectType(IPP), 52, b"x" * 70000)
            rec["outcome"] = "returned"
        except BaseException as exc:  # noqa: BLE001
            rec["outcome"] = type(exc).__name__
        rec["counter_after"] = conn.sequence_number
        local["bad"].append(rec)
    cancel_rec = {}
    extra_ind = case.get("indications", ())  # times at which the server sends unsolicited indications

    cb_mode = case.get("callback", "record")  # "record" | "none" (the default of the class) | "raises"

    def ind_cb(frame):
        indications.append((round(loop.time() - 1000.0, 6), frame))
        if cb_mode == "raises":
            raise RuntimeError("indication callback of the application fails")

    async def one_call(conn, idx):
        kind, obj, inst, pid, start = CALLS[idx % len(CALLS)]
        rec = {"idx": idx, "start": round(loop.time() - 1000.0, 6), "kind": kind}
        calls.append(rec)
        try:
            if kind == "read":
                value = await conn.read_property(ResourceObjectType(obj), pid, object_instance=inst, start_index=start)
                rec["outcome"] = "returned"
                rec["value"] = value
            else:
                value = await conn.write_property(
                    ResourceObjectType(obj), pid, b"\xaa\x55", object_instance=inst, start_index=start
                )
                rec["outcome"] = "returned"
                rec["value"] = value
        except CommunicationError as exc:
            rec["outcome"] = "CommunicationError"
            rec["exception"] = str(exc)[:120]
        except asyncio.CancelledError:
            rec["outcome"] = "cancelled"
            raise
        except BaseException as exc:  # noqa: BLE001
            rec["outcome"] = type(exc).__name__
            rec["exception"] = repr(exc)[:160]
        finally:
            rec["end"] = round(loop.time() - 1000.0, 6)
            rec["counter_after"] = conn.sequence_number
            rec["channel_after"] = conn.communication_channel

    async def canceller(running):
        """The application cancels the task of the call in progress (or of worker `worker`) at `at`; the connection stays."""
        await asyncio.sleep(max(0.0, cancel["at"] - (loop.time() - 1000.0)))
        idx = cancel.get("worker")
        if idx is None:
            idx = next(iter(running), None)
        task = running.get(idx)
        if task is not None and not task.done():
            cancel_rec.update(time=round(loop.time() - 1000.0, 6), idx=idx)
            task.cancel()

    async def closer(conn):
        await asyncio.sleep(max(0.0, close["at"] - (loop.time() - 1000.0)))
        close_rec["time"] = round(loop.time() - 1000.0, 6)
        if close["kind"] == "user":
            await conn.disconnect()
        elif close["kind"] == "server":
            server.send_disconnect()
        elif close["kind"] == "reset":
            server.reset_tcp()
        close_rec["done"] = round(loop.time() - 1000.0, 6)

    async def main():
        kwargs = {} if cb_mode == "none" else {"indication_callback": ind_cb}
        if tcp:
            conn = TCPDeviceManagementConnection("10.0.0.2", 3671, **kwargs)
        else:
            conn = UDPDeviceManagementConnection("10.0.0.2", 3671, local_ip="10.0.0.1", route_back=bool(case.get("route_back")), **kwargs)
        await conn.connect()
        if first_counter:
            conn.sequence_number = first_counter  # public attribute: start near the wrap-around
        for t in extra_ind:
            server.send_indication((DEV, 1, 11), t)
        tasks = []
        if close is not None:
            tasks.append(asyncio.create_task(closer(conn)))
        running = {}
        if cancel is not None:
            tasks.append(asyncio.create_task(canceller(running)))
        if concurrent:
            workers = [asyncio.ensure_future(one_call(conn, i)) for i in range(concurrent)]
            running.update(enumerate(workers))
            await asyncio.wait(workers)
        else:
            for idx in range(ncalls):
                if idx in bad_before and conn.communication_channel is not None:
                    await bad_call(conn, bad_before[idx])
                task = asyncio.ensure_future(one_call(conn, idx))
                running.clear()
                running[idx] = task
                await asyncio.wait([task])
        for t in tasks:
            await t
        # let late frames arrive, then close
        await asyncio.sleep(case.get("tail", 12.0))
        final = {"counter": conn.sequence_number, "channel": conn.communication_channel}
        await conn.disconnect()
        return final

    obs = {"case": case, "harness": None}
    try:
        final = loop.run(main(), max_vtime=2000)
        obs["final"] = final
    except Deadlock:
        obs["harness"] = "deadlock"
    except LoopBudget:
        obs["harness"] = "budget"
    except CommunicationError as exc:
        obs["harness"] = f"connect failed: {exc}"
    wire = [(round(t - 1000.0, 6), d, data) for (t, d, data, _a, _tr) in loop.wire]
    obs["loop_exceptions"] = list(loop.exceptions)
    obs["send_after_close"] = [e for e in loop.events if e[0] == "send_after_close"]
    loop.finish()
    asyncio.set_event_loop(None)
    obs.update(server=server, calls=calls, indications=indications, close=close_rec, wire=wire, cancel=cancel_rec, local=local)
    if judge:
        _judge(ctx, obs)
    return obs


def _witness(obs, **more):
    srv = obs["server"]
    w = {
        "case": obs["case"],
        "script_meaning": [SYMBOL_TEXT[s] for s in obs["case"]["script"]],
        "calls": [{k: (v.hex() if isinstance(v, bytes) else v) for k, v in c.items()} for c in obs["calls"]],
        "client_requests_on_wire": [(r["time"], r["counter"], r.get("fate"), r.get("symbol")) for r in srv.requests][:30],
        "frames_delivered": [(d["time"], d["kind"], d.get("variant"), d["key"], d["data"].hex()) for d in srv.delivered][:30],
        "close": obs["close"],
        "cancelled": obs.get("cancel"),
        "requests_failing_before_transmission": (obs.get("local") or {}).get("bad"),
        "transmissions_refused_by_the_transport": (obs.get("local") or {}).get("refused_tx"),
    }
    w.update(more)
    return w


def _judge(ctx, obs):
    srv = obs["server"]
    case = obs["case"]
    tcp = case["transport"] == "tcp"
    tag = case["transport"]
    calls = obs["calls"]
    ctx.ev()
    if obs["harness"] in ("deadlock", "budget"):
        ctx.violation(
            f"{tag}-workload-does-not-terminate-{obs['harness']}", _witness(obs),
            f"the 4-call workload did not finish on the virtual clock ({obs['harness']})",
        )
        return
    if obs["harness"]:
        ctx.count("harness_connect_failed")
        return

    by_uid = {d["uid"]: d for d in srv.delivered if not d.get("repetition")}
    for b in obs["local"]["bad"]:
        ctx.count("requests_failing_before_transmission")
        ctx.count(f"unserialisable_request_{b['kind']}_{b['outcome']}")
        if b["outcome"] == "returned":
            ctx.violation(f"{tag}-unserialisable-request-returns-normally", _witness(obs), f"the {b['kind']} request returned normally")
    if obs["local"]["refused_tx"]:
        ctx.count("transmissions_refused_by_the_transport", len(obs["local"]["refused_tx"]))
    close_t = obs["close"].get("time")
    # ---- O1: a call returns only its own answer ---------------------------
    for c in calls:
        ctx.count(f"call_{c.get('outcome')}")
        kind, obj, inst, pid, _start = CALLS[c["idx"] % len(CALLS)]
        key = (obj, inst, pid)
        want = M_PROP_READ_CON if kind == "read" else M_PROP_WRITE_CON
        if c.get("outcome") == "cancelled":
            if obs["cancel"].get("idx") == c["idx"]:
                ctx.count("calls_cancelled_by_the_application")
                ctx.count("cancelled_during_" + _phase(obs, c, obs["cancel"]["time"]))
            else:
                ctx.violation(f"{tag}-call-raises-CancelledError-without-being-cancelled", _witness(obs, call=c["idx"]),
                              f"call {c['idx']} ended with asyncio.CancelledError although only call {obs['cancel'].get('idx')} was cancelled")
            continue
        if obs["cancel"] and c["start"] >= obs["cancel"]["time"]:
            ctx.count("calls_after_a_cancellation")
            if c.get("outcome") == "returned":
                ctx.count("calls_after_a_cancellation_returned")
        if c.get("outcome") != "returned":
            if c.get("outcome") not in ("CommunicationError",):
                ctx.count("call_raised_other_than_CommunicationError")
            continue
        window = [d for d in srv.delivered if c["start"] <= d["time"] <= c["end"] and not d.get("repetition")]
        if kind == "read":
            value = c["value"]
            frame = None
            if isinstance(value, bytes) and len(value) == 2:
                frame = by_uid.get(int.from_bytes(value, "big"))
                if frame is not None and frame["data"] != value:
                    frame = None
            if frame is None:
                ctx.violation(f"{tag}-read-returned-data-no-delivered-frame-carried", _witness(obs, call=c["idx"]),
                              f"read_property returned {value!r} which no frame delivered by the server carried")
                continue
            why = None
            if frame["code"] == M_PROP_INFO_IND:
                why = "an-indication"
            elif frame["code"] != want:
                why = "a-frame-of-another-service"
            elif frame["key"][0] != key[0]:
                why = "an-answer-for-another-object-type"
            elif frame["key"][1] != key[1]:
                why = "an-answer-for-another-instance"
            elif frame["key"][2] != key[2]:
                why = "an-answer-for-another-property"
            elif frame.get("error"):
                why = "an-error-answer"
            elif not c["start"] <= frame["time"] <= c["end"]:
                why = "a-frame-delivered-outside-the-call"
            if why:
                ctx.violation(f"{tag}-read-returned-{why}", _witness(obs, call=c["idx"], frame_uid=frame["uid"]),
                              f"read_property call {c['idx']} for {key} returned the data of {why}: {frame['kind']} {frame['key']}")
                continue
            ctx.count("read_returned_matching_answer")
            if frame.get("for_counter") is not None:
                own = [r for r in srv.accepted if _call_of_request(r["raw"]) == c["idx"] % len(CALLS)]
                if not any(r["counter"] == frame["for_counter"] and r["time"] >= c["start"] for r in own):
                    ctx.count("indistinguishable_stale_answer_returned")  # recorded, not judged
        else:
            ok = [d for d in window if d["code"] == want and d["key"] == key and not d.get("error") and d["kind"] != "ind"]
            if not ok:
                seen = sorted({f"{d['kind']}:{d.get('variant')}" for d in window})
                ctx.violation(f"{tag}-write-completed-without-matching-confirmation", _witness(obs, call=c["idx"], frames_in_call=seen),
                              f"write_property call {c['idx']} for {key} returned although no matching M_PropWrite.con was delivered during it; saw {seen}")
                continue
            ctx.count("write_returned_matching_answer")

    # ---- O2: indications only to the callback -------------------------------
    ind_sent = [d for d in srv.delivered if d["kind"] == "ind" and not d.get("repetition")]
    got = []
    for _t, frame in obs["indications"]:
        raw = None
        try:
            raw = frame.to_knx()
        except BaseException:  # noqa: BLE001
            pass
        ctx.count("indication_callback_calls")
        if raw is None or raw[0] != M_PROP_INFO_IND:
            ctx.violation(f"{tag}-indication-callback-got-a-non-indication", _witness(obs, frame=repr(frame)[:200]),
                          f"indication_callback received {frame!r}, not an M_PropInfo.ind")
            continue
        got.append(raw)
    sent_raw = [d["raw"] for d in ind_sent]
    # subsequence with multiplicity one
    it = iter(sent_raw)
    if case.get("callback") == "none":
        ctx.count("cases_without_indication_callback")
        if sent_raw:
            ctx.count("indications_delivered_without_callback", len(sent_raw))
    elif not all(any(g == s for s in it) for g in got):
        ctx.violation(f"{tag}-indication-callback-sequence-not-what-the-server-sent", _witness(obs, got=[g.hex() for g in got]),
                      "indication_callback saw indications the server did not deliver in that order / more than once")
    elif close_t is None and not any(r.get("symbol") in ("X", "C") for r in srv.requests) and srv.closed_at is None and len(got) != len(sent_raw):
        ctx.violation(f"{tag}-indication-not-delivered-to-callback", _witness(obs, got=[g.hex() for g in got]),
                      f"{len(sent_raw)} in-sequence indications delivered on the open connection, callback saw {len(got)}")
    if sent_raw:
        ctx.count("indications_delivered_by_server", len(sent_raw))
    if case.get("callback") == "raises" and got:
        ctx.count("indication_callback_raised", len(got))
    if case.get("route_back"):
        ctx.count("route_back_cases")

    # ---- wire analysis of client requests --------------------------------------
    per_call_tx = {}
    order = []  # first transmissions of distinct (counter, raw)
    seen_req = set()
    for r in srv.requests:
        ctx.count(f"request_tx_{r.get('fate')}")
        cidx = _call_of_request(r["raw"])
        per_call_tx.setdefault(cidx, []).append(r)
        ident = (r["counter"], r["raw"])
        if ident not in seen_req:
            seen_req.add(ident)
            order.append(r)
    # O3: one outstanding request
    call_by_idx = {c["idx"] % len(CALLS): c for c in calls}
    if not case.get("concurrent") or case["concurrent"] <= len(CALLS):
        for n, r in enumerate(order):
            for prev in order[:n]:
                pc = call_by_idx.get(_call_of_request(prev["raw"]))
                if pc is None or _call_of_request(prev["raw"]) == _call_of_request(r["raw"]):
                    continue
                if "end" not in pc or pc["end"] > r["time"] + 1e-9:
                    ctx.violation(f"{tag}-second-request-on-the-wire-while-one-is-outstanding",
                                  _witness(obs, new_request=(r["time"], r["counter"]), outstanding_call=pc["idx"]),
                                  f"request with counter {r['counter']} was transmitted at {r['time']} while call {pc['idx']} was still unfinished")
                    break
        if case.get("concurrent"):
            ctx.count("concurrent_cases")
            ctx.count("concurrent_requests_serialised", len(order))
    # O5: repetition
    for cidx, txs in per_call_tx.items():
        if cidx is None:
            ctx.violation(f"{tag}-unknown-request-on-the-wire", _witness(obs), "a DeviceConfigurationRequest that is none of the workload's calls was transmitted")
            continue
        counters = sorted({r["counter"] for r in txs})
        raws = {r["raw"] for r in txs}
        if len(txs) > 1:
            ctx.count("repeated_requests")
            ctx.count("repetitions", len(txs) - 1)
        if tcp and len(txs) > 1:
            ctx.violation("tcp-request-repeated", _witness(obs, call=cidx), f"call {cidx} was transmitted {len(txs)} times over TCP")
        if len(txs) > 4:
            ctx.violation("udp-request-transmitted-more-than-four-times", _witness(obs, call=cidx),
                          f"call {cidx} was transmitted {len(txs)} times (first + at most 3 repetitions allowed)")
        if len(counters) > 1 or len(raws) > 1:
            ctx.violation(f"{tag}-repetition-changes-counter-or-frame", _witness(obs, call=cidx, counters=counters),
                          f"the transmissions of call {cidx} used counters {counters} / {len(raws)} different frames")
        if len(txs) == 4:
            ctx.count("four_transmissions")
    # O6: counter advances once per accepted request
    exp = case.get("first_counter", 0)
    acc_iter = {id(r) for r in srv.accepted}
    mismatch = None
    for r in srv.requests:  # in wire order; track what the server expected when it saw each first transmission
        first = r is next(o for o in order if (o["counter"], o["raw"]) == (r["counter"], r["raw"]))
        if first and r["open"] and r["counter"] != exp and mismatch is None:
            mismatch = (r, exp)
        if id(r) in acc_iter:
            exp = (exp + 1) & 0xFF
    final = obs.get("final") or {}
    if obs["cancel"]:
        # a call cancelled while its request waits for the acknowledgement leaves the counter where it was although the server may
        # have accepted the request - the client cannot know; the counter rule is not judged for the rest of such a case
        cc = next((c for c in calls if c["idx"] == obs["cancel"]["idx"]), None)
        mine = [a for a in srv.accepted if cc is not None and _call_of_request(a["raw"]) == cc["idx"] % len(CALLS)]
        if cc is not None and not tcp and mine and cc.get("counter_after") == mine[0]["counter"]:
            ctx.count("counter_rule_suspended_after_cancel_in_ack_wait")
            mismatch = None
            final = {}
    if mismatch is None and final.get("channel") is not None and srv.open and final.get("counter") != srv.expected:
        mismatch = ({"time": None, "counter": final.get("counter"), "raw": b""}, srv.expected)
    if mismatch is not None:
        r, expected = mismatch
        cause = _counter_cause(obs, r)
        ctx.violation(f"{tag}-counter-{cause}", _witness(obs, at=r["time"], client_counter=r["counter"], server_expected=expected),
                      f"client counter {r['counter']} but the server has accepted requests up to expecting {expected}: {cause}")
    else:
        ctx.count("counter_checks", len(order) + 1)
    if case.get("first_counter") and any(r["counter"] < 8 for r in srv.accepted):
        ctx.count("counter_wraparound_seen")

    # ---- O4: prompt failure after a close -------------------------------------------
    closes = []
    if close_t is not None:
        closes.append(("injected:" + case["close"]["kind"], close_t))
    if srv.closed_at is not None and close_t is None and any(r.get("symbol") in ("X", "C") for r in srv.requests):
        closes.append(("scripted", srv.closed_at))
    for what, tc in closes[:1]:
        ctx.count("close_events")
        unfinished = [c for c in calls if c["start"] <= tc and c.get("end", 1e18) >= tc - 1e-9]
        holder_phase = "before-transmission"
        for c in unfinished:
            ph = _phase(obs, c, tc)
            if ph != "queued":
                holder_phase = ph
        late = None
        for c in calls:
            if c.get("end", 1e18) < tc - 1e-9:
                continue  # finished before the close
            if c.get("outcome") == "cancelled" and obs["cancel"].get("idx") == c["idx"]:
                continue  # cancelled by the application
            pending = c["start"] <= tc
            ref = tc if pending else c["start"]
            ctx.count("calls_pending_at_close" if pending else "calls_after_close")
            phase = holder_phase if pending else "after-close"
            delay = c.get("end", 1e18) - ref
            if c.get("outcome") == "returned":
                # legitimate only for an answer that had arrived before the close
                mine = CALLS[c["idx"] % len(CALLS)]
                want = M_PROP_READ_CON if mine[0] == "read" else M_PROP_WRITE_CON
                early = [d for d in srv.delivered if d["time"] <= tc + 1e-9 and d["time"] >= c["start"] and d["code"] == want
                         and d["key"] == (mine[1], mine[2], mine[3])]
                if not pending or not early:
                    ctx.violation(f"{tag}-call-{phase}-returns-normally-after-close", _witness(obs, call=c["idx"]),
                                  f"call {c['idx']} ({phase}) returned normally at {c['end']} although the connection was closed at {tc}")
                    continue
                ctx.count("calls_completed_by_answer_received_before_close")
            elif c.get("outcome") != "CommunicationError":
                ctx.violation(f"{tag}-call-{phase}-fails-with-{c.get('outcome')}-after-close", _witness(obs, call=c["idx"]),
                              f"call {c['idx']} ({phase}) failed with {c.get('outcome')} instead of CommunicationError after the close at {tc}")
                continue
            if delay > PROMPT:
                if late is None:
                    late = (c, delay, phase)
            else:
                ctx.count("prompt_failures")
        if late is not None:
            c, delay, phase = late
            ctx.violation(f"{tag}-close-during-{phase}-request-completes-only-after-timeout", _witness(obs, call=c["idx"], delay=delay),
                          f"connection closed ({what}) at {tc}; unfinished call {c['idx']} ({phase}) completed ({c.get('outcome')}) only {delay:.2f} s later")

    if obs["loop_exceptions"]:
        ctx.count("loop_exception_handler_calls", len(obs["loop_exceptions"]))
    hist = "".join(srv.symbols_used)
    ctx.distinct((tag, hist, tuple(c.get("outcome") for c in calls), case.get("concurrent", 0), case.get("callback", "record"), bool(case.get("route_back")), (obs["cancel"].get("idx"), _phase_any(obs, obs["cancel"].get("time"))) if obs["cancel"] else None,
                  (case["close"]["kind"], _phase_any(obs, close_t)) if case.get("close") else None))


def _phase(obs, c, tc):
    """In which phase of call c did the close at tc fall?"""
    srv = obs["server"]
    cidx = c["idx"] % len(CALLS)
    txs = [r for r in srv.requests if _call_of_request(r["raw"]) == cidx and r["time"] <= tc + 1e-9]
    if not txs:
        return "queued"
    if obs["case"]["transport"] == "tcp":
        return "answer-wait"
    acks = [a for a in srv.acks_delivered if a["time"] <= tc + 1e-9 and a["time"] >= txs[0]["time"] and a["status"] == "E_NO_ERROR"
            and a["counter"] == txs[0]["counter"]]
    return "answer-wait" if acks else "ack-wait"


def _phase_any(obs, tc):
    if tc is None:
        return None
    for c in obs["calls"]:
        if c["start"] <= tc <= c.get("end", 1e18):
            return _phase(obs, c, tc)
    return "idle"


def _counter_cause(obs, r):
    """Why did the client's counter run ahead of / behind the server's?"""
    srv = obs["server"]
    accepted = {(a["counter"], a["raw"]) for a in srv.accepted}
    culprit = None
    for q in srv.requests:
        if r["time"] is not None and q["time"] >= r["time"]:
            break
        if (q["counter"], q["raw"]) not in accepted:
            culprit = q
    if culprit is None:
        return "differs-from-accepted-requests"
    cidx = _call_of_request(culprit["raw"])
    call = next((c for c in obs["calls"] if c["idx"] % len(CALLS) == cidx), None)
    first = next(q for q in srv.requests if (q["counter"], q["raw"]) == (culprit["counter"], culprit["raw"]))
    end = call["end"] if call else 1e18
    acks = [a for a in srv.acks_delivered if first["time"] <= a["time"] <= end and a["counter"] != culprit["counter"]]
    frames = [d for d in srv.delivered if first["time"] <= d["time"] <= end]
    # a foreign acknowledgement ends the wait at once; a frame only counts when the 10 s acknowledgement wait runs out
    if any(end < first["time"] + 10.0 - 1e-6 or abs(end - (a["time"] + 10.0)) < 1e-6 for a in acks):
        return "advances-on-acknowledgement-of-another-request"
    if acks and not frames:
        return "advances-on-acknowledgement-of-another-request"
    if frames:
        # did a frame that answers this very call (service, object, instance, property) arrive - the late answer to an
        # earlier identical request, which nothing in the protocol distinguishes from the awaited one?
        if cidx is not None:
            kind, obj, inst, pid, _start = CALLS[cidx]
            want = M_PROP_READ_CON if kind == "read" else M_PROP_WRITE_CON
            if any(d["code"] == want and d["key"] == (obj, inst, pid) and d["kind"] != "ind" for d in frames):
                return "advances-on-indistinguishable-stale-answer-while-the-request-was-lost"
        return "advances-on-answer-frame-for-a-request-the-server-never-got"
    return "advances-without-acceptance"


# ---------------------------------------------------------------------------


def _scripts(alphabet, maxlen):
    yield ""
    for n in range(1, maxlen + 1):
        for tup in itertools.product(alphabet, repeat=n):
            yield "".join(tup)


def _close_steps(obs):
    """Distinct instants of the baseline run + midpoints, capped."""
    times = sorted({t for (t, _d, _data) in obs["wire"]})
    end = max((c.get("end", 0) for c in obs["calls"]), default=0)
    times = [t for t in times if t <= end + 0.001]
    steps = set()
    prev = None
    for t in times:
        steps.add(t)
        if prev is not None and t - prev > 0.002:
            steps.add(round((prev + t) / 2, 6))
        prev = t
    return sorted(steps)


def run(ctx):
    ctx.rule = (
        "case = (transport, fault script over the per-transmission alphabet, optional close (kind, instant), optional concurrency); all scripts up "
        "to the tier's length, closes at every distinct wire instant and midpoint of the baseline of each short script; distinct = (transport, "
        "symbols actually consumed, outcome of each call, concurrency, close kind+phase)"
    )
    ctx.require("read_returned_matching_answer", "write_returned_matching_answer", "indication_callback_calls",
                "repeated_requests", "four_transmissions", "prompt_failures", "calls_pending_at_close", "counter_checks",
                "concurrent_requests_serialised", "counter_wraparound_seen", "cases_without_indication_callback",
                "indications_delivered_without_callback", "indication_callback_raised", "route_back_cases",
                "calls_cancelled_by_the_application", "calls_after_a_cancellation_returned", "cancelled_during_ack-wait",
                "cancelled_during_answer-wait", "cancelled_during_queued", "requests_failing_before_transmission",
                "transmissions_refused_by_the_transport")
    n = 0
    max_len = ctx.scale(3, 4)
    close_len = ctx.scale(1, 2)
    conc_len = ctx.scale(1, 2)
    cases = []
    for transport, alphabet in (("udp", UDP_SYMBOLS), ("tcp", TCP_SYMBOLS)):
        for s in _scripts(alphabet, max_len):
            cases.append({"transport": transport, "script": s})
        if ctx.quick and transport == "udp":
            cases.append({"transport": "udp", "script": "LLLL"})  # four transmissions, then the connection is dropped
        # wrap-around of the 8-bit counter, unsolicited indications
        cases.append({"transport": transport, "script": "", "first_counter": 254, "indications": (0.005, 0.05, 5.0)})
        cases.append({"transport": transport, "script": "L" if transport == "udp" else "n", "first_counter": 255,
                      "indications": (0.015, 9.0)})
        for s in _scripts(alphabet, conc_len):
            for k in (2, 3, 4):
                cases.append({"transport": transport, "script": s, "concurrent": k})
    # configuration dimension: no indication callback (the default of the class), a callback that raises, UDP route-back
    cfg_len = ctx.scale(2, 3)
    for transport, alphabet in (("udp", UDP_SYMBOLS), ("tcp", TCP_SYMBOLS)):
        for s in _scripts(alphabet, cfg_len):
            for cb in ("none", "raises"):
                cases.append({"transport": transport, "script": s, "callback": cb, "indications": (0.015, 0.035) if "I" not in s else ()})
        for s in _scripts(alphabet, 1):
            for cb in ("none", "raises"):
                cases.append({"transport": transport, "script": s, "callback": cb, "concurrent": 3, "indications": (0.015, 0.035)})
    for s in _scripts(UDP_SYMBOLS, ctx.scale(1, 2)):
        for cb in ("record", "none"):
            cases.append({"transport": "udp", "script": s, "route_back": True, "callback": cb})
    if ctx.shard == 0:
        ctx.extra["base_cases"] = len(cases)
    closes = 0
    for case in cases:
        n += 1
        if not ctx.mine(n):
            continue
        obs = run_case(ctx, case)
        if n <= 3:
            ctx.sample({"case": case, "calls": [(c["idx"], c.get("outcome")) for c in obs["calls"]]})
        if len(case["script"]) <= close_len and not case.get("first_counter") and case.get("concurrent", 0) in (0, 3) and case.get("callback") != "raises":
            kinds = ["user", "server"] + (["reset"] if case["transport"] == "tcp" else [])
            for at in _close_steps(obs):
                for kind in kinds:
                    closes += 1
                    run_case(ctx, dict(case, close={"kind": kind, "at": at}))
    ctx.count("close_injection_cases", closes)
    # the application cancels the task of a call at every step; the connection stays open and the later calls go on
    cancels = 0
    for transport, alphabet in (("udp", UDP_SYMBOLS), ("tcp", TCP_SYMBOLS)):
        for s in _scripts(alphabet, ctx.scale(1, 2)):
            for conc in (0, 3):
                if conc and len(s) > 1:
                    continue
                n += 1
                if not ctx.mine(n):
                    continue
                base = {"transport": transport, "script": s}
                if conc:
                    base["concurrent"] = conc
                obs = run_case(ctx, base, judge=False)
                for at in _close_steps(obs):
                    for worker in ((0, 1) if conc else (None,)):
                        cancels += 1
                        run_case(ctx, dict(base, cancel={"at": at, "worker": worker}))
    ctx.count("cancel_injection_cases", cancels)
    # requests that fail locally before transmission (unserialisable, or refused by the transport) between good ones:
    # the server model only counts what it received
    for transport, alphabet in (("udp", UDP_SYMBOLS), ("tcp", TCP_SYMBOLS)):
        for s in _scripts(alphabet, ctx.scale(1, 2)):
            variants = [{"bad_before": {str(pos): kind}} for kind in ("noe16", "inst256", "longdata") for pos in (0, 1, 2)]
            variants += [{"bad_before": {"0": "noe16", "1": "inst256", "3": "longdata"}}]
            variants += [{"send_faults": [k]} for k in (0, 1, 2)] + [{"send_faults": [0, 1]}, {"send_faults": [1], "bad_before": {"1": "noe16"}}]
            for v in variants:
                n += 1
                if ctx.mine(n):
                    run_case(ctx, dict({"transport": transport, "script": s}, **v))
                    ctx.count("local_failure_cases")
    ctx.sample({"udp_alphabet": {s: SYMBOL_TEXT[s] for s in UDP_SYMBOLS}})
    ctx.sample({"workload": CALLS})
    ctx.exhaustive = True
    ctx.extra["exhaustive_part"] = (
        f"all scripts of length <= {max_len} over {len(UDP_SYMBOLS)} UDP / {len(TCP_SYMBOLS)} TCP behaviours; closes x every wire instant for scripts <= {close_len}; "
        f"2-4 concurrent callers for scripts <= {conc_len}"
    )


def replay(ctx, witness):
    ctx.rule = "replay of one recorded case"
    case = witness["case"]
    for k in ("indications",):
        if k in case and isinstance(case[k], list):
            case[k] = tuple(case[k])
    run_case(ctx, case)
    ctx.distinct("replay-a")
    ctx.distinct("replay-b")
