"""Real XKNX core + devices on the virtual loop, with a recording fake interface.

What is real: `XKNX`, its `TelegramQueue` (consumer + rate limiter tasks),
`CEMIHandler.send_telegram`, `TaskRegistry`, `Devices`, every device and remote
value.  What is fake: the object in the public slot `xknx.knxip_interface`.  It
records every cEMI frame handed to it (virtual time, destination, service,
payload) and confirms it at once by feeding the matching L_Data.con into the real
`CEMIHandler.handle_cemi_frame`, so outgoing telegrams are looped back into
`devices.process` exactly the way they are with a gateway that answers
immediately.

Modules that read the wall clock through the module-level name `time`
(`xknx.devices.travelcalculator`, `xknx.devices.binary_sensor`) get that name
rebound to a shim whose `time()` returns the virtual clock; everything else is
forwarded to the real `time` module.  The binding is restored on exit.
"""

from __future__ import annotations

import asyncio
from collections.abc import Callable, Iterator
import contextlib
import importlib
import logging
from typing import Any

from vlib.vloop import VLoop, new_loop

TIME_MODULES = ("xknx.devices.travelcalculator", "xknx.devices.binary_sensor")

EPS = 2.0**-10  # smallest clock advance used by the device checks (dyadic)


class _TimeShim:
    """Stands in for the `time` module inside one xknx module."""

    def __init__(self, fn: Callable[[], float], real: Any) -> None:
        self._fn = fn
        self._real = real

    def time(self) -> float:
        return self._fn()

    def __getattr__(self, name: str) -> Any:
        return getattr(self._real, name)


@contextlib.contextmanager
def shim_time(fn: Callable[[], float], modules: tuple[str, ...] = TIME_MODULES) -> Iterator[None]:
    """Rebind the module-level `time` of `modules` to a shim returning fn()."""
    saved = []
    for name in modules:
        mod = importlib.import_module(name)
        real = mod.time
        if isinstance(real, _TimeShim):  # nested use: keep the innermost real module
            real = real._real
        saved.append((mod, mod.time))
        mod.time = _TimeShim(fn, real)
    try:
        yield
    finally:
        for mod, old in reversed(saved):
            mod.time = old


class ManualClock:
    """A clock set by the harness (for code that needs no event loop)."""

    def __init__(self, start: float = 1000.0) -> None:
        self.now = start

    def __call__(self) -> float:
        return self.now


class Sent:
    """One cEMI frame handed to the fake interface."""

    __slots__ = ("time", "dst", "kind", "value", "seq")

    def __init__(self, time: float, dst: Any, kind: str, value: Any, seq: int) -> None:
        self.time = time
        self.dst = dst
        self.kind = kind  # "write" | "response" | "read" | other class name
        self.value = value  # DPTBinary | DPTArray | None
        self.seq = seq

    def as_tuple(self) -> tuple[Any, ...]:
        return (self.time, str(self.dst), self.kind, payload_repr(self.value))


def payload_repr(value: Any) -> Any:
    """JSON-able, comparable rendering of DPTBinary / DPTArray / None."""
    if value is None:
        return None
    v = getattr(value, "value", value)
    if isinstance(v, tuple):
        return "A:" + bytes(v).hex()
    return f"B:{int(v)}"


class FakeInterface:
    """Occupies the public slot `xknx.knxip_interface`."""

    def __init__(self, xknx: Any, loop: VLoop, confirm: bool = True) -> None:
        from xknx.io import ConnectionConfig

        self.xknx = xknx
        self.loop = loop
        self.confirm = confirm
        self.connection_config = ConnectionConfig()
        self.sent: list[Sent] = []
        self.started = False
        # optional slowness: fn() -> (seconds send_cemi itself takes, seconds until the L_Data.con arrives); keep the sum < 3 s
        self.delay_fn: Callable[[], tuple[float, float]] | None = None

    async def start(self) -> None:
        from xknx.core import XknxConnectionState
        from xknx.core.connection_state import XknxConnectionType

        self.started = True
        self.xknx.connection_manager.connection_state_changed(
            XknxConnectionState.CONNECTED, XknxConnectionType.TUNNEL_TCP
        )

    async def stop(self) -> None:
        from xknx.core import XknxConnectionState

        self.started = False
        self.xknx.connection_manager.connection_state_changed(XknxConnectionState.DISCONNECTED)

    async def send_cemi(self, cemi: Any) -> None:
        from xknx.cemi import CEMIFrame, CEMIMessageCode
        from xknx.telegram.apci import GroupValueRead, GroupValueResponse, GroupValueWrite

        data = cemi.data
        apci = data.payload
        if isinstance(apci, GroupValueWrite):
            kind, value = "write", apci.value
        elif isinstance(apci, GroupValueResponse):
            kind, value = "response", apci.value
        elif isinstance(apci, GroupValueRead):
            kind, value = "read", None
        else:
            kind, value = type(apci).__name__, None
        # serialising is what a real interface does first: it must work
        cemi.to_knx()
        self.sent.append(Sent(self.loop.time(), data.dst_addr, kind, value, len(self.sent)))
        send_delay, con_delay = self.delay_fn() if self.delay_fn is not None else (0.0, 0.0)
        if send_delay > 0:
            await asyncio.sleep(send_delay)
        if self.confirm:
            con = CEMIFrame(code=CEMIMessageCode.L_DATA_CON, data=data)
            if con_delay > 0:
                self.loop.call_later(con_delay, self.xknx.cemi_handler.handle_cemi_frame, con)
            else:
                self.xknx.cemi_handler.handle_cemi_frame(con)


class RecordingQueue(asyncio.Queue):  # type: ignore[type-arg]
    """Drop-in for the public slot `xknx.telegrams`: remembers when each telegram was queued."""

    def __init__(self, clock: Callable[[], float]) -> None:
        super().__init__()
        self._clock = clock
        self.log: list[tuple[float, Any]] = []

    def put_nowait(self, item: Any) -> None:
        if item is not None:
            self.log.append((self._clock(), item))
        super().put_nowait(item)


class _LogCatcher(logging.Handler):
    def __init__(self) -> None:
        super().__init__(level=logging.WARNING)
        self.records: list[dict[str, Any]] = []

    def emit(self, record: logging.LogRecord) -> None:
        exc = record.exc_info[1] if record.exc_info else None
        try:
            msg = record.getMessage()
        except Exception:  # noqa: BLE001
            msg = str(record.msg)
        self.records.append(
            {
                "level": record.levelname,
                "msg": msg[:300],
                "exception": repr(exc)[:200] if exc is not None else None,
                "exc_type": type(exc).__name__ if exc is not None else None,
            }
        )


class DevHarness:
    """One XKNX instance on one virtual loop.

        h = DevHarness()
        try:
            h.run(scenario(h))       # scenario starts with `await h.start()`
        finally:
            h.close()
    """

    def __init__(self, rate_limit: int = 0, shim: bool = True) -> None:
        from xknx import XKNX

        self.loop = new_loop()
        self.xknx = XKNX(rate_limit=rate_limit)
        self.iface = FakeInterface(self.xknx, self.loop)
        self.xknx.knxip_interface = self.iface  # public slot
        self.queue_log = RecordingQueue(self.loop.time)
        self.xknx.telegrams = self.queue_log  # public slot, replaced before start
        self._stack = contextlib.ExitStack()
        if shim:
            self._stack.enter_context(shim_time(self.loop.time))
        # exceptions the queue / devices swallow are only visible in the log
        self.log = _LogCatcher()
        self._logger = logging.getLogger("xknx.log")
        self._saved_logger = (self._logger.level, self._logger.propagate)
        self._logger.setLevel(logging.WARNING)
        self._logger.propagate = False
        self._logger.addHandler(self.log)
        self.started = False
        self.closed = False

    # -- life cycle -----------------------------------------------------------
    async def start(self) -> None:
        await self.xknx.start()
        self.started = True

    async def stop(self) -> None:
        if self.started:
            self.started = False
            await self.xknx.stop()

    def run(self, coro: Any, max_vtime: float = 1e6) -> Any:
        return self.loop.run(coro, max_vtime=max_vtime)

    def close(self) -> list[Any]:
        if self.closed:
            return []
        self.closed = True
        leaked: list[Any] = []
        try:
            if self.started:
                try:
                    self.loop.run(self.stop(), max_vtime=100)
                except BaseException:  # noqa: BLE001
                    pass
            leaked = self.loop.finish()
        finally:
            self._logger.removeHandler(self.log)
            self._logger.setLevel(self._saved_logger[0])
            self._logger.propagate = self._saved_logger[1]
            self._stack.close()
        return leaked

    # -- driving --------------------------------------------------------------
    def now(self) -> float:
        return self.loop.time()

    async def settle(self) -> None:
        """Let everything that is due *at this virtual instant* happen."""
        for _ in range(3):
            for _ in range(8):
                await asyncio.sleep(0)
            await self.xknx.telegrams.join()
        for _ in range(4):
            await asyncio.sleep(0)

    async def soft_settle(self, turns: int = 16) -> None:
        """Let ready callbacks run without waiting for the (possibly slow) interface."""
        for _ in range(turns):
            await asyncio.sleep(0)

    async def sleep_until(self, t: float) -> None:
        d = t - self.loop.time()
        if d > 0:
            await asyncio.sleep(d)

    def incoming(self, ga: Any, apci: Any, source: str = "1.2.3") -> Any:
        """Queue a telegram as if it had been received from the bus."""
        from xknx.telegram import GroupAddress, IndividualAddress, Telegram, TelegramDirection

        dst = ga if not isinstance(ga, (str, int)) else GroupAddress(ga)
        tg = Telegram(
            destination_address=dst,
            direction=TelegramDirection.INCOMING,
            payload=apci,
            source_address=IndividualAddress(source),
        )
        self.xknx.telegrams.put_nowait(tg)
        return tg

    def incoming_write(self, ga: Any, value: Any) -> Any:
        from xknx.telegram.apci import GroupValueWrite

        return self.incoming(ga, GroupValueWrite(value))

    def incoming_response(self, ga: Any, value: Any) -> Any:
        from xknx.telegram.apci import GroupValueResponse

        return self.incoming(ga, GroupValueResponse(value))

    def incoming_read(self, ga: Any) -> Any:
        from xknx.telegram.apci import GroupValueRead

        return self.incoming(ga, GroupValueRead())

    # -- observations -----------------------------------------------------------
    def sent_since(self, index: int) -> list[Sent]:
        return self.iface.sent[index:]

    def swallowed_exceptions(self) -> list[dict[str, Any]]:
        """Log records that carry an exception (the queue's / callbacks' catch-alls)."""
        return [r for r in self.log.records if r["exception"] is not None]


class ProbeDevice:
    """Factory for a minimal Device around one arbitrary RemoteValue.

    A Device subclass is the documented way to use a RemoteValue; this one does
    what every stock device does: hand each group write/response to `process`.
    """

    _cls: Any = None

    @classmethod
    def make(cls, xknx: Any, name: str, remote_value_factory: Callable[[Any], Any]) -> Any:
        if cls._cls is None:
            from xknx.devices import Device

            class _Probe(Device):
                def __init__(self, xknx: Any, name: str, factory: Callable[[Any], Any]) -> None:
                    super().__init__(xknx, name)
                    self.remote_value = factory(self)

                def _iter_remote_values(self) -> Iterator[Any]:
                    yield self.remote_value

                def process_group_write(self, telegram: Any) -> None:
                    self.remote_value.process(telegram)

            cls._cls = _Probe
        return cls._cls(xknx, name, remote_value_factory)
