"""C21 KNX/IP bodies: serialised length == announced length, header length correct, parse yields an equal body, nothing left over."""

from __future__ import annotations

from typing import Any

from vlib import knxip_gen as g
from vlib.eqv import same
from xknx.knxip import ConnectResponse, KNXIPFrame, KNXIPHeader

LEVEL = "exploration"
TECHNIQUE = (
    "runtime monitor: generated instances of every exported KNX/IP body class through KNXIPFrame.init_from_body/to_knx/from_knx; "
    "oracle = length identities + structural equality of the parsed body"
)
LEVEL_TEXT = (
    "All concrete body classes exported by xknx.knxip are discovered at run time (29 expected; a class without generator makes the run "
    "inconclusive). Instances are generated with every field over its enum / wire range (HPAI protocols, CRI/CRD variants, DIB lists of "
    "all five DIB kinds, SRP lists, all status / return / feature codes, boundary integers, empty and maximal variable parts). "
    "Exploration: field combinations are sampled, enums and boundary values are covered by construction."
)
LEVEL_NOTE = (
    "Trusted: CPython. Equality is structural (knxip_gen.body_equal, cross-checked against eqv.same on the first cases of each class) because DIB classes define no __eq__. Judged: len(to_knx) == header.total_length "
    "== 6 + calculated_length == octets 4..5; header octets 06 10 + service type; from_knx returns the same class, an equal body, rest b''. "
    "Not judged (recorded): ConnectResponse with an error status compares only channel and status (the parser skips HPAI/CRD on purpose, "
    "repository tests pin that); values xknx pads to an even length on the wire (odd tunnelling-feature data, odd DIB data) - the wire "
    "value is the padded one; a device name ending in NUL (indistinguishable from the field padding); an extended CRI carrying address 0.0.0. "
    "Device names with NULs / control characters elsewhere in the 30-octet field are judged: the encoder puts them on the wire unchanged "
    "(a strictly NUL-terminated reading of the specification would end the name at the first NUL; xknx treats the field as padded)."
)
SHARDS = {"quick": 1, "thorough": 16}
TIMEOUT = {"quick": 300, "thorough": 3000}


def _hex(raw: bytes) -> bytes:
    return raw if len(raw) <= 2048 else raw[:2048]


def judge(ctx: Any, cls: type, body: Any, info: dict[str, Any]) -> None:
    ctx.ev()
    name = cls.__name__
    desc = repr(body)[:300]
    try:
        frame = KNXIPFrame.init_from_body(body)
        raw = frame.to_knx()
        calc = body.calculated_length()
        body_raw = body.to_knx()
    except BaseException as exc:  # noqa: BLE001
        if isinstance(exc, (KeyboardInterrupt, SystemExit)):
            raise
        ctx.violation(f"{name}-serialise-raises-{type(exc).__name__}", {"cls": name, "body": desc, "variant": info["variant"], "exception": repr(exc)[:200]},
                      f"{name} with wire-legal fields cannot be serialised: {type(exc).__name__}: {str(exc)[:80]}")
        return
    ctx.count("serialised")
    w = {"cls": name, "body": desc, "variant": info["variant"], "raw": _hex(raw), "calculated_length": calc,
         "header_total_length": frame.header.total_length, "len_raw": len(raw)}
    if len(body_raw) != calc:
        ctx.violation(f"{name}-calculated_length-differs-from-serialised-length", w,
                      f"{name}.calculated_length() == {calc} but to_knx() has {len(body_raw)} octets")
    if not (frame.header.total_length == KNXIPHeader.HEADERLENGTH + calc == len(raw) and len(raw) >= 6 and raw[4] * 256 + raw[5] == len(raw)):
        ctx.violation(f"{name}-header-total-length-wrong", w,
                      f"{name}: header announces {frame.header.total_length}, frame has {len(raw)} octets, 6+calculated_length = {6 + calc}")
    if raw[:2] != b"\x06\x10" or raw[2:4] != cls.SERVICE_TYPE.value.to_bytes(2, "big") or raw[6:] != body_raw:
        ctx.violation(f"{name}-frame-header-octets-wrong", w, f"{name}: frame does not start with 06 10 + service type + length followed by the body")
    ctx.count("length_identities_checked")
    try:
        frame2, rest = KNXIPFrame.from_knx(raw)
    except BaseException as exc:  # noqa: BLE001
        if isinstance(exc, (KeyboardInterrupt, SystemExit)):
            raise
        w["exception"] = repr(exc)[:200]
        ctx.violation(f"{name}-own-frame-rejected-{type(exc).__name__}", w,
                      f"{name}: the frame xknx serialised is rejected by its parser: {type(exc).__name__}: {str(exc)[:80]}")
        return
    ctx.count("parsed_back")
    w["parsed"] = repr(frame2.body)[:300]
    if rest != b"":
        ctx.violation(f"{name}-octets-left-over-after-parse", w, f"{name}: {len(rest)} octets left over after parsing its own frame")
    if type(frame2.body) is not cls:
        ctx.violation(f"{name}-parsed-as-other-class", w, f"{name} frame parsed as {type(frame2.body).__name__}")
        return
    if frame2.header.total_length != len(raw) or frame2.header.service_type_ident != cls.SERVICE_TYPE:
        ctx.violation(f"{name}-parsed-header-differs", w, f"{name}: parsed header differs from the serialised one")
    if info["judge_equal"]:
        ctx.count("bodies_compared")
        equal = g.body_equal(frame2.body, body)
        if ctx.counters.get("crosschecked_with_eqv_same_" + name, 0) < 5:
            ctx.count("crosschecked_with_eqv_same_" + name)
            if same(frame2.body, body) != equal:
                ctx.inconclusive(f"equality oracles disagree on a {name}: eqv.same={not equal} body_equal={equal}")
        if not equal:
            ctx.violation(f"{name}-parsed-body-differs", w, f"{name}: parsing its own frame yields a different body: {w['parsed'][:120]} != {desc[:120]}")
    else:
        ctx.count("recorded_connect_response_error_status_tail_not_compared")
        assert cls is ConnectResponse
        if frame2.body.communication_channel != body.communication_channel or frame2.body.status_code != body.status_code:
            ctx.violation(f"{name}-parsed-body-differs", w, f"{name} (error status): channel / status differ after parsing")
    ctx.distinct((name, info["variant"], min(len(raw), 64) // 4))


def run(ctx: Any) -> None:
    ctx.rule = (
        "every exported body class x generated instances (fields over enums, boundary integers, variable parts from empty to maximal); "
        "distinct = (class, structural variant e.g. CRI/CRD kind or DIB/SRP kinds, frame length bucket)"
    )
    ctx.require("serialised", "length_identities_checked", "parsed_back", "bodies_compared")
    rng = ctx.rng
    classes = g.body_classes()
    ctx.extra["body_classes"] = len(classes)
    ctx.extra["body_class_names"] = [c.__name__ for c in classes]
    if len(classes) < 29:
        ctx.inconclusive(f"only {len(classes)} body classes discovered, 29 expected")
    per = ctx.scale(2000, 480000) // ctx.nshards
    idx = 0
    for cls in classes:
        for i in range(per):
            idx += 1
            try:
                body, info = g.gen_case(cls, rng)
            except KeyError:
                ctx.inconclusive(f"no generator for body class {cls.__name__}")
                break
            except Exception as err:  # noqa: BLE001 - a generator failure is counted and skipped
                g.guarded(ctx, "gen_case " + cls.__name__, lambda e=err: (_ for _ in ()).throw(e))
                continue
            ctx.count("cls_" + cls.__name__)
            g.guarded(ctx, "judge " + cls.__name__, judge, ctx, cls, body, info)
            if i == 0 and cls.__name__ in ("ConnectRequest", "SearchResponseExtended", "TunnellingFeatureResponse", "SearchRequestExtended"):
                ctx.sample({"cls": cls.__name__, "body": repr(body)[:200], "raw": g.frame_bytes(body)[:80]})
    g.harness_verdict(ctx)
    # recorded only: values that xknx pads to even length on the wire
    if ctx.shard == 0:
        for _ in range(ctx.scale(20, 200)):
            for label, body in g.odd_length_variants(rng):
                try:
                    raw = g.frame_bytes(body)
                    back = KNXIPFrame.from_knx(raw)[0].body
                    ctx.count("recorded_" + label + ("_equal" if g.body_equal(back, body) else "_not_equal"))
                except Exception:  # noqa: BLE001
                    ctx.count("recorded_" + label + "_raises")


def replay(ctx: Any, witness: dict[str, Any]) -> None:
    """Re-run the class of the witness with the recorded seed/shard stream (bodies are not serialisable as such)."""
    name = witness["cls"]
    ctx.require("serialised")
    for cls in g.body_classes():
        if cls.__name__ == name:
            for _ in range(3000):
                body, info = g.gen_case(cls, ctx.rng)
                judge(ctx, cls, body, info)
