"""Harness for the Data Secure checks (C15..C19).

Real `XKNX` instances whose `CEMIHandler` holds a `DataSecure` built from plain
tables (no keyring file), observed only through public seams:

* `xknx.telegrams` (the queue `CEMIHandler` puts group telegrams on),
* telegram / device / key-issue callbacks,
* `xknx.knxip_interface` replaced by a recording fake,
* `Management.process`, wrapped at class level inside a context manager (that is
  where broadcast and tag-group telegrams go), restored afterwards,
* `connection_manager` counters.
"""

from __future__ import annotations

import asyncio
from collections.abc import Iterator
from contextlib import contextmanager
from copy import copy
from typing import Any

from xknx import XKNX
from xknx.cemi import CEMIFrame, CEMILData, CEMIMessageCode
from xknx.management.management import Management
from xknx.secure.data_secure import DataSecure
from xknx.secure.data_secure_asdu import (
    SecureData,
    SecurityAlgorithmIdentifier,
    SecurityALService,
    SecurityControlField,
)
from xknx.telegram import GroupAddress, IndividualAddress, Telegram
from xknx.telegram.apci import SecureAPDU

SEQ_MAX = (1 << 48) - 1

_MGMT_LOG: list[tuple[Any, Telegram]] = []
_MGMT_ACTIVE = 0


@contextmanager
def observing_management() -> Iterator[None]:
    """Record every `Management.process` call (class level wrap, restored on exit).

    The original is always called when an event loop is running. Without a running
    loop it is only called for telegrams it handles synchronously (connection-less
    data); numbered / control telegrams would make it spawn tasks, which is a
    property of the harness being synchronous, not of xknx.
    """
    global _MGMT_ACTIVE
    original = Management.process

    def process(self: Management, telegram: Telegram) -> None:
        _MGMT_LOG.append((self.xknx, telegram))
        try:
            asyncio.get_running_loop()
            running = True
        except RuntimeError:
            running = False
        if running or not (telegram.tpci.control or telegram.tpci.numbered):
            original(self, telegram)

    Management.process = process  # type: ignore[method-assign]
    _MGMT_ACTIVE += 1
    try:
        yield
    finally:
        _MGMT_ACTIVE -= 1
        Management.process = original  # type: ignore[method-assign]
        _MGMT_LOG.clear()


def scf_for(auth_only: bool) -> SecurityControlField:
    return SecurityControlField(
        tool_access=False,
        algorithm=(
            SecurityAlgorithmIdentifier.CCM_AUTHENTICATION
            if auth_only
            else SecurityAlgorithmIdentifier.CCM_ENCRYPTION
        ),
        system_broadcast=False,
        service=SecurityALService.S_A_DATA,
    )


def make_data_secure(
    keys: dict[int, bytes], senders: dict[int, int], last_seq_sending: int | None = 1
) -> DataSecure:
    """DataSecure from raw tables: {ga_raw: key}, {ia_raw: last valid counter}."""
    return DataSecure(
        group_key_table={GroupAddress(ga): key for ga, key in keys.items()},
        individual_address_table={IndividualAddress(ia): n for ia, n in senders.items()},
        last_sequence_number_sending=last_seq_sending,
    )


def ind_from_req(raw_req: bytes) -> bytes:
    """What the bus side makes of an L_Data.req: the same frame as L_Data.ind."""
    assert raw_req[0] == CEMIMessageCode.L_DATA_REQ.value
    return bytes((CEMIMessageCode.L_DATA_IND.value,)) + raw_req[1:]


class Outcome:
    """What one injected frame caused."""

    __slots__ = ("exc", "incoming", "incoming_error", "key_issue", "mgmt", "queued", "undecoded")

    def __init__(self) -> None:
        self.queued: list[Telegram] = []
        self.mgmt: list[Telegram] = []
        self.key_issue: list[Telegram] = []
        self.undecoded = 0
        self.incoming = 0
        self.incoming_error = 0
        self.exc: BaseException | None = None

    @property
    def delivered(self) -> list[Telegram]:
        return self.queued + self.mgmt

    def kind(self) -> str:
        if self.exc is not None:
            return "raised:" + type(self.exc).__name__
        if self.delivered:
            return f"delivered{len(self.delivered)}"
        if self.incoming_error:
            return "parse-error"
        if self.undecoded:
            return "undecoded"
        return "silent"


class FakeInterface:
    """Stands in for `KNXIPInterface`: records frames handed over for sending."""

    def __init__(self, xknx: XKNX, confirm: bool = True, fail: BaseException | None = None) -> None:
        self.xknx = xknx
        self.confirm = confirm
        self.fail = fail
        self.sent: list[tuple[CEMIFrame, bytes]] = []

    async def start(self) -> None:
        return

    async def stop(self) -> None:
        return

    async def send_cemi(self, cemi: CEMIFrame) -> None:
        raw = cemi.to_knx()
        self.sent.append((cemi, bytes(raw)))
        if self.fail is not None:
            raise self.fail
        if self.confirm:
            con = bytes((CEMIMessageCode.L_DATA_CON.value,)) + bytes(raw[1:])
            asyncio.get_running_loop().call_soon(self.xknx.cemi_handler.handle_raw_cemi, con)


class ScriptedInterface:
    """Interface double with a scripted outcome per hand-off; `wire` is what really left (in hand-off order).

    outcomes: "ok" (recorded, L_Data.con follows), "slow" (recorded, confirmation after a virtual delay),
    "fail_after" (recorded = transmitted, then CommunicationError: what the UDP tunnel does when the acks are lost),
    "fail_before" (CommunicationError before anything left), "noconf" (recorded, never confirmed -> ConfirmationError).
    """

    def __init__(self, xknx: XKNX, outcomes: list[str]) -> None:
        self.xknx = xknx
        self.outcomes = list(outcomes)
        self.calls = 0
        self.wire: list[tuple[bytes, str]] = []
        self.sent: list[tuple[CEMIFrame, bytes]] = []

    async def start(self) -> None:
        return

    async def stop(self) -> None:
        return

    def _confirm(self, raw: bytes) -> None:
        con = bytes((CEMIMessageCode.L_DATA_CON.value,)) + bytes(raw[1:])
        self.xknx.cemi_handler.handle_raw_cemi(con)

    async def send_cemi(self, cemi: CEMIFrame) -> None:
        from xknx.exceptions import CommunicationError

        outcome = self.outcomes[self.calls % len(self.outcomes)] if self.outcomes else "ok"
        self.calls += 1
        if outcome == "fail_before":
            raise CommunicationError("not connected")
        raw = bytes(cemi.to_knx())
        self.wire.append((raw, outcome))
        self.sent.append((cemi, raw))
        loop = asyncio.get_running_loop()
        if outcome == "fail_after":
            await asyncio.sleep(1.0)  # waited for the acknowledgement in vain
            raise CommunicationError("Sending TunnellingRequest failed twice.")
        if outcome == "slow":
            await asyncio.sleep(0.3)
            loop.call_later(0.2, self._confirm, raw)
        elif outcome == "ok":
            loop.call_soon(self._confirm, raw)


class Node:
    """One real XKNX with Data Secure tables given as plain dicts."""

    def __init__(
        self,
        keys: dict[int, bytes],
        senders: dict[int, int],
        own_address: int = 0x1001,
        last_seq_sending: int | None = 1,
        confirm: bool = True,
    ) -> None:
        if not _MGMT_ACTIVE:
            raise RuntimeError("Node must be used inside observing_management()")
        self.xknx = XKNX()
        self.xknx.current_address = IndividualAddress(own_address)
        self.ds = make_data_secure(keys, senders, last_seq_sending)
        self.xknx.cemi_handler.data_secure = self.ds
        self.iface = FakeInterface(self.xknx, confirm=confirm)
        self.xknx.knxip_interface = self.iface  # type: ignore[assignment]
        self.key_issues: list[Telegram] = []
        self.xknx.telegram_queue.register_data_secure_group_key_issue_cb(self.key_issues.append)

    @classmethod
    def from_keyring(cls, keyring: Any, own_address: int = 0x1001, confirm: bool = True) -> Node:
        """Node whose Data Secure is set up the way the interface does it: `cemi_handler.data_secure_init(keyring)`."""
        node = cls({}, {}, own_address=own_address, confirm=confirm)
        node.reinit(keyring)
        return node

    def reinit(self, keyring: Any) -> None:
        """(Re-)initialise Data Secure on the same XKNX from a keyring (what a stop/start of the interface does)."""
        self.xknx.cemi_handler.data_secure_init(keyring)
        self.ds = self.xknx.cemi_handler.data_secure  # may be None: no Data Secure information in the keyring

    def use_interface(self, iface: Any) -> None:
        self.iface = iface
        self.xknx.knxip_interface = iface

    # -- receive side -----------------------------------------------------
    def feed(self, raw: bytes, drain: bool = True) -> Outcome:
        """Inject one raw cEMI frame into the real receive path, synchronously."""
        out = Outcome()
        cm = self.xknx.connection_manager
        before = (cm.undecoded_data_secure, cm.cemi_count_incoming, cm.cemi_count_incoming_error)
        n_mgmt = len(_MGMT_LOG)
        n_key = len(self.key_issues)
        try:
            self.xknx.cemi_handler.handle_raw_cemi(raw)
        except Exception as exc:  # noqa: BLE001 - the monitor
            out.exc = exc
        out.undecoded = cm.undecoded_data_secure - before[0]
        out.incoming = cm.cemi_count_incoming - before[1]
        out.incoming_error = cm.cemi_count_incoming_error - before[2]
        out.mgmt = [t for x, t in _MGMT_LOG[n_mgmt:] if x is self.xknx]
        del _MGMT_LOG[:]
        out.key_issue = self.key_issues[n_key:]
        if drain:
            while not self.xknx.telegrams.empty():
                t = self.xknx.telegrams.get_nowait()
                self.xknx.telegrams.task_done()
                if t is not None:
                    out.queued.append(t)
        return out

    # -- send side --------------------------------------------------------
    def secure_sync(self, telegram: Telegram, src: int | None = None) -> bytes:
        """Telegram -> L_Data.ind octets through `DataSecure.outgoing_cemi` (no loop needed)."""
        data = CEMILData.init_from_telegram(
            telegram, src_addr=IndividualAddress(src) if src is not None else self.xknx.current_address
        )
        data = self.ds.outgoing_cemi(data)
        return ind_from_req(CEMIFrame(code=CEMIMessageCode.L_DATA_REQ, data=data).to_knx())

    async def send(self, telegram: Telegram) -> bytes:
        """Telegram through the real `CEMIHandler.send_telegram`; returns the L_Data.ind octets."""
        n = len(self.iface.sent)
        await self.xknx.cemi_handler.send_telegram(telegram)
        assert len(self.iface.sent) == n + 1
        return ind_from_req(self.iface.sent[n][1])


def auth_only_frame(key: bytes, telegram: Telegram, src: int, seq: int, auth_only: bool = True) -> bytes:
    """L_Data.ind secured with the public `SecureData.init_from_plain_apdu` and a chosen counter / algorithm."""
    data = CEMILData.init_from_telegram(telegram, src_addr=IndividualAddress(src))
    scf = scf_for(auth_only)
    assert data.payload is not None
    sd = SecureData.init_from_plain_apdu(
        key=key,
        apdu=data.payload.to_knx(),
        scf=scf,
        sequence_number=seq,
        address_fields_raw=data.src_addr.to_knx() + data.dst_addr.to_knx(),
        address_type=data.address_type,
        frame_format=data.flags.frame_format,
        tpci=data.tpci,
    )
    sec = copy(data)
    sec.payload = SecureAPDU(scf=scf, secured_data=sd)
    return ind_from_req(CEMIFrame(code=CEMIMessageCode.L_DATA_REQ, data=sec).to_knx())


def secure_raw_apdu_frame(
    key: bytes, apdu: bytes, *, sa: int, da: int, seq: int, tpci_obj: Any = None, auth_only: bool = False,
    scf: SecurityControlField | None = None, group: bool = True,
) -> bytes:
    """L_Data.ind whose *inner* plain APDU is the arbitrary octet string `apdu`, correctly authenticated.

    Secured with xknx's own `SecureData.init_from_plain_apdu` (it takes raw octets), so the receiver's MAC check passes
    whatever the octets are; the frame around it is serialised by `CEMIFrame.to_knx`.
    """
    from xknx.telegram import tpci as _tpci

    tpci_obj = tpci_obj if tpci_obj is not None else (_tpci.TDataGroup() if group else _tpci.TDataIndividual())
    dst: GroupAddress | IndividualAddress = GroupAddress(da) if group else IndividualAddress(da)
    scf = scf if scf is not None else scf_for(auth_only)
    data = CEMILData(src_addr=IndividualAddress(sa), dst_addr=dst, tpci=tpci_obj, payload=None)
    sd = SecureData.init_from_plain_apdu(
        key=key, apdu=apdu, scf=scf, sequence_number=seq,
        address_fields_raw=data.src_addr.to_knx() + data.dst_addr.to_knx(),
        address_type=data.address_type, frame_format=data.flags.frame_format, tpci=tpci_obj,
    )
    data.payload = SecureAPDU(scf=scf, secured_data=sd)
    return ind_from_req(CEMIFrame(code=CEMIMessageCode.L_DATA_REQ, data=data).to_knx())


def apci_of(raw_ldata_frame: bytes) -> int:
    """The 10 APCI bits of a raw cEMI L_Data frame (additional info skipped), by hand."""
    off = 2 + raw_ldata_frame[1]
    tpdu = raw_ldata_frame[off + 7 :]
    if len(tpdu) < 2:
        return -1
    return ((tpdu[0] & 0x03) << 8) | tpdu[1]


def seq_of(raw_ldata_frame: bytes) -> int:
    """Sequence number octets of a raw secured cEMI L_Data frame, by hand."""
    off = 2 + raw_ldata_frame[1]
    return int.from_bytes(raw_ldata_frame[off + 10 : off + 16], "big")


# ---------------------------------------------------------------------------
# payloads

def group_payload(rng: Any, length: int) -> Any:
    """A group-communication APDU whose APDU length (octets after the TPCI octet) is `length` (1..240+)."""
    from xknx.dpt import DPTArray, DPTBinary
    from xknx.telegram import apci

    if length <= 1:
        k = rng.randrange(3)
        if k == 0:
            return apci.GroupValueRead()
        cls = apci.GroupValueWrite if k == 1 else apci.GroupValueResponse
        return cls(DPTBinary(rng.randrange(64)))
    cls = apci.GroupValueWrite if rng.random() < 0.6 else apci.GroupValueResponse
    fill = rng.randrange(4)
    n = length - 1
    if fill == 0:
        data = bytes(n)
    elif fill == 1:
        data = b"\xff" * n
    else:
        data = rng.randbytes(n)
    return cls(DPTArray(tuple(data)))


def other_service_payloads(rng: Any, count: int) -> list[Any]:
    """APDUs of other services, obtained by decoding generated octets with the real decoder.

    Only objects whose *plain* encode/decode round trip is clean are returned, so a
    codec asymmetry (the business of C05/C06) cannot show up as a Data Secure alarm.
    """
    from xknx.exceptions import ConversionError
    from xknx.telegram.apci import APCI, SecureAPDU

    from . import eqv

    out: list[Any] = []
    seen: set[str] = set()
    tries = 0
    while len(out) < count and tries < count * 400:
        tries += 1
        code = rng.randrange(1024)
        n = rng.choice((0, 0, 1, 2, 3, 4, 5, 6, 8, 10, 12, 16, 20))
        raw = bytes((code >> 8, code & 0xFF)) + rng.randbytes(n)
        try:
            obj = APCI.from_knx(raw)
            enc = bytes(obj.to_knx())
            again = APCI.from_knx(enc)
        except (ConversionError, ValueError, TypeError, OverflowError):
            continue
        except Exception:  # noqa: BLE001 - codec trouble is not this check's business
            continue
        if isinstance(obj, SecureAPDU) or not eqv.same(again, obj) or bytes(again.to_knx()) != enc:
            continue
        name = type(obj).__name__
        if name in seen and rng.random() < 0.8:
            continue
        seen.add(name)
        out.append(obj)
    return out


# ---------------------------------------------------------------------------
# keyrings written by the independent writer (vlib/keyring_writer.py, read-only) and loaded by xknx's own loader

KEYRING_PASSWORD = "dsec pässword"


def load_project_keyring(project: Any, rng: Any, order: str = "BIGD") -> Any:
    """Serialise a keyring_writer.Project and load it with xknx.secure.keyring.sync_load_keyring (temporary file, removed)."""
    import os
    import tempfile

    from xknx.secure.keyring import sync_load_keyring

    from . import keyring_writer as W

    data = W.serialize(W.build_tree(project, rng, order=order), W.Style())
    shm = "/dev/shm"
    fd, path = tempfile.mkstemp(prefix="dsec-", suffix=".knxkeys", dir=shm if os.path.isdir(shm) and os.access(shm, os.W_OK) else None)
    try:
        with os.fdopen(fd, "wb") as fh:
            fh.write(data)
        return sync_load_keyring(path, project.password)
    finally:
        os.unlink(path)


def project_tables(project: Any) -> tuple[dict[int, bytes], dict[int, int]]:
    """What a keyring_writer.Project says, read independently of xknx: ({keyed ga: key}, {sender ia: initial counter})."""
    keys = {ga: key for ga, key in (project.group_keys or []) if key is not None}
    senders: dict[int, int] = {}
    for itf in project.interfaces:
        for _ga, snd in itf.groups:
            for ia in snd or []:
                senders.setdefault(ia, 0)
    for dev in project.devices or []:
        senders[dev.ia] = dev.sequence_number or 0
    return keys, senders


def make_project(keys: dict[int, bytes], device_senders: dict[int, int | None], interface_senders: dict[int, list[int]] | None = None,
                 interfaces_without_groups: int = 0) -> Any:
    """A small keyring project: group keys, devices (counter or None = no SequenceNumber attribute), interface group lists."""
    from . import keyring_writer as W

    p = W.Project("dsec", "ETS 6.2.0 (Build 7181)", "2024-03-01T10:00:00", KEYRING_PASSWORD)
    p.group_keys = list(keys.items())
    p.devices = [W.PDevice(ia, sequence_number=n) for ia, n in device_senders.items()] if device_senders is not None else None
    itfs = []
    if interface_senders:
        itfs.append(W.PInterface(0x1F01, "Tunneling", host=0x1F00, user_id=2, password="pw", authentication="au",
                                 groups=[(ga, list(snd)) for ga, snd in interface_senders.items()]))
    for n in range(interfaces_without_groups):
        itfs.append(W.PInterface(0x1F10 + n, "Tunneling", host=0x1F00, user_id=3 + n, password="pw", authentication="au", groups=[]))
    p.interfaces = itfs
    return p


# ---------------------------------------------------------------------------
# a real XKNX started through KNXIPInterface against the scripted tunnelling gateway (vlib/peers_tunnel.py, read-only)

@contextmanager
def sync_keyring_loading() -> Iterator[None]:
    """`load_keyring` as used by KNXIPInterface reads the file in a worker thread; on the virtual loop the harness
    rebinds that module-level name to a coroutine doing the same work synchronously (restored on exit)."""
    import xknx.io.knxip_interface as mod
    from xknx.secure.keyring import sync_load_keyring

    original = mod.load_keyring

    async def load_keyring(path: Any, password: str) -> Any:
        return sync_load_keyring(path, password)

    mod.load_keyring = load_keyring  # type: ignore[assignment]
    try:
        yield
    finally:
        mod.load_keyring = original  # type: ignore[assignment]


def write_project_keyring(project: Any, rng: Any, path: str) -> None:
    """Write (replace) a .knxkeys file from a keyring_writer.Project."""
    from . import keyring_writer as W

    with open(path, "wb") as fh:
        fh.write(W.serialize(W.build_tree(project, rng), W.Style()))


class InterfaceSession:
    """One XKNX object, started / stopped / started again through the real interface against a scripted gateway."""

    def __init__(self, transport: str, secure_config: Any, own_devices: tuple[int, ...] = ()) -> None:
        from xknx.io import ConnectionConfig, ConnectionType

        from .peers_tunnel import Gateway
        from .vloop import new_loop

        self.loop = new_loop()
        self.gw = Gateway(self.loop)
        self.transport = transport
        self.gw_seq = 0
        self.burst: list[bytes] = []  # frames that follow the next ConnectResponse back to back
        self.right_after: list[bytes] = []  # frames that follow it 0..n ms later
        self.out: list[bytes] = []  # every cEMI frame the client handed to the tunnel (L_Data.req octets)
        self.telegrams: list[Telegram] = []
        self.issues: list[Telegram] = []
        ct = ConnectionType.TUNNELING_TCP if transport == "tcp" else ConnectionType.TUNNELING
        self.xknx = XKNX(connection_config=ConnectionConfig(connection_type=ct, gateway_ip="10.0.0.2", local_ip="10.0.0.1",
                                                            secure_config=secure_config))
        self.xknx.telegram_queue.register_telegram_received_cb(self.telegrams.append)
        self.xknx.telegram_queue.register_data_secure_group_key_issue_cb(self.issues.append)
        self.gw.after_connect_response = self._burst
        self.gw.listeners.append(self._on_event)

    def push(self, raw: bytes, delay: float | None = None) -> None:
        """Deliver a cEMI frame to the client now or later; the tunnelling sequence counter is taken at delivery time, so
        frames scheduled for the same instant can not overtake each other's counters."""
        if delay is None:
            self.gw.send_tunnelling_request(self.gw_seq, raw)
            self.gw_seq += 1
        else:
            # FIFO also for equal delays (the timer heap is not stable): frames leave the gateway in the order they were handed to it
            due = max(self.loop.time() + delay, getattr(self, "_last_due", 0.0) + 1e-6)
            self._last_due = due
            self.loop.call_at(due, self.push, raw)

    def _burst(self) -> None:
        for raw in self.burst:
            self.push(raw)
        for k, raw in enumerate(self.right_after):
            self.push(raw, delay=0.001 * k)
        self.burst, self.right_after = [], []

    def _on_event(self, _t: float, kind: str, info: dict[str, Any]) -> None:
        if kind == "tx" and info.get("type") == "ConnectRequest":
            self.gw_seq = 0  # a new connection counts from 0 again
        if kind == "tx" and info.get("type") == "TunnellingRequest":
            raw = bytes.fromhex(info["cemi"])
            self.out.append(raw)
            self.loop.call_later(0.01, lambda: self.push(bytes((CEMIMessageCode.L_DATA_CON.value,)) + raw[1:]))

    async def settle(self, t: float = 0.3) -> None:
        await asyncio.sleep(t)
        await self.xknx.join()

    def run(self, coro: Any, max_vtime: float = 900) -> Any:
        return self.loop.run(coro, max_vtime=max_vtime)

    def close(self) -> None:
        self.loop.finish()
