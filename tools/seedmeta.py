#!/venv/bin/python
"""Fold the output lines of tools/seedcheck.sh (file arg) into seeded/<dir>/meta.json ('verified' block)."""
import json, re, subprocess, sys, os
head = subprocess.run(["git","-C","/repo","rev-parse","--short","HEAD"],capture_output=True,text=True).stdout.strip()
for line in open(sys.argv[1], errors="replace"):
    m = re.match(r"(\S+): suite\[(.*?)\] demo_patched=(\d+) demo_clean=(\d+) check_(\w+) rc=(\d+)\s*(.*)", line)
    if not m: continue
    d, suite, dp, dc, tier, rc, mech = m.groups()
    d = d.rstrip(":")
    prop = d.split("-")[0]
    path = f"/verif/seeded/{d}/meta.json"
    if not os.path.exists(path): continue
    meta = json.load(open(path))
    meta["verified"] = {
        "ran": f"tools/seedcheck.sh seeded/{d} {prop} {tier}: patch applied to a scratch worktree of /repo@{head}; tools/repotest.sh on it; demo.py on patched tree and on /repo; `vlib.run {prop} --tier {tier}` with XKNX_SRC=<worktree>",
        "suite": suite, "demo_on_patched": int(dp), "demo_on_clean": int(dc),
        "check_tier": tier, "check_rc": int(rc), "caught": int(rc) == 1,
        "mechanisms": [x.strip() for x in mech.split("|") if x.strip()],
    }
    json.dump(meta, open(path, "w"), indent=1); open(path,"a").write("\n")
    print(d, "caught" if int(rc)==1 else "MISSED")
