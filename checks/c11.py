"""C11 any value accepted for sending becomes a wire-valid telegram."""

from __future__ import annotations

import datetime
import math
from typing import Any

from vlib.xk_harness import Harness, incoming, wire_payload, wire_valid
from xknx.devices import (
    Climate,
    ClimateMode,
    Cover,
    DateDevice,
    DateTimeDevice,
    ExposeSensor,
    Fan,
    Light,
    Notification,
    NumericValue,
    RawValue,
    Scene,
    Switch,
    TimeDevice,
)
from xknx.devices.climate import FanSpeedMode, SetpointShiftMode
from xknx.dpt import (
    DPTArray,
    DPTBase,
    DPTBinary,
    DPTComplex,
    DPTEnum,
    DPTNumeric,
    DPTPressure,
    DPTPressure2Byte,
    DPTTemperature,
    DPTValue1Count,
)
from xknx.dpt.dpt_10 import KNXDay, KNXTime
from xknx.dpt.dpt_11 import KNXDate
from xknx.dpt.dpt_18 import SceneControl
from xknx.dpt.dpt_19 import KNXDateTime
from xknx.dpt.dpt_20 import HVACControllerMode, HVACOperationMode, HVACStatus
from xknx.dpt.dpt_232 import RGBColor
from xknx.dpt.dpt_242 import XYYColor
from xknx.dpt.dpt_251 import RGBWColor
from xknx.exceptions import ConversionError
from xknx.mcp import GroupValueWriteInput, send_group_value_write
from xknx.remote_value import (
    RemoteValueBinaryHeatCool,
    RemoteValueBinaryOperationMode,
    RemoteValueByLength,
    RemoteValueColorRGB,
    RemoteValueColorRGBW,
    RemoteValueColorXYY,
    RemoteValueControllerMode,
    RemoteValueDate,
    RemoteValueDateTime,
    RemoteValueDptValue1Ucount,
    RemoteValueNumeric,
    RemoteValueOperationMode,
    RemoteValueRaw,
    RemoteValueScaling,
    RemoteValueSceneControl,
    RemoteValueSceneNumber,
    RemoteValueSensor,
    RemoteValueSetpointShift,
    RemoteValueStep,
    RemoteValueString,
    RemoteValueSwitch,
    RemoteValueTemp,
    RemoteValueTime,
    RemoteValueUpDown,
)
from xknx.remote_value.remote_value_climate_mode import RemoteValueHVACStatus
from xknx.tools import group_value_response, group_value_write

LEVEL = "exploration"
TECHNIQUE = (
    "runtime monitor: queue-delta observer on a real XKNX + serialisation oracle "
    "(CEMIFrame(L_DATA_REQ, CEMILData.init_from_telegram(t)).to_knx() and re-parse) on every newly queued telegram"
)
LEVEL_TEXT = (
    "Every RemoteValue subclass (constructor table incl. every numeric / enum / complex / string DPT through the generic ones), "
    "every device setter that takes a value, group_value_write/response with and without value_type, raw lists, and the MCP "
    "send_group_value_write are called with values across and beyond the type's range (boundaries +-1 step, negatives, >255 per octet, "
    "floats, +-2^31, 2^63, 1e300, nan, inf) and wrong-typed objects. Exploration: the value space is sampled (boundaries + seeded random)."
)
LEVEL_NOTE = (
    "Trusted: CEMIFrame/CEMILData/APCI serialisers as the definition of 'can be put on the wire' (C05/C13 check them). Judged: call returns => "
    "every newly queued telegram serialises without raising and re-parses to the queued payload; call raises => queue unchanged; numbers / "
    "number lists of the right kind that cannot be represented => ConversionError. Recorded only: exception class for wrong-typed objects, "
    "empty raw list (serialises as 6-bit 0), calls that neither raise nor queue (non-writable / unsupported feature)."
)

SHARDS = {"quick": 1, "thorough": 16}
TIMEOUT = {"quick": 300, "thorough": 3000}

GA = "1/2/3"
NAN = float("nan")
INF = float("inf")

WRONG_TYPED: list[Any] = [None, "abc", "12", "", b"\x01", [1], (1, 2), {}, {"a": 1}, 1j, object, datetime.time(1, 2, 3)]

CORE_NUMBERS: list[Any] = [
    0, 1, -1, 2, 50, 63, 64, 65, 100, 101, 127, 128, 129, 150, 200, 254, 255, 256, 257, 300, 360, 361, 1000, 4095, 32767,
    32768, -32768, -32769, 65535, 65536, 2**31 - 1, 2**31, -(2**31), -(2**31) - 1, 2**32 - 1, 2**32, 2**63 - 1, 2**63,
    -(2**63) - 1, 2**64, 10**30, 10**400, 0.4, 0.5, 0.6, 1.5, 99.5, 100.4, 100.6, 254.5, 255.4, 255.5, 255.6, -0.4, -0.5, -0.6,
    -273.0, -273.1, -274, 670760.0, 670760.96, 670761, 1e-9, 1e9, -1e9, 1e30, 3.4e38, 3.5e38, 1e300, -1e300, NAN, INF, -INF,
    True, False,
]  # fmt: skip


def _is_num(v: Any) -> bool:
    return isinstance(v, int | float)


def _is_int(v: Any) -> bool:
    return isinstance(v, int)


def _dict_of_json_scalars(v: Any) -> bool:
    """The dict form of a complex DPT value with scalar members: a member that cannot be represented must give ConversionError."""
    return isinstance(v, dict) and bool(v) and all(x is None or isinstance(x, bool | int | float | str) for x in v.values())


def _fields_are_ints(v: Any) -> bool:
    """Dataclass-like value whose numeric fields are all ints (a 'number list' of the right kind)."""
    slots = getattr(type(v), "__dataclass_fields__", None)
    if not slots:
        return False
    for name in slots:
        x = getattr(v, name)
        if isinstance(x, bool) or x is None or isinstance(x, int):
            continue
        if hasattr(type(x), "__members__"):  # enum member
            continue
        return False
    return True


class Lazy:
    """A value whose construction is part of the user's call expression (it may itself be refused by xknx)."""

    def __init__(self, text: str, fn: Any) -> None:
        self.text = text
        self.fn = fn

    def __repr__(self) -> str:
        return self.text


class Target:
    """One way of handing a value to xknx for sending."""

    def __init__(self, name: str, mech: str, make: Any, values: list[Any], judge_class: Any, record_only: str | None = None) -> None:
        self.name = name  # fully specific (goes to witness / fingerprint)
        self.mech = mech  # mechanism prefix (stable, coarse)
        self.make = make  # make(xknx) -> callable(value) (may be async)
        self.values = values
        self.judge_class = judge_class  # predicate(value): exception class is judged
        # set when a refusal of this target says nothing about the value (the statement is silent):
        # the value is not what gets sent, or the configuration refuses every value. Serialisability
        # of whatever is queued is still judged.
        self.record_only = record_only


def _num_values(ctx: Any, lo: Any = None, hi: Any = None, res: Any = None, extra: int | None = None) -> list[Any]:
    rng = ctx.rng
    if extra is None:
        extra = ctx.scale(6, 60)
    vals = list(CORE_NUMBERS)
    if lo is not None and hi is not None:
        step = res or 1
        for b in (lo, hi):
            vals += [b, b - step, b + step, b - step / 2, b + step / 2, b - step / 64, b + step / 64, b * 2 + 1, math.nextafter(b, INF), math.nextafter(b, -INF)]
        vals += [(lo + hi) / 2, (lo + hi) // 2]
        for _ in range(extra):
            span = hi - lo
            vals.append(lo + rng.random() * span)
            vals.append(rng.choice((lo, hi)) + rng.choice((-1, 1)) * span * rng.random() * rng.choice((0.001, 0.5, 3)))
    for _ in range(extra):
        vals.append(rng.randint(-(2**rng.randint(1, 66)), 2 ** rng.randint(1, 66)))
        vals.append(rng.uniform(-1, 1) * 10 ** rng.randint(-3, 40))
    return vals + WRONG_TYPED


def _raw_lists(ctx: Any) -> list[Any]:
    rng = ctx.rng
    out: list[Any] = [
        [], [0], [255], [256], [300], [-1], [1.5], [0.0], [True], [1, 2], (1, 2), (300,), (1, -2), [255, 256], [2**31], [2**64],
        [NAN], [None], ["1"], [[1]], b"", b"\x00", b"\xff\x01", bytearray(b"\x01"), [1] * 14, [255] * 15, [1] * 16, [0] * 253,
        [0] * 254, [7] * 255, [1] * 300, [1] * 13 + [256], 0, 1, 63, 64, 255, 256, -1, 2**31, True, False, 1.5, NAN, None, "1", "ab",
        {}, {1: 2}, DPTArray((1, 2)), Lazy("DPTArray(300)", lambda: DPTArray(300)), Lazy("DPTArray((1, -1))", lambda: DPTArray((1, -1))),
        Lazy("DPTArray((1.5,))", lambda: DPTArray((1.5,))), Lazy("DPTArray([0]*254)", lambda: DPTArray([0] * 254)), DPTArray(()), DPTBinary(1), DPTBinary(63), Lazy("DPTBinary(64)", lambda: DPTBinary(64)),
    ]  # fmt: skip
    for _ in range(ctx.scale(20, 3000)):
        n = rng.choice((1, 1, 2, 2, 3, 4, 6, 8, 14, 15, 20, 100, 253, 254))
        lst = [rng.randint(0, 255) for _ in range(n)]
        if rng.random() < 0.6:
            lst[rng.randrange(n)] = rng.choice((256, -1, 300, 1000, 2**16, 0.5, 255.0, -256, 2**40))
        out.append(lst if rng.random() < 0.7 else tuple(lst))
    return out


def _is_int_list(v: Any) -> bool:
    if isinstance(v, Lazy):
        return True  # DPTArray / DPTBinary built from ints
    if isinstance(v, DPTArray):
        v = v.value
    if isinstance(v, bool):
        return False
    if isinstance(v, int):
        return True
    return isinstance(v, list | tuple) and all(isinstance(x, int) for x in v)


# ---------------------------------------------------------------------------
# target table
# ---------------------------------------------------------------------------


def _rv_targets(ctx: Any) -> list[Target]:
    out: list[Target] = []

    def rv(name: str, mech: str, ctor: Any, values: list[Any], judge: Any, methods: tuple[str, ...] = ("set", "set_response", "value_respond"), prepare: Any = None) -> None:
        for m in methods:

            def make(xknx: Any, ctor: Any = ctor, m: str = m, prepare: Any = prepare) -> Any:
                obj = ctor(xknx)
                if prepare is not None:
                    prepare(obj)
                if m == "set_response":
                    return lambda v: obj.set(v, response=True)
                if m == "value_respond":

                    def value_respond(v: Any) -> None:
                        obj.value = v  # documented: raises ConversionError on invalid value
                        obj.respond()

                    return value_respond
                return getattr(obj, m)

            out.append(Target(f"{name}.{m}", f"{mech}.{m}", make, values, judge))

    nums = _num_values(ctx, 0, 100, 1)
    for rf, rt in ((0, 100), (0, 255), (100, 0), (255, 0), (-100, 100), (0, 1)):
        rv(f"RemoteValueScaling[{rf}..{rt}]", "RemoteValueScaling", lambda x, rf=rf, rt=rt: RemoteValueScaling(x, GA, range_from=rf, range_to=rt),
           _num_values(ctx, min(rf, rt), max(rf, rt), 1), _is_num)
    rv("RemoteValueDptValue1Ucount", "RemoteValueDptValue1Ucount", lambda x: RemoteValueDptValue1Ucount(x, GA), _num_values(ctx, 0, 255, 1), _is_num)
    rv("RemoteValueSceneNumber", "RemoteValueSceneNumber", lambda x: RemoteValueSceneNumber(x, GA), _num_values(ctx, 1, 64, 1), _is_num)
    rv("RemoteValueTemp", "RemoteValueTemp", lambda x: RemoteValueTemp(x, GA), _num_values(ctx, -273, 670760, 0.01), _is_num)
    for mode, step in ((SetpointShiftMode.DPT6010, 0.1), (SetpointShiftMode.DPT6010, 0.5), (SetpointShiftMode.DPT6010, 1), (SetpointShiftMode.DPT9002, 0.1)):
        rv(f"RemoteValueSetpointShift[{mode.name},{step}]", f"RemoteValueSetpointShift[{mode.name}]",
           lambda x, mode=mode, step=step: RemoteValueSetpointShift(x, GA, setpoint_shift_mode=mode, setpoint_shift_step=step),
           _num_values(ctx, -128 * step, 127 * step, step), _is_num)
    rv("RemoteValueSetpointShift[undetermined]", "RemoteValueSetpointShift[undetermined]", lambda x: RemoteValueSetpointShift(x, GA), nums, _is_num, methods=("set",))
    for n in (0, 1, 2, 4, 14):
        rv(f"RemoteValueRaw[{n}]", "RemoteValueRaw", lambda x, n=n: RemoteValueRaw(x, n, GA), _num_values(ctx, 0, 256 ** max(n, 1) - 1 if n else 63, 1), _is_int)
    for first in (DPTArray((1, 2)), DPTArray((1, 2, 3, 4))):
        rv(f"RemoteValueByLength[{len(first.value)}]", "RemoteValueByLength",
           lambda x: RemoteValueByLength(x, (DPTPressure, DPTPressure2Byte), GA), _num_values(ctx, 0, 670760, 0.01), _is_num,
           prepare=lambda o, first=first: o.from_knx(first))
    rv("RemoteValueByLength[undetermined]", "RemoteValueByLength[undetermined]", lambda x: RemoteValueByLength(x, (DPTPressure, DPTPressure2Byte), GA), nums[:30], _is_num, methods=("set",))

    # generic remote values over every registered DPT
    for dpt in DPTBase.dpt_class_tree():
        vt = dpt.dpt_number_str()
        main = dpt.dpt_main_number
        if issubclass(dpt, DPTNumeric):
            vals = _num_values(ctx, dpt.value_min, dpt.value_max, dpt.resolution, extra=ctx.scale(2, 40))
            rv(f"RemoteValueNumeric[{vt}]", f"RemoteValueNumeric[dpt{main}]", lambda x, vt=vt: RemoteValueNumeric(x, GA, value_type=vt), vals, _is_num, methods=("set",))
            rv(f"RemoteValueSensor[{vt}]", f"RemoteValueSensor[dpt{main}]", lambda x, vt=vt: RemoteValueSensor(x, GA, value_type=vt), vals[::3], _is_num, methods=("value_respond",))
        elif issubclass(dpt, DPTEnum):
            members = list(dpt.get_valid_values())
            vals = members + [m.name.lower() for m in members[:4]] + [m.value for m in members[:4]] + list(range(-1, 8)) + [255, 256, "nope", 1.5, NAN] + WRONG_TYPED
            rv(f"RemoteValueSensor[{vt}]", f"RemoteValueSensor[dpt{main}]", lambda x, vt=vt: RemoteValueSensor(x, GA, value_type=vt), vals, _is_int, methods=("set",))
        elif issubclass(dpt, DPTComplex):
            vals = _complex_values(ctx, dpt)
            rv(f"RemoteValueSensor[{vt}]", f"RemoteValueSensor[dpt{main}]", lambda x, vt=vt: RemoteValueSensor(x, GA, value_type=vt), vals, lambda v: _fields_are_ints(v) or _dict_of_json_scalars(v), methods=("set",))
        else:  # strings
            vals = ["", "a", "KNX is OK", "x" * 14, "x" * 15, "x" * 100, "äöü€", "\x00", "\udcff", "𝄞" * 14, 5, 1.5, None, b"abc", ["a"]]
            rv(f"RemoteValueString[{vt}]", "RemoteValueString", lambda x, vt=vt: RemoteValueString(x, GA, value_type=vt), vals, lambda v: False, methods=("set", "value_respond"))

    # fixed-type remote values
    bools = [True, False, 0, 1, 2, -1, 63, 64, 1.0, None, "on", [True]]
    for inv in (False, True):
        rv(f"RemoteValueSwitch[invert={inv}]", "RemoteValueSwitch", lambda x, inv=inv: RemoteValueSwitch(x, GA, invert=inv), bools, _is_int)
        rv(f"RemoteValueUpDown[invert={inv}]", "RemoteValueUpDown", lambda x, inv=inv: RemoteValueUpDown(x, GA, invert=inv),
           [RemoteValueUpDown.Direction.UP, RemoteValueUpDown.Direction.DOWN, RemoteValueStep.Direction.INCREASE, 0, 1, 2, "up", None, True], lambda v: False, methods=("set",))
        rv(f"RemoteValueStep[invert={inv}]", "RemoteValueStep", lambda x, inv=inv: RemoteValueStep(x, GA, invert=inv),
           [RemoteValueStep.Direction.INCREASE, RemoteValueStep.Direction.DECREASE, RemoteValueUpDown.Direction.UP, 0, 1, 2, "increase", None], lambda v: False, methods=("set",))
    ints = [0, 1, 255, 256, -1, 128, 1.5, None, "1", NAN, 2**31]
    rgb = [RGBColor(r, g, b) for r in ints[:6] for g in (0, 255, 256) for b in (0, -1)] + [RGBColor(1.5, 0, 0), RGBColor(None, 0, 0), RGBColor("1", 2, 3), RGBColor(NAN, 0, 0), (1, 2, 3), [1, 2, 3], 5, None, "red", {"red": 1, "green": 2, "blue": 3}, RGBWColor(1, 2, 3, 4)]
    rv("RemoteValueColorRGB", "RemoteValueColorRGB", lambda x: RemoteValueColorRGB(x, GA), rgb, _fields_are_ints)
    rgbw = [RGBWColor(r, 0, b, w) for r in (0, 255, 256, -1, None) for b in (0, 300, None) for w in (0, 255, 256, None)] + [RGBWColor(), RGBWColor(1.5, 0, 0, 0), RGBWColor("1", 0, 0, 0), RGBColor(1, 2, 3), (1, 2, 3, 4), None, 7]
    rv("RemoteValueColorRGBW", "RemoteValueColorRGBW", lambda x: RemoteValueColorRGBW(x, GA), rgbw, _fields_are_ints)
    xyy = [XYYColor(c, b) for c in (None, (0.0, 0.0), (1.0, 1.0), (1.1, 0.5), (-0.1, 0.5), (0.5,), (0.5, 0.5, 0.5), (NAN, 0.5), ("a", 1), (1, 1), 5) for b in (None, 0, 255, 256, -1, 1.5)] + [XYYColor(), None, 5, (0.1, 0.2), RGBColor(1, 2, 3)]
    rv("RemoteValueColorXYY", "RemoteValueColorXYY", lambda x: RemoteValueColorXYY(x, GA), xyy, lambda v: False)
    times = [KNXTime(h, m, s, d) for h in (0, 23, 24, -1, 31, 32) for m in (0, 59, 60) for s in (0, 59, 60, -1) for d in (KNXDay.NO_DAY, KNXDay.SUNDAY)] + [KNXTime(1.5, 0, 0), KNXTime(None, 0, 0), KNXTime(1, 2, 3, 9), datetime.time(1, 2, 3), None, 5, "12:00:00", {"hour": 1, "minutes": 2, "seconds": 3}]
    rv("RemoteValueTime", "RemoteValueTime", lambda x: RemoteValueTime(x, GA), times, _fields_are_ints)
    dates = [KNXDate(y, m, d) for y in (1989, 1990, 2000, 2089, 2090, 0, 99, -1) for m in (0, 1, 12, 13) for d in (0, 1, 31, 32)] + [KNXDate(2000.5, 1, 1), KNXDate(None, 1, 1), datetime.date(2024, 2, 29), None, 5, "2024-01-01"]
    rv("RemoteValueDate", "RemoteValueDate", lambda x: RemoteValueDate(x, GA), dates, _fields_are_ints)
    dts = [KNXDateTime(y, mo, d, h, mi, s) for y in (1899, 1900, 2155, 2156) for mo in (0, 1, 12, 13) for d in (0, 1, 31, 32) for h in (0, 24, 25) for mi in (0, 59, 60) for s in (0, 60)]
    dts = dts[:: ctx.scale(7, 1)] + [KNXDateTime(2024, 1, 1, 24, 0, 0), KNXDateTime(2024, 1, 1, 24, 0, 1), KNXDateTime(2024.5, 1, 1, 1, 1, 1), KNXDateTime(None, 1, 1, 1, 1, 1), datetime.datetime(2024, 1, 1), None, 5]
    rv("RemoteValueDateTime", "RemoteValueDateTime", lambda x: RemoteValueDateTime(x, GA), dts, _fields_are_ints)
    scs = [SceneControl(n, learn) for n in (0, 1, 64, 65, -1, 128, 255, 256) for learn in (False, True)] + [SceneControl(1.5), SceneControl(None), SceneControl("1"), SceneControl(1, 5), 1, None, {"scene_number": 1}]
    rv("RemoteValueSceneControl", "RemoteValueSceneControl", lambda x: RemoteValueSceneControl(x, GA), scs, _fields_are_ints)
    opm = list(HVACOperationMode) + list(HVACControllerMode)[:3] + [0, 1, 5, 255, "comfort", None]
    rv("RemoteValueOperationMode", "RemoteValueOperationMode", lambda x: RemoteValueOperationMode(x, GA), opm, _is_int, methods=("set", "set_operation_mode"))
    rv("RemoteValueControllerMode", "RemoteValueControllerMode", lambda x: RemoteValueControllerMode(x, GA), list(HVACControllerMode) + list(HVACOperationMode)[:2] + [0, 20, 21, "heat", None], _is_int, methods=("set", "set_controller_mode"))
    for mode in HVACOperationMode:
        rv(f"RemoteValueBinaryOperationMode[{mode.name}]", "RemoteValueBinaryOperationMode", lambda x, mode=mode: RemoteValueBinaryOperationMode(x, GA, operation_mode=mode), opm, lambda v: False, methods=("set", "set_operation_mode"))
    rv("RemoteValueBinaryHeatCool", "RemoteValueBinaryHeatCool", lambda x: RemoteValueBinaryHeatCool(x, GA, controller_mode=HVACControllerMode.HEAT), list(HVACControllerMode) + [0, 1, None, "heat"], lambda v: False, methods=("set", "set_controller_mode"))
    from xknx.dpt.dpt_1 import HeatCool

    stat = [HVACStatus(m, dew, hc, ina, fr) for m in HVACOperationMode for dew in (False, True) for hc in HeatCool for ina in (False,) for fr in (False, True)] + [HVACStatus(5, False, HeatCool.HEAT, False, False), HVACStatus(HVACOperationMode.COMFORT, 2, HeatCool.HEAT, False, False), HVACStatus(HVACOperationMode.COMFORT, False, 1, False, False), None, 1, "comfort"]
    rv("RemoteValueHVACStatus", "RemoteValueHVACStatus", lambda x: RemoteValueHVACStatus(x, GA), stat, lambda v: False, methods=("set",))
    for prep in (None, DPTArray(0x21), DPTArray(0xFF)):
        rv(f"RemoteValueHVACStatus[state={prep}]", "RemoteValueHVACStatus", lambda x: RemoteValueHVACStatus(x, GA), list(HVACOperationMode) + list(HVACControllerMode), lambda v: False,
           methods=("set_operation_mode", "set_controller_mode"), prepare=(lambda o, prep=prep: o.process(incoming(GA, prep))) if prep is not None else None)

    return out


def _complex_values(ctx: Any, dpt: Any) -> list[Any]:
    """Values for a complex DPT: decode images of random payloads, their dict forms, perturbed dicts, junk."""
    rng = ctx.rng
    vals: list[Any] = []
    n = dpt.payload_length
    for i in range(ctx.scale(10, 120)):
        raw = bytes(rng.choice((0, 1, 0x7F, 0x80, 0xFF, rng.randrange(256))) for _ in range(n)) if i else bytes(n)
        try:
            v = dpt.from_knx(DPTArray(raw) if dpt.payload_type is DPTArray else DPTBinary(raw[0] & (2**n - 1) if n < 6 else raw[0] & 0x3F))
        except Exception:  # noqa: BLE001
            continue
        vals.append(v)
        d = v.as_dict()
        vals.append(d)
        if d:
            k = rng.choice(sorted(d))
            for bad in (-1, 256, 65536, 2**32, 1.5, None, "x", NAN, 10**30, INF, -INF, 10**400, 1e300):
                d2 = dict(d)
                d2[k] = bad
                vals.append(d2)
            d3 = dict(d)
            d3.pop(k)
            vals.append(d3)
    return vals + [0, 1, 255, -1, 1.5, NAN] + WRONG_TYPED


def _device_targets(ctx: Any) -> list[Target]:
    out: list[Target] = []

    def dev(name: str, make: Any, values: list[Any], judge: Any, mech: str | None = None, record_only: str | None = None) -> None:
        out.append(Target(name, mech or name.split("[")[0], make, values, judge, record_only))

    pct = _num_values(ctx, 0, 100, 1)
    byte = _num_values(ctx, 0, 255, 1)
    temp = _num_values(ctx, -50, 100, 0.1)
    bools = [True, False, 0, 1, 2, None, "on"]

    # Climate
    dev("Climate.set_target_temperature[plain]", lambda x: Climate(x, "c", group_address_target_temperature=GA).set_target_temperature, temp, _is_num)
    dev("Climate.set_target_temperature[min/max]", lambda x: Climate(x, "c", group_address_target_temperature=GA, min_temp=7, max_temp=35).set_target_temperature, temp, _is_num)

    def climate_shift(x: Any, mode: Any, step: float, writable_target: bool) -> Climate:
        c = Climate(x, "c", group_address_target_temperature="1/2/4" if writable_target else None, group_address_target_temperature_state="1/2/5",
                    group_address_setpoint_shift=GA, group_address_setpoint_shift_state="1/2/6", setpoint_shift_mode=mode, temperature_step=step)
        c.process(incoming("1/2/5", DPTTemperature.to_knx(21.0)))
        c.process(incoming("1/2/6", DPTValue1Count.to_knx(10) if mode is SetpointShiftMode.DPT6010 else DPTTemperature.to_knx(1.0)))
        return c

    for mode in SetpointShiftMode:
        for step in (0.1, 0.5):
            for wt in (False, True):
                tag = f"{mode.name},{step},{'target-writable' if wt else 'shift-only'}"
                dev(f"Climate.set_setpoint_shift[{tag}]", lambda x, mode=mode, step=step, wt=wt: climate_shift(x, mode, step, wt).set_setpoint_shift, _num_values(ctx, -6, 6, step), _is_num)
                dev(f"Climate.set_target_temperature[{tag}]", lambda x, mode=mode, step=step, wt=wt: climate_shift(x, mode, step, wt).set_target_temperature, temp, _is_num)
    def climate_extreme(x: Any, target: float, shift: int) -> Climate:
        c = Climate(x, "c", group_address_target_temperature="1/2/4", group_address_target_temperature_state="1/2/5", group_address_setpoint_shift=GA,
                    group_address_setpoint_shift_state="1/2/6", setpoint_shift_mode=SetpointShiftMode.DPT6010, temperature_step=0.1)
        c.process(incoming("1/2/5", DPTTemperature.to_knx(target)))
        c.process(incoming("1/2/6", DPTValue1Count.to_knx(shift)))
        return c

    # target temperature at the edge of DPT 9.001 on the bus: the derived new target (base + offset) may not be representable
    for target, shift in ((670760.0, -127), (-273.0, 127), (670000.0, 0)):
        dev(f"Climate.set_setpoint_shift[target-state={target},shift-state={shift}]", lambda x, target=target, shift=shift: climate_extreme(x, target, shift).set_setpoint_shift,
            [-6, -1, 0, 0.5, 1, 6, 100, NAN], _is_num, mech="Climate.set_setpoint_shift")
        dev(f"Climate.set_target_temperature[target-state={target},shift-state={shift}]", lambda x, target=target, shift=shift: climate_extreme(x, target, shift).set_target_temperature,
            [-300, -273, 0, 21, 670760, 670761, 1e9], _is_num, mech="Climate.set_target_temperature")
    for fsm in FanSpeedMode:
        dev(f"Climate.set_fan_speed[{fsm.name}]", lambda x, fsm=fsm: Climate(x, "c", group_address_fan_speed=GA, fan_speed_mode=fsm).set_fan_speed, pct, _is_num)
    dev("Climate.set_swing", lambda x: Climate(x, "c", group_address_swing=GA).set_swing, bools, _is_int)
    dev("Climate.set_horizontal_swing", lambda x: Climate(x, "c", group_address_horizontal_swing=GA).set_horizontal_swing, bools, _is_int)
    dev("Climate.turn_on/off", lambda x: _noarg(Climate(x, "c", group_address_on_off=GA), "turn_on", "turn_off"), ["turn_on", "turn_off"], lambda v: False)

    # ClimateMode
    def cm(x: Any) -> ClimateMode:
        m = ClimateMode(x, "m", group_address_operation_mode="1/2/3", group_address_operation_mode_protection="1/2/4", group_address_operation_mode_economy="1/2/5",
                        group_address_operation_mode_comfort="1/2/6", group_address_operation_mode_standby="1/2/7", group_address_controller_status="1/2/8",
                        group_address_controller_mode="1/2/9", group_address_heat_cool="1/2/10")
        return m

    def cm_with_status(x: Any) -> ClimateMode:
        m = cm(x)
        m.process(incoming("1/2/8", DPTArray(0x21)))
        return m

    # "no-status": a writable controller-status address whose current status was never received refuses every
    # mode ("HVACStatus value not initialized") after the other mode objects were written: a refusal because of
    # missing device state, not because of the value -> recorded.
    for tag, mk, ro in (("no-status", cm, "state_dependent_refusal"), ("status-known", cm_with_status, None)):
        dev(f"ClimateMode.set_operation_mode[{tag}]", lambda x, mk=mk: mk(x).set_operation_mode, list(HVACOperationMode) + [HVACControllerMode.HEAT, 1, "comfort", None], lambda v: False, record_only=ro)
        dev(f"ClimateMode.set_controller_mode[{tag}]", lambda x, mk=mk: mk(x).set_controller_mode, list(HVACControllerMode) + [HVACOperationMode.AUTO, 1, "heat", None], lambda v: False, record_only=ro)

    # Cover
    for inv in (False, True):
        dev(f"Cover.set_position[position-ga,invert={inv}]", lambda x, inv=inv: Cover(x, "c", group_address_long="1/2/4", group_address_position=GA, invert_position=inv).set_position, pct, _is_num)
        dev(f"Cover.set_angle[invert={inv}]", lambda x, inv=inv: Cover(x, "c", group_address_long="1/2/4", group_address_angle=GA, invert_angle=inv).set_angle, pct, _is_num)
    # without a position address the number only selects up/down and feeds the travel calculator; it is never sent
    dev("Cover.set_position[updown-only]", lambda x: Cover(x, "c", group_address_long=GA, group_address_stop="1/2/4").set_position, pct, _is_num, record_only="value_not_sent")

    def cover_known(x: Any) -> Any:
        c = Cover(x, "c", group_address_long=GA, group_address_stop="1/2/4", group_address_position_state="1/2/5")
        c.process(incoming("1/2/5", DPTArray(128)))
        return c.set_position

    dev("Cover.set_position[updown-only,position-known]", cover_known, pct, _is_num, record_only="value_not_sent")
    dev("Cover.commands", lambda x: _noarg(Cover(x, "c", group_address_long=GA, group_address_short="1/2/4", group_address_stop="1/2/5"), "set_up", "set_down", "set_short_up", "set_short_down", "stop"),
        ["set_up", "set_down", "set_short_up", "set_short_down", "stop"], lambda v: False)
    dev("Cover.commands[position-only]", lambda x: _noarg(Cover(x, "c", group_address_position=GA), "set_up", "set_down"), ["set_up", "set_down"], lambda v: False)

    # date / time devices
    t_vals = [datetime.time(0, 0, 0), datetime.time(23, 59, 59, 999999), KNXTime(24, 0, 0), KNXTime(23, 59, 59), KNXTime(-1, 0, 0), KNXTime(0, 60, 0), 5, None, "12:00"]
    dev("TimeDevice.set", lambda x: TimeDevice(x, "t", localtime=False, group_address=GA).set, t_vals, _fields_are_ints)
    d_vals = [datetime.date(1990, 1, 1), datetime.date(1989, 12, 31), datetime.date(2089, 12, 31), datetime.date(2090, 1, 1), datetime.date(1, 1, 1), datetime.date(9999, 12, 31), KNXDate(2000, 2, 30), KNXDate(2000, 13, 1), 5, None]
    dev("DateDevice.set", lambda x: DateDevice(x, "d", localtime=False, group_address=GA).set, d_vals, _fields_are_ints)
    dt_vals = [datetime.datetime(1900, 1, 1), datetime.datetime(1899, 12, 31), datetime.datetime(2155, 12, 31, 23, 59, 59), datetime.datetime(2156, 1, 1), datetime.datetime(1, 1, 1), datetime.datetime(9999, 12, 31),
               datetime.datetime(2024, 2, 29, 12, 0, tzinfo=datetime.UTC), KNXDateTime(2024, 1, 1, 24, 0, 0), KNXDateTime(2024, 1, 1, 25, 0, 0), datetime.date(2024, 1, 1), 5, None]
    dev("DateTimeDevice.set", lambda x: DateTimeDevice(x, "d", localtime=False, group_address=GA).set, dt_vals, _fields_are_ints)
    for cls in (TimeDevice, DateDevice, DateTimeDevice):
        dev(f"{cls.__name__}.broadcast_localtime", lambda x, cls=cls: (lambda v, d=cls(x, "d", localtime=True, group_address=GA): d.broadcast_localtime(response=v)), [False, True], lambda v: False)

    # ExposeSensor / NumericValue / RawValue / Notification / Scene / Switch / Fan / Light
    for dpt in DPTBase.dpt_class_tree():
        vt = dpt.dpt_number_str()
        main = dpt.dpt_main_number
        if issubclass(dpt, DPTNumeric):
            vals = _num_values(ctx, dpt.value_min, dpt.value_max, dpt.resolution, extra=2)[:: ctx.scale(4, 1)]
            dev(f"ExposeSensor.set[{vt}]", lambda x, vt=vt: ExposeSensor(x, "e", group_address=GA, value_type=vt).set, vals, _is_num, mech=f"ExposeSensor.set[dpt{main}]")
            dev(f"NumericValue.set[{vt}]", lambda x, vt=vt: NumericValue(x, "n", group_address=GA, value_type=vt).set, vals[1::2], _is_num, mech=f"NumericValue.set[dpt{main}]")
    dev("ExposeSensor.set[binary]", lambda x: ExposeSensor(x, "e", group_address=GA, value_type="binary").set, bools + [64, -1], _is_int)
    dev("ExposeSensor.set[string]", lambda x: ExposeSensor(x, "e", group_address=GA, value_type="string").set, ["", "abc", "x" * 14, "x" * 15, "€" * 14, 5, None], lambda v: False)
    dev("ExposeSensor.set[cooldown,skip_unchanged]", lambda x: (lambda v, e=ExposeSensor(x, "e", group_address=GA, value_type="percent", cooldown=0): e.set(v, skip_unchanged=True)), pct, _is_num)
    for n in (0, 1, 2):
        dev(f"RawValue.set[{n}]", lambda x, n=n: RawValue(x, "r", n, group_address=GA).set, _num_values(ctx, 0, 256 ** max(n, 1) - 1 if n else 63, 1), _is_int)
    for vt in ("string", "latin_1"):
        dev(f"Notification.set[{vt}]", lambda x, vt=vt: Notification(x, "n", group_address=GA, value_type=vt).set, ["", "abc", "x" * 14, "x" * 15, "x" * 1000, "€" * 20, "ä" * 14, "\udcff", 5, None, b"abc", ["a", "b"]], lambda v: False)
    scene_numbers = [1, 2, 64, 0, 65, -1, 128, 255, 256, 2**31]
    dev("Scene.run", lambda x: (lambda v: Scene(x, "s", group_address=GA, scene_number=v).run()), scene_numbers, _is_int)
    dev("Scene.learn", lambda x: (lambda v: Scene(x, "s", group_address=GA, scene_number=v).learn()), scene_numbers, _is_int)
    dev("Switch.set_on/off", lambda x: _noarg(Switch(x, "s", group_address=GA), "set_on", "set_off"), ["set_on", "set_off"], lambda v: False)
    dev("Switch.set_on/off[invert]", lambda x: _noarg(Switch(x, "s", group_address=GA, invert=True), "set_on", "set_off"), ["set_on", "set_off"], lambda v: False)

    for ms in (None, 3, 255):
        dev(f"Fan.set_speed[max_step={ms}]", lambda x, ms=ms: Fan(x, "f", group_address_speed=GA, max_step=ms).set_speed, pct, _is_num)
        dev(f"Fan.turn_on[speed-only,max_step={ms}]", lambda x, ms=ms: Fan(x, "f", group_address_speed=GA, max_step=ms).turn_on, pct[: len(CORE_NUMBERS)] + [None], _is_num)
        dev(f"Fan.turn_on[switch+speed,max_step={ms}]", lambda x, ms=ms: Fan(x, "f", group_address_speed=GA, group_address_switch="1/2/4", max_step=ms).turn_on, pct[: len(CORE_NUMBERS)] + [None], _is_num)
    dev("Fan.set_oscillation", lambda x: Fan(x, "f", group_address_speed="1/2/4", group_address_oscillation=GA).set_oscillation, bools, _is_int)
    dev("Fan.turn_off", lambda x: _noarg(Fan(x, "f", group_address_speed=GA), "turn_off"), ["turn_off"], lambda v: False)

    dev("Light.set_brightness", lambda x: Light(x, "l", group_address_switch="1/2/4", group_address_brightness=GA).set_brightness, byte, _is_num)
    dev("Light.set_tunable_white", lambda x: Light(x, "l", group_address_switch="1/2/4", group_address_tunable_white=GA).set_tunable_white, byte, _is_num)
    from xknx.devices.light import ColorTemperatureType

    for ctt in ColorTemperatureType:
        dev(f"Light.set_color_temperature[{ctt.name}]", lambda x, ctt=ctt: Light(x, "l", group_address_switch="1/2/4", group_address_color_temperature=GA, color_temperature_type=ctt).set_color_temperature,
            _num_values(ctx, 0, 65535, 1), _is_num)
    comps = [0, 1, 255, 256, -1, 300, 1.5, 127.5, NAN, None, "1"]
    colors = [(r, g, b) for r in comps for g in (0, 255, 256) for b in (0, -1, 255)] + [(1, 2), (1, 2, 3, 4), 5, None, "red", [1, 2, 3]]
    whites = [None, 0, 255, 256, -1, 1.5]

    def _tuple_of_ints(v: Any) -> bool:
        c, w = v
        return isinstance(c, tuple | list) and len(c) == 3 and all(isinstance(i, int) for i in c) and (w is None or isinstance(w, int))

    cw = [(c, w) for i, c in enumerate(colors) for w in (whites if i % 5 == 0 else whites[:2])]
    light_cfgs = {
        "rgb-ga": dict(group_address_color=GA),
        "rgbw-ga": dict(group_address_color="1/2/4", group_address_rgbw=GA),
        "individual-rgb": dict(group_address_brightness_red="1/3/1", group_address_brightness_green="1/3/2", group_address_brightness_blue="1/3/3"),
        "individual-rgbw": dict(group_address_brightness_red="1/3/1", group_address_brightness_green="1/3/2", group_address_brightness_blue="1/3/3", group_address_brightness_white="1/3/4"),
    }
    for tag, cfg in light_cfgs.items():
        dev(f"Light.set_color[{tag}]", lambda x, cfg=cfg: (lambda v, li=Light(x, "l", group_address_switch="1/2/9", **cfg): li.set_color(v[0], v[1])), cw, _tuple_of_ints)
    hs = [(h, s) for h in (0, 180, 360, 361, -1, 359.9, NAN, None) for s in (0, 50, 100, 101, -1, 99.6, INF, "a")] + [(1,), 5, None]
    dev("Light.set_hs_color", lambda x: Light(x, "l", group_address_switch="1/2/9", group_address_hue="1/3/1", group_address_saturation="1/3/2").set_hs_color, hs,
        lambda v: isinstance(v, tuple) and len(v) == 2 and all(_is_num(i) for i in v))
    xyys = [XYYColor((0.3, 0.4), 100), XYYColor((1.0, 1.0), 255), XYYColor((1.1, 0), 0), XYYColor((0.5, 0.5), 256), XYYColor(None, None), XYYColor((0.5, 0.5), -1), XYYColor(brightness=1.5), None, 5]
    dev("Light.set_xyy_color", lambda x: Light(x, "l", group_address_switch="1/2/9", group_address_xyy_color=GA).set_xyy_color, xyys, lambda v: False)
    dev("Light.set_on/off[switch]", lambda x: _noarg(Light(x, "l", group_address_switch=GA), "set_on", "set_off"), ["set_on", "set_off"], lambda v: False)
    dev("Light.set_on/off[individual]", lambda x: _noarg(Light(x, "l", **light_cfgs["individual-rgbw"]), "set_on", "set_off"), ["set_on", "set_off"], lambda v: False)
    return out


def _noarg(obj: Any, *names: str) -> Any:
    def call(name: str) -> Any:
        return getattr(obj, name)()

    return call


def _value_respond(rv: Any, v: Any) -> None:
    rv.value = v
    rv.respond()


def _helper_targets(ctx: Any) -> list[Target]:
    out: list[Target] = []
    raw = _raw_lists(ctx)
    for fname, fn in (("group_value_write", group_value_write), ("group_value_response", group_value_response)):
        out.append(Target(f"{fname}[raw]", f"{fname}[raw]", lambda x, fn=fn: (lambda v: fn(x, GA, v)), raw, _is_int_list))
        out.append(Target(f"{fname}[raw,int-address]", f"{fname}[raw]", lambda x, fn=fn: (lambda v: fn(x, 2051, v)), raw[:: ctx.scale(5, 1)], _is_int_list))
    out.append(Target("mcp.send_group_value_write[raw]", "mcp.send_group_value_write[raw]",
                      lambda x: (lambda v: send_group_value_write(x, GroupValueWriteInput(group_address=GA, value=v))),
                      [v for v in raw if not isinstance(v, DPTArray | DPTBinary | bytes | bytearray | tuple | Lazy)], _is_int_list))
    for dpt in DPTBase.dpt_class_tree():
        vt = dpt.dpt_number_str()
        main = dpt.dpt_main_number
        if issubclass(dpt, DPTNumeric):
            vals = _num_values(ctx, dpt.value_min, dpt.value_max, dpt.resolution, extra=ctx.scale(1, 30))
            judge: Any = _is_num
        elif issubclass(dpt, DPTEnum):
            members = list(dpt.get_valid_values())
            vals = [m.name.lower() for m in members] + [m.value for m in members] + [-1, 255, 256, "nope", 1.5, None, [1]]
            judge = _is_int
        elif issubclass(dpt, DPTComplex):
            vals = [v for v in _complex_values(ctx, dpt) if isinstance(v, dict | int | float | str | list) or v is None]
            judge = _dict_of_json_scalars
        else:
            vals = ["", "abc", "x" * 14, "x" * 15, "€uro", 5, None, ["a"]]
            judge = lambda v: False  # noqa: E731
        q = ctx.scale(3, 1)
        out.append(Target(f"group_value_write[{vt}]", f"group_value_write[dpt{main}]", lambda x, vt=vt: (lambda v: group_value_write(x, GA, v, value_type=vt)), vals[::q], judge))
        out.append(Target(f"group_value_write[class {dpt.__name__}]", f"group_value_write[dpt{main}]", lambda x, dpt=dpt: (lambda v: group_value_write(x, GA, v, value_type=dpt)), vals[1::q * 2], judge))
        out.append(Target(f"group_value_response[{vt}]", f"group_value_response[dpt{main}]", lambda x, vt=vt: (lambda v: group_value_response(x, GA, v, value_type=vt)), vals[2::q * 2], judge))
        if dpt.value_type:
            out.append(Target(f"mcp.send_group_value_write[{dpt.value_type}]", f"mcp.send_group_value_write[dpt{main}]",
                              lambda x, vt=dpt.value_type: (lambda v: send_group_value_write(x, GroupValueWriteInput(group_address=GA, value=v, value_type=vt))), vals[::q], judge))
    # value_type objects that are not a concrete DPT: every non-concrete node of the DPT class tree and DPT-ish junk,
    # through every entry point that takes a value_type object. The object is built inside the call, so a refusal at
    # construction is a refusal of the call (class recorded); whatever is accepted must still serialise.
    concrete = set(DPTBase.dpt_class_tree())

    def _walk(c: Any) -> Any:
        for sub in c.__subclasses__():
            yield sub
            yield from _walk(sub)

    non_concrete = [c for c in dict.fromkeys([DPTBase, *_walk(DPTBase)]) if c not in concrete]
    import types as _types

    junk_types: list[tuple[str, Any]] = [(f"abstract {c.__name__}", c) for c in non_concrete] + [
        ("class int", int), ("class DPTArray", DPTArray), ("class object", object), ("module", _types), ("DPTArray instance", DPTArray((1,))),
        ("empty tuple", ()), ("list of class", [DPTTemperature]), ("bytes", b"9.001"), ("float", 9.001), ("True", True), ("lambda", lambda: DPTTemperature),
    ]
    try:
        junk_types.append(("DPT instance", DPTTemperature()))
    except Exception:  # noqa: BLE001 - not instantiable: nothing to pass
        pass
    jvals = [0, 1, 21.5, -1, 255, 256, True, "abc", "comfort", None, [1, 2], {"red": 1, "green": 2, "blue": 3}]
    never = lambda v: False  # noqa: E731 - a refusal here is about the value_type, not the value
    for label, vt in junk_types:
        mech = "abstract-dpt-class" if label.startswith("abstract") else "junk-value-type"
        entries: list[tuple[str, Any]] = [
            ("group_value_write", lambda x, vt=vt: (lambda v: group_value_write(x, GA, v, value_type=vt))),
            ("group_value_response", lambda x, vt=vt: (lambda v: group_value_response(x, GA, v, value_type=vt))),
            ("mcp.send_group_value_write", lambda x, vt=vt: (lambda v: send_group_value_write(x, GroupValueWriteInput(group_address=GA, value=v, value_type=vt)))),
            ("NumericValue.set", lambda x, vt=vt: (lambda v: NumericValue(x, "n", group_address=GA, value_type=vt).set(v))),
            ("ExposeSensor.set", lambda x, vt=vt: (lambda v: ExposeSensor(x, "e", group_address=GA, value_type=vt).set(v))),
            ("Notification.set", lambda x, vt=vt: (lambda v: Notification(x, "n", group_address=GA, value_type=vt).set(str(v)))),
            ("RemoteValueSensor.set", lambda x, vt=vt: (lambda v: RemoteValueSensor(x, GA, value_type=vt).set(v))),
            ("RemoteValueNumeric.set", lambda x, vt=vt: (lambda v: RemoteValueNumeric(x, GA, value_type=vt).set(v))),
            ("RemoteValueString.set", lambda x, vt=vt: (lambda v: RemoteValueString(x, GA, value_type=vt).set(v))),
            ("RemoteValueSensor.value_respond", lambda x, vt=vt: (lambda v: _value_respond(RemoteValueSensor(x, GA, value_type=vt), v))),
        ]
        for ename, mk in entries:
            out.append(Target(f"{ename}[value_type={label}]", f"{ename}[{mech}]", mk, jvals, never))
    # unknown value types / bad addresses: refusal must not queue
    for bad_vt in ("no_such_type", "9.999", 9.001, ("a",)):
        out.append(Target(f"group_value_write[value_type={bad_vt!r}]", "group_value_write[unknown-value-type]", lambda x, bad_vt=bad_vt: (lambda v: group_value_write(x, GA, v, value_type=bad_vt)), [1, 21.5, [1]], lambda v: False))
    for bad_ga in ("", "99/99/99", "1/2/3/4", -1, 65536, None, "a"):
        out.append(Target(f"group_value_write[address={bad_ga!r}]", "group_value_write[bad-address]", lambda x, bad_ga=bad_ga: (lambda v: group_value_write(x, bad_ga, v)), [1, [1, 2]], lambda v: False))
        if isinstance(bad_ga, str):
            out.append(Target(f"mcp.send_group_value_write[address={bad_ga!r}]", "mcp.send_group_value_write[bad-address]",
                              lambda x, bad_ga=bad_ga: (lambda v: send_group_value_write(x, GroupValueWriteInput(group_address=bad_ga, value=v))), [1, [1, 2]], lambda v: False))
    return out


# ---------------------------------------------------------------------------
# oracle
# ---------------------------------------------------------------------------


def _shape(v: Any) -> str:
    if isinstance(v, bool):
        return "bool"
    if isinstance(v, int):
        return "int-" + ("neg" if v < 0 else "small" if v < 256 else "u16" if v < 65536 else "u32" if v < 2**32 else "huge")
    if isinstance(v, float):
        return "float-" + ("nan" if v != v else "inf" if v in (INF, -INF) else "frac" if v != int(v) else "whole")
    if isinstance(v, list | tuple):
        return f"{type(v).__name__}[{min(len(v), 16)}]"
    return type(v).__name__


def _r(obj: Any, limit: int = 200) -> str:
    """repr that survives payload objects holding non-integers."""
    obj = getattr(obj, "value", obj) if type(obj).__name__.startswith("GroupValue") else obj
    if isinstance(obj, int) and not isinstance(obj, bool) and abs(obj) >= 10**40:
        return f"<int of {len(str(abs(obj)))} digits: {'-' if obj < 0 else ''}{str(abs(obj))[:6]}...>"
    try:
        return repr(obj)[:limit]
    except BaseException:  # noqa: BLE001 - DPTArray.__repr__ calls hex() on its members
        return f"{type(obj).__name__}({getattr(obj, 'value', '?')!r})"[:limit]


def _judge_one(ctx: Any, h: Harness, target: Target, value: Any, witness_extra: dict[str, Any] | None = None) -> str:
    leftovers = h.drain()
    if leftovers:  # harness invariant
        ctx.inconclusive(f"queue not empty before call of {target.name}")
    ctx.ev()
    exc: BaseException | None = None
    stage = "build"
    try:
        fn = target.make(h.xknx)
        h.drain()  # state preparation never counts
        stage = "call"
        h.call(fn, value.fn() if isinstance(value, Lazy) else value)
    except BaseException as e:  # noqa: BLE001 - every outcome is an observation
        exc = e
    new = h.drain()
    wit = {"target": target.name, "value": _r(value), "value_type": type(value).__name__}
    if witness_extra:
        wit.update(witness_extra)
    if exc is not None and stage == "build":
        ctx.inconclusive(f"target {target.name} could not be built: {exc!r}")
        return "build-error"
    judged_class = False
    try:
        judged_class = bool(target.judge_class(value))
    except Exception:  # noqa: BLE001
        judged_class = False
    if exc is None:
        if not new:
            ctx.count("calls_returned_without_queueing")
            ctx.distinct((target.mech, "noop", _shape(value)))
            return "noop"
        ctx.count("calls_accepted")
        outcome = "accepted"
        for t in new:
            ctx.count("telegrams_queued")
            ok, res = wire_valid(t)
            if not ok:
                outcome = "accepted-unserialisable"
                value_obj = getattr(t.payload, "value", None)
                too_long = isinstance(value_obj, DPTArray) and len(value_obj.value) > 253
                ctx.violation(
                    f"{target.mech}-queues-telegram-longer-than-a-frame" if too_long else f"{target.mech}-queues-unserialisable-telegram",
                    {**wit, "payload": _r(t.payload), "serialise_exception": repr(res)[:200]},
                    f"{target.name}({_r(value, 60)}) returned and queued {_r(t.payload, 80)} which cannot be serialised: {res!r:.100}",
                )
                continue
            ctx.count("telegrams_serialised")
            assert isinstance(res, bytes)
            sent = t.payload.value  # type: ignore[union-attr]
            try:
                back = wire_payload(res)
            except BaseException as e:  # noqa: BLE001
                back = e
            if back == sent:
                ctx.count("telegrams_reparsed_equal")
            else:
                outcome = "accepted-altered"
                ctx.violation(
                    f"{target.mech}-queued-payload-altered-on-wire",
                    {**wit, "payload": _r(sent), "wire": res.hex(), "reparsed": _r(back)},
                    f"{target.name}({_r(value, 60)}) queued {_r(sent, 80)} but the serialised frame carries {_r(back, 80)}",
                )
        ctx.distinct((target.mech, outcome, _shape(value), len(new)))
        return outcome
    # the call raised
    ename = type(exc).__name__
    ctx.count("calls_rejected")
    outcome = f"rejected-{ename}"
    if target.record_only is not None:
        ctx.count(f"recorded_{target.record_only}_{ename}" + ("_after_queueing" if new else ""))
        ctx.distinct((target.mech, "recorded-" + outcome, _shape(value)))
        return "recorded-" + outcome
    if new:
        outcome += "-after-queueing"
        ctx.violation(
            f"{target.mech}-raises-after-queueing",
            {**wit, "exception": repr(exc)[:200], "queued": [_r(t.payload, 80) for t in new]},
            f"{target.name}({_r(value, 60)}) raised {ename} but {len(new)} telegram(s) were already queued",
        )
    else:
        ctx.count("rejections_with_queue_unchanged")
    if isinstance(exc, ConversionError):
        ctx.count("rejected_with_ConversionError")
    elif judged_class:
        ctx.violation(
            f"{target.mech}-raises-{ename}-for-unrepresentable-number",
            {**wit, "exception": repr(exc)[:200]},
            f"{target.name}({_r(value, 60)}) raised {ename} instead of ConversionError",
        )
    else:
        ctx.count(f"recorded_wrong_typed_rejected_with_{ename}")
    ctx.distinct((target.mech, outcome, _shape(value)))
    return outcome


def _all_targets(ctx: Any) -> list[Target]:
    return _rv_targets(ctx) + _device_targets(ctx) + _helper_targets(ctx)


def run(ctx: Any) -> None:
    ctx.rule = (
        "target table (remote values x constructor variants x {set, set(response), value=+respond}, device setters x configurations, "
        "group_value_write/response raw / value_type string / class, MCP send_group_value_write) x values (fixed boundary list, per-DPT "
        "min/max +- step, seeded random ints/floats, wrong-typed objects); distinct = (mechanism prefix, outcome class, value shape, #telegrams)"
    )
    ctx.require("calls_accepted", "calls_rejected", "telegrams_serialised", "telegrams_reparsed_equal", "rejections_with_queue_unchanged", "rejected_with_ConversionError", "expose_scenarios", "expose_scenario_frames_sent")
    h = Harness()
    try:
        targets = _all_targets(ctx)
        ctx.count("targets", sum(1 for i in range(len(targets)) if ctx.mine(i)))
        kinds: dict[str, int] = {}
        for i, target in enumerate(targets):
            if not ctx.mine(i):
                continue
            kinds[target.mech.split(".")[0].split("[")[0]] = kinds.get(target.mech.split(".")[0].split("[")[0], 0) + 1
            for value in target.values:
                out = _judge_one(ctx, h, target, value)
                if out.startswith("accepted") and len(ctx.samples) < 2:
                    ctx.sample({"target": target.name, "value": _r(value), "outcome": out})
                elif out.startswith("rejected") and 2 <= len(ctx.samples) < 4:
                    ctx.sample({"target": target.name, "value": _r(value, 80), "outcome": out})
        ctx.extra["targets_by_owner"] = dict(sorted(kinds.items()))
        _expose_scenarios(ctx)
        # end-to-end spot check through the real queue: what was judged serialisable really reaches the interface
        _end_to_end(ctx, h)
    finally:
        h.close()


def _expose_scenarios(ctx: Any) -> None:
    """ExposeSensor with cooldown / periodic sending queues telegrams on its own later: they must be sendable too.

    Runs on a started XKNX (real queue, task registry, virtual time); the observation is what the real CEMIHandler hands to
    the interface: a frame that cannot be serialised there is a queued telegram whose payload cannot be put on the wire.
    """
    rng = ctx.rng
    ops = ("set", "set_same", "initialize_none", "initialize_value", "incoming_write", "incoming_read", "wait_short", "wait_cooldown")
    for k in range(ctx.scale(250, 4000)):
        if not ctx.mine(k):
            continue
        ctx.ev()
        h = Harness()
        history: list[str] = []
        try:
            h.start()
            vt, good, payload = rng.choice((("percent", [0, 50, 100], DPTArray(0x10)), ("temperature", [0.0, 21.5, -5.0], DPTArray((0x0C, 0x1A))), ("binary", [True, False], DPTBinary(1)),
                                            ("string", ["", "abc"], DPTArray(bytes(14)))))
            e = ExposeSensor(h.xknx, "e", group_address=GA, value_type=vt, cooldown=rng.choice((0, 1, 5)), periodic_send=rng.choice((0, 0, 7)), respond_to_read=rng.random() < 0.7)
            h.call(h.xknx.devices.async_add, e)
            last = good[0]
            for _ in range(rng.randint(3, 9)):
                op = rng.choice(ops) if history else "set"
                history.append(op)
                try:
                    if op == "set":
                        last = rng.choice(good)
                        h.call(e.set, last)
                    elif op == "set_same":
                        h.call(e.set, last, True)
                    elif op == "initialize_none":
                        e.initialize_value(None)
                    elif op == "initialize_value":
                        e.initialize_value(rng.choice(good))
                    elif op == "incoming_write":
                        h.feed([incoming(GA, payload)])
                    elif op == "incoming_read":
                        h.feed([incoming(GA, None)])
                    if op.startswith("wait") or rng.random() > 0.4:  # else: the next call comes while telegrams are still queued
                        h.settle(advance=0.0 if op.startswith(("set", "init")) and rng.random() < 0.5 else 0.3 if op != "wait_cooldown" else 16.0)
                except ConversionError:
                    history[-1] += ":refused"
            h.settle(advance=20.0)
            ctx.count("expose_scenarios")
            ctx.count("expose_scenario_frames_sent", len(h.iface.sent))
            ctx.distinct(("expose", vt, tuple(sorted(set(history)))))
            if h.iface.send_errors:
                ctx.violation("ExposeSensor-queues-unserialisable-telegram-on-its-own",
                              {"value_type": vt, "cooldown_and_periodic": str(e), "history": history, "errors": [repr(x)[:120] for x in h.iface.send_errors[:3]], "count": len(h.iface.send_errors)},
                              f"ExposeSensor[{vt}] after {history}: {len(h.iface.send_errors)} telegram(s) it queued could not be serialised by the interface: {h.iface.send_errors[0]!r:.100}")
            else:
                ctx.count("expose_scenarios_all_frames_serialised")
        finally:
            h.close()


def _end_to_end(ctx: Any, h: Harness) -> None:
    h.start()
    sent_before = len(h.iface.sent)
    rv = RemoteValueScaling(h.xknx, GA)
    rv.set(50)
    group_value_write(h.xknx, GA, [1, 2, 3])
    group_value_write(h.xknx, GA, 21.5, value_type="temperature")
    h.settle()
    n = len(h.iface.sent) - sent_before
    ctx.count("end_to_end_frames_on_interface", n)
    if n != 3:
        ctx.inconclusive(f"end-to-end spot check: {n} of 3 frames reached the fake interface")
    ctx.sample({"end_to_end_wire": [f.hex() for f in h.iface.sent[sent_before:]]})
    h.stop()


def replay(ctx: Any, witness: dict[str, Any]) -> None:
    """Re-run the recorded target with every value of its table whose repr matches."""
    ctx.rule = "replay of one recorded (target, value)"
    h = Harness()
    try:
        hit = 0
        for target in _all_targets(ctx):
            if target.name != witness["target"]:
                continue
            for value in target.values:
                if _r(value) == witness["value"]:
                    hit += 1
                    out = _judge_one(ctx, h, target, value)
                    ctx.sample({"target": target.name, "value": _r(value), "outcome": out})
                    ctx.distinct(("replay", out))
                    ctx.distinct(("replay", target.name))
                    break
            if hit:
                break
        if not hit:
            ctx.inconclusive("recorded case not found in the target table (random value of another seed?)")
    finally:
        h.close()
