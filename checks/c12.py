"""C12 cEMI parse totality: only CouldNotParseCEMI / UnsupportedCEMIMessage; the last-resort guards stay unused."""

from __future__ import annotations

import logging
import random
import sys

from vlib import cemi_gen as G
from xknx import XKNX
from xknx.cemi import CEMIFrame
from xknx.cemi.cemi_frame import CEMILData
from xknx.exceptions import CouldNotParseCEMI, UnsupportedCEMIMessage
from xknx.io.device_management_connection import UDPDeviceManagementConnection

LEVEL = "exploration"
TECHNIQUE = (
    "runtime monitor: exception-class oracle on the real CEMIFrame.from_knx over an exhaustive short-frame space and a "
    "structure-aware corpus, plus a log monitor for the last-resort guards of CEMIHandler.handle_raw_cemi and "
    "_DeviceManagementConnection._cemi_received, plus a per-call line-count (termination) budget"
)
LEVEL_TEXT = (
    "Thorough completes every byte string of length 0..3 (1 + 256 + 65,536 + 16,777,216) through CEMIFrame.from_knx "
    "(quick: lengths 0..2 complete, length 3 sampled with a stride); every longer input is generated: all 256 message codes x "
    "tiny/plausible bodies, M_Prop bodies of every length 0..12 and every object-type value, every well-formed M_Prop* / M_Reset / "
    "M_FuncProp* body shape (read req, read con positive / negative, write req, write con positive / negative, info ind) and short "
    "L_Data shape x every octet position x every value 0..255, every Ctrl1 x Ctrl2 octet, every "
    "TPCI octet x destination kind x NPDU-length variant (consistent, +1, -1, 0, 255), an APDU corpus over every 10-bit APCI x "
    "lengths 1..257 behind seeded additional-info variants (absent, consistent, overrunning, 255, short), truncations / "
    "single-octet substitutions of valid frames, noise.  Exploration: the long-frame space is sampled, not completed."
)
LEVEL_NOTE = (
    "Trusted: CPython, the generators in vlib/cemi_gen.py.  Judged: class of every exception leaving CEMIFrame.from_knx; any "
    "exception leaving the two receive handlers; any 'Unexpected error parsing' record (the guards' logger.exception) on "
    "xknx.cemi / xknx.log; executed lines per parse against a generous linear budget (sampled).  The handlers run with the "
    "real XKNX but with stub consumers (xknx.telegrams / xknx.management) because routing is C14's subject.  ValueError is "
    "caught by _cemi_received outside its guard; it is still judged through the direct from_knx call."
)
SHARDS = {"quick": 1, "thorough": 16}
TIMEOUT = {"quick": 120, "thorough": 1500}

GUARD_TEXT = "Unexpected error parsing"


class _GuardMonitor(logging.Handler):
    """Counts the records the two last-resort guards emit."""

    def __init__(self) -> None:
        super().__init__(level=logging.ERROR)
        self.hits = 0

    def emit(self, record: logging.LogRecord) -> None:
        if isinstance(record.msg, str) and record.msg.startswith(GUARD_TEXT):
            self.hits += 1


class _Sink:
    """Stub consumer for accepted frames (routing is not C12's subject)."""

    def __init__(self) -> None:
        self.n = 0

    def put_nowait(self, _t: object) -> None:
        self.n += 1

    def process(self, _t: object) -> None:
        self.n += 1


class _Harness:
    def __init__(self) -> None:
        self.monitor = _GuardMonitor()
        self.saved: list[tuple[logging.Logger, int, bool]] = []
        for name in ("xknx.cemi", "xknx.log"):
            lg = logging.getLogger(name)
            self.saved.append((lg, lg.level, lg.propagate))
            lg.setLevel(logging.ERROR)
            lg.propagate = False
            lg.addHandler(self.monitor)
        self.xknx = XKNX()
        self.sink = _Sink()
        self.xknx.telegrams = self.sink  # type: ignore[assignment]
        self.xknx.management = self.sink  # type: ignore[assignment]
        self.handler = self.xknx.cemi_handler
        self.dm = UDPDeviceManagementConnection("10.0.0.2", 3671, local_ip="10.0.0.1")

    def close(self) -> None:
        for lg, level, prop in self.saved:
            lg.removeHandler(self.monitor)
            lg.setLevel(level)
            lg.propagate = prop


def _self_test(ctx, h: _Harness) -> None:
    """The log monitor must see a guard record when the guard really fires."""
    orig = CEMIFrame.from_knx
    try:
        CEMIFrame.from_knx = staticmethod(lambda raw: (_ for _ in ()).throw(KeyError("self-test")))  # type: ignore[method-assign]
        before = h.monitor.hits
        h.handler.handle_raw_cemi(b"\x29\x00")
        h.dm._cemi_received(b"\x29\x00")
        if h.monitor.hits - before != 2:
            ctx.inconclusive("log monitor self test: guard records of the two handlers not observed")
        else:
            ctx.count("monitor_selftest_guard_records_seen", 2)
    finally:
        CEMIFrame.from_knx = staticmethod(orig)  # type: ignore[method-assign]


def _outcome(raw: bytes):
    """(tag, frame or exception)."""
    try:
        return "frame", CEMIFrame.from_knx(raw)
    except CouldNotParseCEMI as exc:
        return "CouldNotParseCEMI", exc
    except UnsupportedCEMIMessage as exc:
        return "UnsupportedCEMIMessage", exc
    except BaseException as exc:  # noqa: BLE001
        return "other", exc


def _violate_parse(ctx, raw: bytes, exc: BaseException, origin: str) -> None:
    kind = G.code_kind(raw)
    ctx.violation(
        f"from_knx-raises-{type(exc).__name__}-{kind}",
        {"raw": raw[:400], "len": len(raw), "exception": repr(exc)[:200], "origin": origin},
        f"CEMIFrame.from_knx({raw[:24].hex()!r}{'...' if len(raw) > 24 else ''}) raised {type(exc).__name__} "
        f"instead of CouldNotParseCEMI / UnsupportedCEMIMessage",
    )


def _feed_handlers(ctx, h: _Harness, raw: bytes, origin: str) -> None:
    """The two real receive handlers: nothing may escape, the guard must stay silent."""
    kind = G.code_kind(raw)
    for name, fn in (("handle_raw_cemi", h.handler.handle_raw_cemi), ("dm-_cemi_received", h.dm._cemi_received)):
        before = h.monitor.hits
        try:
            fn(raw)
        except BaseException as exc:  # noqa: BLE001
            ctx.violation(
                f"{name}-lets-{type(exc).__name__}-escape-{kind}",
                {"raw": raw[:400], "exception": repr(exc)[:200], "origin": origin},
                f"{name}({raw[:24].hex()!r}) let {type(exc).__name__} escape",
            )
        ctx.count("handler_calls")
        if h.monitor.hits != before:
            ctx.count("guard_records")
            ctx.violation(
                f"{name}-last-resort-guard-used-{kind}",
                {"raw": raw[:400], "origin": origin},
                f"{name}({raw[:24].hex()!r}) had to fall back to its last-resort guard ('{GUARD_TEXT} ...' logged)",
            )


class _LineBudget:
    """Counts executed lines of xknx code during one parse (sys.monitoring, tool id 3)."""

    TOOL = 3

    def __init__(self) -> None:
        self.mon = sys.monitoring
        self.n = 0
        self.active = False
        try:
            self.mon.use_tool_id(self.TOOL, "verif-c12")
            self.mon.register_callback(self.TOOL, self.mon.events.LINE, self._line)
            self.ok = True
        except Exception:  # noqa: BLE001
            self.ok = False

    def _line(self, code, _lineno):  # noqa: ANN001
        if "xknx" not in code.co_filename:
            return self.mon.DISABLE
        self.n += 1
        return None

    def measure(self, raw: bytes) -> int:
        self.n = 0
        self.mon.set_events(self.TOOL, self.mon.events.LINE)
        try:
            _outcome(raw)
        finally:
            self.mon.set_events(self.TOOL, 0)
        return self.n

    def close(self) -> None:
        if self.ok:
            self.mon.set_events(self.TOOL, 0)
            self.mon.register_callback(self.TOOL, self.mon.events.LINE, None)
            self.mon.free_tool_id(self.TOOL)


def _exhaustive_short(ctx, h: _Harness) -> None:
    """All frames of length 0..3 (thorough) / 0..2 + strided length 3 (quick)."""
    from_knx = CEMIFrame.from_knx
    tally: dict[tuple[int, int, str], int] = {}

    def one(raw: bytes) -> None:
        try:
            from_knx(raw)
            tag = "frame"
        except CouldNotParseCEMI:
            tag = "CouldNotParseCEMI"
        except UnsupportedCEMIMessage:
            tag = "UnsupportedCEMIMessage"
        except BaseException as exc:  # noqa: BLE001
            tag = "other"
            _violate_parse(ctx, raw, exc, "exhaustive")
        key = (len(raw), raw[0] if raw else -1, tag)
        tally[key] = tally.get(key, 0) + 1

    n = 0
    if ctx.shard == 0:
        one(b"")
        _feed_handlers(ctx, h, b"", "exhaustive")
        n += 1
        for a in range(256):
            raw = bytes((a,))
            one(raw)
            _feed_handlers(ctx, h, raw, "exhaustive")
            n += 1
    # length 2: split over shards by first octet
    for a in range(256):
        if not ctx.mine(a):
            continue
        for b in range(256):
            raw = bytes((a, b))
            one(raw)
            n += 1
            if b % 16 == 0 or a in G.L_DATA_CODES:
                _feed_handlers(ctx, h, raw, "exhaustive")
    # length 3
    if ctx.quick:
        stride = 61  # coprime with 256: every (a), every (b) and every (c) value occurs
        total = 1 << 24
        i = ctx.seed % stride
        while i < total:
            one(i.to_bytes(3, "big"))
            n += 1
            i += stride
        ctx.extra["length3"] = f"sampled, stride {stride}"
    else:
        for a in range(256):
            if not ctx.mine(a):
                continue
            for b in range(256):
                base = bytes((a, b))
                for c in range(256):
                    one(base + bytes((c,)))
                if b % 64 == 0:
                    _feed_handlers(ctx, h, base + b"\x00", "exhaustive")
            n += 65536
        ctx.extra["length3"] = "complete"
    ctx.ev(n)
    ctx.count("short_frames", n)
    for (ln, code, tag), k in sorted(tally.items()):
        ctx.count(f"short_{tag}", k)
        ctx.distinct(("short", ln, code, tag))
    if any(t == "frame" for (_l, _c, t) in tally):
        ctx.count("short_frames_accepted")


def run(ctx):
    ctx.rule = (
        "short frames: every byte string of the stated lengths; structured frames from vlib/cemi_gen.structured_frames (seeded by "
        "VERIF_SEED, identical in all shards, split by index). distinct = (origin sweep, message code, length bucket, outcome "
        "class, payload/ data class or first word of the error text)"
    )
    ctx.require("short_frames", "structured_frames", "handler_calls", "outcome_frame", "outcome_CouldNotParseCEMI",
                "outcome_UnsupportedCEMIMessage", "monitor_selftest_guard_records_seen", "line_budget_samples")
    h = _Harness()
    lb = _LineBudget()
    try:
        _self_test(ctx, h)
        _exhaustive_short(ctx, h)
        ctx.exhaustive = True
        ctx.extra["exhaustive_part"] = (
            "lengths 0..2 complete; length 3 " + ("sampled" if ctx.quick else "complete (16,777,216 frames over the shards)")
        )

        gen_rng = random.Random(f"C12-gen/{ctx.seed}")
        full = not ctx.quick
        max_lines = 0
        samples = 0
        sampled_origins: set = set()
        for i, (origin, raw) in enumerate(G.structured_frames(gen_rng, full)):
            if not ctx.mine(i):
                continue
            ctx.ev()
            ctx.count("structured_frames")
            ctx.count(f"origin_{origin}")
            tag, res = _outcome(raw)
            if tag == "other":
                ctx.count("outcome_other")
                _violate_parse(ctx, raw, res, origin)
                detail = type(res).__name__
            elif tag == "frame":
                ctx.count("outcome_frame")
                data = res.data
                detail = type(data).__name__
                if isinstance(data, CEMILData):
                    detail += "/" + (type(data.payload).__name__ if data.payload is not None else type(data.tpci).__name__)
                if origin not in sampled_origins and origin in ("S1m", "S3", "S4"):
                    sampled_origins.add(origin)
                    ctx.sample({"origin": origin, "raw": raw[:60], "outcome": repr(res)[:200]})
            else:
                ctx.count(f"outcome_{tag}")
                detail = str(getattr(res, "description", res)).split(":")[0][:40]
                if samples < 3 and origin in ("S4", "S5s", "S5r") and (origin, tag) not in sampled_origins:
                    sampled_origins.add((origin, tag))
                    samples += 1
                    ctx.sample({"raw": raw[:60], "outcome": tag, "text": str(res)[:120]})
            ctx.distinct((origin[:2], raw[0] if raw else -1, min(len(raw), 48) // 4, tag, detail))
            _feed_handlers(ctx, h, raw, origin)
            if lb.ok and i % 23 == 0:
                lines = lb.measure(raw)
                ctx.count("line_budget_samples")
                max_lines = max(max_lines, lines)
                budget = 3000 + 40 * len(raw)
                if lines > budget:
                    ctx.violation(
                        f"from_knx-exceeds-line-budget-{G.code_kind(raw)}",
                        {"raw": raw[:400], "lines": lines, "budget": budget},
                        f"parsing a {len(raw)} octet frame executed {lines} lines (> {budget}): not linear / not terminating",
                    )
        if not lb.ok:
            ctx.inconclusive("sys.monitoring tool id unavailable: termination budget not measured")
        ctx.extra["max_lines_per_parse"] = max_lines
        ctx.count("accepted_frames_delivered_to_stub_consumers", h.sink.n)
    finally:
        lb.close()
        h.close()


def replay(ctx, witness):
    raw = witness["raw"]
    raw = bytes.fromhex(raw[4:]) if isinstance(raw, str) and raw.startswith("hex:") else bytes(raw)
    ctx.rule = "replay of one recorded frame"
    h = _Harness()
    try:
        ctx.ev()
        tag, res = _outcome(raw)
        ctx.distinct(("replay", tag))
        ctx.distinct(("replay", "frame", len(raw)))
        ctx.sample({"raw": raw, "outcome": tag, "detail": repr(res)[:200]})
        if tag == "other":
            _violate_parse(ctx, raw, res, "replay")
        _feed_handlers(ctx, h, raw, "replay")
    finally:
        h.close()
