#!/bin/bash
# usage: tools/runall.sh [tier] [seed] [props...]   -- run checks (4 at a time), summarise, validate evidence
TIER=${1:-quick}; SEED=${2:-0}; shift 2 2>/dev/null
PROPS="$@"; [ -z "$PROPS" ] && PROPS=$(ls /verif/checks/c[0-9]*.py | sed 's#.*/c#C#; s#\.py##')
cd /verif; mkdir -p /tmp/runall
J=${JOBS:-4}; [ "$TIER" = thorough ] && J=${JOBS:-1}
echo $PROPS | tr ' ' '\n' | xargs -P $J -I{} sh -c "S=\$(date +%s); VERIF_SEED=$SEED PYTHONHASHSEED=0 /venv/bin/python -m vlib.run {} --tier $TIER > /tmp/runall/{}.$TIER.log 2>&1; echo \"{} rc=\$? \$(( \$(date +%s) - S ))s \$(grep -c '^KNOWN-FINDING' /tmp/runall/{}.$TIER.log) known | \$(tail -1 /tmp/runall/{}.$TIER.log | cut -c1-150)\"" | sort
python3-vt - <<'PY'
import json,jsonschema,glob
sch=json.load(open('/root/.vp/EVIDENCE.schema.json'))
bad=0
for f in sorted(glob.glob('/verif/evidence/C*.json')):
    try: jsonschema.validate(json.load(open(f)),sch)
    except Exception as e: bad+=1; print("EVIDENCE INVALID",f,str(e)[:200])
print("evidence files valid" if not bad else f"{bad} invalid evidence files")
jsonschema.validate(json.load(open('/verif/MANIFEST.json')), json.load(open('/root/.vp/MANIFEST.schema.json'))); print("manifest valid")
PY
