"""Independent reference for the KNX IP Secure cryptography (AN159 / 03.08.09).

Written from the specification, not from xknx.  The only primitive taken from a
library is the single-block AES permutation (``cryptography``'s AES in ECB mode,
one 16 octet block at a time); CBC-MAC, CTR, the block layouts, key derivation
and the frame layouts are spelled out here.  hashlib (SHA-256, PBKDF2-HMAC) and
X25519 are part of the trusted base.

CCM as used by KNX IP Secure (differs from RFC 3610 in the block formatting):

* B0        = sequence information (6) | serial number (6) | message tag (2) | payload length Q (2)
* MAC input = B0 | len(A) (2) | A | P, zero padded *once* to a multiple of 16
              (A = KNXnet/IP header (6) | secure session id (2); P = the plain inner frame)
* Y         = last block of AES-CBC over that input with a zero IV
* Ctr_i     = sequence information | serial number | message tag | 0xFF | i
* MAC on the wire = Y xor AES(Ctr_0); ciphertext = P xor (AES(Ctr_1) | AES(Ctr_2) ...)

Handshake MACs use B0 = 0^16 and Ctr_0 = 0^14 | 0xFF | 0x00:

* SessionResponse:     A = header(0x0952, 0x0038) | session id | (client pub xor server pub), key = device authentication code
* SessionAuthenticate: A = header(0x0953, 0x0018) | 0x00 | user id | (client pub xor server pub), key = user password key
* TimerNotify:         B0 = timer (6) | serial (6) | tag (2) | 0x0000, A = header(0x0955, 0x0024), key = backbone key
"""

from __future__ import annotations

import hashlib

from cryptography.hazmat.primitives.asymmetric.x25519 import (
    X25519PrivateKey,
    X25519PublicKey,
)
from cryptography.hazmat.primitives.ciphers import Cipher, algorithms, modes
from cryptography.hazmat.primitives.serialization import Encoding, PublicFormat

USER_SALT = b"user-password.1.secure.ip.knx.org"
DEVICE_SALT = b"device-authentication-code.1.secure.ip.knx.org"
PBKDF2_ITERATIONS = 65536

HDR_WRAPPER = 0x0950
HDR_SESSION_REQUEST = 0x0951
HDR_SESSION_RESPONSE = 0x0952
HDR_SESSION_AUTHENTICATE = 0x0953
HDR_SESSION_STATUS = 0x0954
HDR_TIMER_NOTIFY = 0x0955

CTR0_HANDSHAKE = bytes(14) + b"\xff\x00"
MAX_PAYLOAD = 255 * 16  # one octet block counter


class RefError(Exception):
    """The reference refuses the input (bad MAC, bad layout)."""


# --------------------------------------------------------------------------
# primitives
# --------------------------------------------------------------------------
def aes_block(key: bytes, block: bytes) -> bytes:
    """One application of the AES permutation."""
    assert len(block) == 16
    enc = Cipher(algorithms.AES(key), modes.ECB()).encryptor()  # noqa: S305
    return enc.update(block) + enc.finalize()


def xor(a: bytes, b: bytes) -> bytes:
    return bytes(x ^ y for x, y in zip(a, b, strict=False))


def cbc_mac(key: bytes, b0: bytes, associated: bytes, payload: bytes = b"") -> bytes:
    """Y_n of the KNX IP Secure CBC-MAC."""
    assert len(b0) == 16
    data = b0 + len(associated).to_bytes(2, "big") + associated + payload
    if len(data) % 16:
        data += bytes(16 - len(data) % 16)
    y = bytes(16)
    for i in range(0, len(data), 16):
        y = aes_block(key, xor(y, data[i : i + 16]))
    return y


def ctr_block(ctr0: bytes, i: int) -> bytes:
    assert len(ctr0) == 16 and ctr0[15] == 0 and 0 <= i <= 255
    return ctr0[:15] + bytes((i,))


def ctr_mac(key: bytes, ctr0: bytes, mac: bytes) -> bytes:
    """The MAC is transformed with counter block 0 (encrypt == decrypt)."""
    return xor(mac, aes_block(key, ctr_block(ctr0, 0)))


def ctr_payload(key: bytes, ctr0: bytes, payload: bytes) -> bytes:
    """The payload is transformed with counter blocks 1.. (encrypt == decrypt)."""
    if len(payload) > MAX_PAYLOAD:
        raise RefError("payload longer than the one-octet block counter allows")
    out = bytearray()
    for n, i in enumerate(range(0, len(payload), 16)):
        out += xor(payload[i : i + 16], aes_block(key, ctr_block(ctr0, n + 1)))
    return bytes(out)


# --------------------------------------------------------------------------
# keys
# --------------------------------------------------------------------------
_PBKDF_CACHE: dict[tuple[bytes, str], bytes] = {}
pbkdf2_derivations = 0


def _pbkdf(salt: bytes, password: str) -> bytes:
    global pbkdf2_derivations
    k = (salt, password)
    if k not in _PBKDF_CACHE:
        pbkdf2_derivations += 1
        _PBKDF_CACHE[k] = hashlib.pbkdf2_hmac(
            "sha256", password.encode("latin-1"), salt, PBKDF2_ITERATIONS, 16
        )
    return _PBKDF_CACHE[k]


def user_password_key(password: str) -> bytes:
    return _pbkdf(USER_SALT, password)


def device_authentication_key(password: str) -> bytes:
    return _pbkdf(DEVICE_SALT, password)


def x25519_private(raw32: bytes) -> X25519PrivateKey:
    return X25519PrivateKey.from_private_bytes(raw32)


def x25519_public_bytes(private: X25519PrivateKey) -> bytes:
    return private.public_key().public_bytes(Encoding.Raw, PublicFormat.Raw)


def session_key(private: X25519PrivateKey, peer_public: bytes) -> bytes:
    """First 16 octets of SHA-256 over the X25519 shared secret."""
    secret = private.exchange(X25519PublicKey.from_public_bytes(peer_public))
    return hashlib.sha256(secret).digest()[:16]


# --------------------------------------------------------------------------
# frames
# --------------------------------------------------------------------------
def header(service: int, total_length: int) -> bytes:
    return b"\x06\x10" + service.to_bytes(2, "big") + total_length.to_bytes(2, "big")


def wrap(
    key: bytes,
    session_id: int,
    sequence: bytes | int,
    serial: bytes,
    tag: bytes,
    inner: bytes,
) -> bytes:
    """Complete SECURE_WRAPPER frame (header included) around `inner`."""
    seq = sequence.to_bytes(6, "big") if isinstance(sequence, int) else sequence
    assert len(seq) == 6 and len(serial) == 6 and len(tag) == 2
    total = 6 + 2 + 6 + 6 + 2 + len(inner) + 16
    hdr = header(HDR_WRAPPER, total)
    sid = session_id.to_bytes(2, "big")
    b0 = seq + serial + tag + len(inner).to_bytes(2, "big")
    ctr0 = seq + serial + tag + b"\xff\x00"
    y = cbc_mac(key, b0, hdr + sid, inner)
    return hdr + sid + seq + serial + tag + ctr_payload(key, ctr0, inner) + ctr_mac(key, ctr0, y)


class Wrapper:
    """Fields of a SECURE_WRAPPER parsed octet by octet."""

    __slots__ = ("ciphertext", "header", "mac", "sequence", "serial", "session_id", "tag")

    def __init__(self, raw: bytes) -> None:
        if len(raw) < 6 + 16 + 16 or raw[0] != 0x06 or raw[1] != 0x10:
            raise RefError("not a KNXnet/IP frame / too short for a wrapper")
        if int.from_bytes(raw[2:4], "big") != HDR_WRAPPER:
            raise RefError("not a SECURE_WRAPPER")
        if int.from_bytes(raw[4:6], "big") != len(raw):
            raise RefError("total length field does not match")
        self.header = raw[:6]
        self.session_id = int.from_bytes(raw[6:8], "big")
        self.sequence = raw[8:14]
        self.serial = raw[14:20]
        self.tag = raw[20:22]
        self.ciphertext = raw[22:-16]
        self.mac = raw[-16:]

    @property
    def seq_int(self) -> int:
        return int.from_bytes(self.sequence, "big")


def unwrap(key: bytes, raw: bytes, session_id: int | None = None) -> tuple[Wrapper, bytes]:
    """Verify and decrypt; returns (fields, inner frame bytes) or raises RefError."""
    w = Wrapper(raw)
    if session_id is not None and w.session_id != session_id:
        raise RefError("session id mismatch")
    ctr0 = w.sequence + w.serial + w.tag + b"\xff\x00"
    inner = ctr_payload(key, ctr0, w.ciphertext)
    b0 = w.sequence + w.serial + w.tag + len(inner).to_bytes(2, "big")
    y = cbc_mac(key, b0, w.header + raw[6:8], inner)
    if ctr_mac(key, ctr0, w.mac) != y:
        raise RefError("MAC mismatch")
    return w, inner


def is_valid_wrapper(key: bytes, raw: bytes, session_id: int | None = None) -> bool:
    try:
        unwrap(key, raw, session_id)
    except RefError:
        return False
    return True


def session_response_mac(device_key: bytes, session_id: int, client_pub: bytes, server_pub: bytes) -> bytes:
    a = header(HDR_SESSION_RESPONSE, 0x38) + session_id.to_bytes(2, "big") + xor(client_pub, server_pub)
    return ctr_mac(device_key, CTR0_HANDSHAKE, cbc_mac(device_key, bytes(16), a))


def session_response(device_key: bytes, session_id: int, client_pub: bytes, server_pub: bytes) -> bytes:
    return (
        header(HDR_SESSION_RESPONSE, 0x38)
        + session_id.to_bytes(2, "big")
        + server_pub
        + session_response_mac(device_key, session_id, client_pub, server_pub)
    )


def session_authenticate_mac(user_key: bytes, user_id: int, client_pub: bytes, server_pub: bytes) -> bytes:
    a = header(HDR_SESSION_AUTHENTICATE, 0x18) + bytes((0, user_id)) + xor(client_pub, server_pub)
    return ctr_mac(user_key, CTR0_HANDSHAKE, cbc_mac(user_key, bytes(16), a))


def session_authenticate(user_key: bytes, user_id: int, client_pub: bytes, server_pub: bytes) -> bytes:
    return (
        header(HDR_SESSION_AUTHENTICATE, 0x18)
        + bytes((0, user_id))
        + session_authenticate_mac(user_key, user_id, client_pub, server_pub)
    )


def session_status(status: int) -> bytes:
    return header(HDR_SESSION_STATUS, 8) + bytes((status, 0))


def timer_notify_mac(backbone_key: bytes, timer: int, serial: bytes, tag: bytes) -> bytes:
    t = timer.to_bytes(6, "big")
    y = cbc_mac(backbone_key, t + serial + tag + b"\x00\x00", header(HDR_TIMER_NOTIFY, 0x24))
    return ctr_mac(backbone_key, t + serial + tag + b"\xff\x00", y)


def timer_notify(backbone_key: bytes, timer: int, serial: bytes, tag: bytes) -> bytes:
    return (
        header(HDR_TIMER_NOTIFY, 0x24)
        + timer.to_bytes(6, "big")
        + serial
        + tag
        + timer_notify_mac(backbone_key, timer, serial, tag)
    )


class TimerNotifyFields:
    __slots__ = ("mac", "serial", "tag", "timer")

    def __init__(self, raw: bytes) -> None:
        if len(raw) != 0x24 or raw[:6] != header(HDR_TIMER_NOTIFY, 0x24):
            raise RefError("not a TIMER_NOTIFY")
        self.timer = int.from_bytes(raw[6:12], "big")
        self.serial = raw[12:18]
        self.tag = raw[18:20]
        self.mac = raw[20:36]


def timer_notify_valid(backbone_key: bytes, raw: bytes) -> bool:
    try:
        f = TimerNotifyFields(raw)
    except RefError:
        return False
    return f.mac == timer_notify_mac(backbone_key, f.timer, f.serial, f.tag)


def service_of(raw: bytes) -> int | None:
    if len(raw) < 6 or raw[0] != 0x06 or raw[1] != 0x10:
        return None
    return int.from_bytes(raw[2:4], "big")


# --------------------------------------------------------------------------
# self test against the vectors recorded in the repository's tests
# (AN159 examples: test/secure_tests/ip_secure_test.py,
#  test/io_tests/secure_session_test.py, test/io_tests/secure_group_test.py)
# --------------------------------------------------------------------------
def _h(s: str) -> bytes:
    return bytes.fromhex(s)


def self_test(with_pbkdf2: bool = True) -> list[str]:
    """Return the list of failed vector names (empty == the oracle is sound)."""
    bad: list[str] = []

    def eq(name: str, got: bytes, want: str) -> None:
        if got != _h(want):
            bad.append(name)

    key = _h("000102030405060708090a0b0c0d0e0f")
    # FIPS-197 appendix C.1
    eq("fips197-aes128", aes_block(key, _h("00112233445566778899aabbccddeeff")), "69c4e0d86a7b0430d8cdb78070b4c55a")
    # AN159 RoutingIndication example
    inner = _h("061005300011 2900bcd011590ade010081".replace(" ", ""))
    b0 = _h("c0c1c2c3c4c500fa12345678affe0011")
    ctr0 = _h("c0c1c2c3c4c500fa12345678affeff00")
    y = cbc_mac(key, b0, _h("0610095000370000"), inner)
    eq("an159-routing-cbcmac", y, "bd0a294b952554b23539204c2271d26b")
    eq("an159-routing-ciphertext", ctr_payload(key, ctr0, inner), "b7ee7e8a1c2f7bbabec775fd6e10d0bc4b")
    eq("an159-routing-mac", ctr_mac(key, ctr0, y), "7212a03aaae49da85689774c1d2b4da4")
    frame = wrap(key, 0, _h("c0c1c2c3c4c5"), _h("00fa12345678"), _h("affe"), inner)
    eq(
        "an159-routing-wrapper",
        frame,
        "061009500037" "0000" "c0c1c2c3c4c5" "00fa12345678" "affe"
        "b7ee7e8a1c2f7bbabec775fd6e10d0bc4b" "7212a03aaae49da85689774c1d2b4da4",
    )
    try:
        if unwrap(key, frame, 0)[1] != inner:
            bad.append("an159-routing-unwrap")
    except RefError:
        bad.append("an159-routing-unwrap")
    # session handshake example
    client_priv = x25519_private(_h("b8fabd62665d8b9e8a9d8b1f4bca42c8c2789a6110f50e9dd785b3ede883f378"))
    client_pub = _h("0aa227b4fd7a32319ba9960ac036ce0e5c4507b5ae55161f1078b1dcfb3cb631")
    server_pub = _h("bdf099909923143ef0a5de0b3be3687bc5bd3cf5f9e6f901699cd870ec1ff824")
    if x25519_public_bytes(client_priv) != client_pub:
        bad.append("an159-client-public-key")
    if with_pbkdf2:
        dev = device_authentication_key("trustme")
        usr = user_password_key("secret")
        eq("an159-device-authentication-code", dev, "e158e4012047bd6cc41aafbc5c04c1fc")
        eq("an159-user-password-key", usr, "03fcedb66660251ec81a1a7169 01696a".replace(" ", ""))
    else:
        dev = _h("e158e4012047bd6cc41aafbc5c04c1fc")
        usr = _h("03fcedb66660251ec81a1a716901696a")
    a = _h("061009520038" "0001") + xor(client_pub, server_pub)
    eq("an159-session-response-cbcmac", cbc_mac(dev, bytes(16), a), "da3dc6af79896aa6ee7573d69950c283")
    eq("an159-session-response-mac", session_response_mac(dev, 1, client_pub, server_pub), "a922505aaa436163570bd5494c2df2a3")
    auth_mac = session_authenticate_mac(usr, 1, client_pub, server_pub)
    eq("an159-session-authenticate-mac", auth_mac, "1f1d59ea9f12a152e5d9727f08462cde")
    skey = session_key(client_priv, server_pub)
    auth = session_authenticate(usr, 1, client_pub, server_pub)
    eq(
        "an159-wrapped-session-authenticate",
        wrap(skey, 1, 0, _h("00fa12345678"), _h("affe"), auth),
        "06100950003e" "0001" "000000000000" "00fa12345678" "affe"
        "7915a4f36e6e4208d28b4a207d8f35c0d138c26a7b5e7169" "52dba8e7e4bd80bd7d868a3ae78749de",
    )
    eq(
        "an159-wrapped-session-status",
        wrap(skey, 1, 0, _h("00faaaaaaaaa"), _h("affe"), session_status(0)),
        "06100950002e" "0001" "000000000000" "00faaaaaaaaa" "affe" "26156db5c749888f" "a373c3e0b4bde4497c395e4b1c2f46a1",
    )
    # timer notify recorded in secure_group_test.py (32 octet key as used there)
    bk = _h("0aa227b4fd7a32319ba9960ac036ce0e5c4507b5ae55161f1078b1dcfb3cb631")
    eq("recorded-timer-notify-mac", timer_notify_mac(bk, 0, _h("00fa12345678"), _h("1234")), "3195051bb981941d57e6c5b55355f341")
    return bad
