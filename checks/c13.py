"""C13 cEMI L_Data: build -> octets -> parse round trip, frame-type / address-type bits, refusals, re-serialisation."""

from __future__ import annotations

import random

from vlib import cemi_gen as G
from vlib.eqv import same
from xknx.cemi import CEMIFrame, CEMIMessageCode
from xknx.cemi.cemi_frame import CEMIInfo, CEMILData
from xknx.cemi.flags import CEMIFlags, CEMIFrameType, CEMIPriority
from xknx.dpt import DPTArray, DPTBinary
from xknx.exceptions import ConversionError, CouldNotParseCEMI, UnsupportedCEMIMessage
from xknx.telegram import GroupAddress, IndividualAddress, Telegram
from xknx.telegram import tpci as T
from xknx.telegram.apci import APCI, GroupValueResponse, GroupValueWrite

LEVEL = "exploration"
TECHNIQUE = (
    "runtime monitor: field-equality oracle on real CEMIFrame.to_knx -> from_knx, independent wire-bit rules for the frame-type "
    "and address-type bits, refusal oracle for NPDU > 254 / hop count outside 0..7, masked byte comparison of re-serialised received frames"
)
LEVEL_TEXT = (
    "Built frames: every legal (destination kind, TPCI) pair x GroupValueWrite/Response for every APDU length 1..254 (refusal for "
    "255, 256, 300) plus several decoded instances of every other APCI service class (every layout of multi-layout services from "
    "vlib/apci_gen.canonical_frames, with all-zero / all-0xFF bodies and every single octet set to 0x00 / 0xFF, plus up to four from the "
    "own corpus; the length octet is compared with the TPDU octets actually emitted) x all 64 control-flag "
    "combinations x hop counts -1..8, 15, 16, 255 x the three L_Data message codes x with/without additional info (thorough: full "
    "cross at the boundary lengths 1, 2, 14, 15, 16, 17, 254; quick: rotating combinations).  Received frames: every L_Data frame the "
    "C12 structured corpus makes from_knx accept, and every one of those service variants wrapped as group / connected data frame, is re-serialised and compared with the received octets.  Exploration: generated, not complete."
)
LEVEL_NOTE = (
    "Trusted: CPython, vlib/eqv.py (structural equality for classes without __eq__), the masks in vlib/cemi_gen.py.  Judged: equality "
    "of source, destination (value and kind), TPCI (class and sequence number), payload, priority/repeat/system-broadcast/ack/confirm/"
    "hop-count/frame-format after the round trip; Ctrl1 bit 7 == (NPDU <= 15) and Ctrl2 bit 7 == (destination is a group address) read "
    "from the produced octets; NPDU > 254 and hop count outside 0..7 must raise - at construction, on assignment or in to_knx, also when "
    "every flags field is assigned on an already built and once serialised frame - (class recorded, not judged; since xknx e78d597 "
    "GroupValueWrite/Response refuse over-long values already when created - counted - so the frame-level limit is exercised by replacing "
    "the value of a valid payload afterwards, as Data Secure replaces payloads, and - since 170b3d1 made those encoders re-validate - by "
    "over-long FunctionPropertyCommand APDUs, whose own encoder has no limit).  Re-serialisation: allowed "
    "to differ = FT bit, reserved Ctrl1 bit 6 (DESIGN §7), reserved application bits.  Byte-exact APDU comparison is restricted to "
    "services whose encoding I transcribed from the Application Layer document (GroupValueRead/Write/Response, IndividualAddressRead/"
    "Write/Response, ADCRead/Response, MemoryRead/Write/Response, DeviceDescriptorRead/Response; reserved low six bits masked where the "
    "APCI is 4 bit wide without 6-bit data); for every other service only the non-APDU octets, the APDU length, the TPCI bits and the "
    "4 service bits are compared (counted as reserialised_coarse).  A payload whose own APCI encoder refuses or does not reproduce what its "
    "decoder accepted is a service-codec matter (C05/C06): such frames are counted, not judged.  Only legal (destination, TPCI) pairs are built: an illegal pair "
    "(e.g. T_Data_Group to 0/0/0) is a different telegram on the wire by definition."
)
SHARDS = {"quick": 1, "thorough": 8}
TIMEOUT = {"quick": 120, "thorough": 1500}

CODES = (CEMIMessageCode.L_DATA_REQ, CEMIMessageCode.L_DATA_IND, CEMIMessageCode.L_DATA_CON)


def _dst_tpci_pairs():
    """Legal (label, destination, tpci factory) pairs per 3/3/4 §2."""
    ga, ga0, ia = GroupAddress("1/2/3"), GroupAddress(0), IndividualAddress("1.1.5")
    data = [
        ("group/TDataGroup", ga, T.TDataGroup),
        ("group/TDataTagGroup", ga, T.TDataTagGroup),
        ("group0/TDataBroadcast", ga0, T.TDataBroadcast),
        ("indiv/TDataIndividual", ia, T.TDataIndividual),
        ("indiv0/TDataIndividual", IndividualAddress(0), T.TDataIndividual),
    ]
    data += [(f"indiv/TDataConnected", ia, (lambda s=s: T.TDataConnected(s))) for s in range(16)]
    ctrl = [("indiv/TConnect", ia, T.TConnect), ("indiv/TDisconnect", ia, T.TDisconnect)]
    ctrl += [("indiv/TAck", ia, (lambda s=s: T.TAck(s))) for s in range(16)]
    ctrl += [("indiv/TNak", ia, (lambda s=s: T.TNak(s))) for s in range(16)]
    return data, ctrl


def _flag_sets():
    out = []
    for prio in CEMIPriority:
        for rep in (False, True):
            for sb in (False, True):
                for ack in (False, True):
                    for con in (False, True):
                        out.append((prio, rep, sb, ack, con))
    return out


def _gv_payload(length: int, rng: random.Random, response: bool = False) -> APCI:
    """Group value APDU with NPDU length `length` (1 = 6-bit value in the APCI octet)."""
    cls = GroupValueResponse if response else GroupValueWrite
    if length == 1:
        return cls(DPTBinary(rng.randrange(64)))
    data = tuple(rng.getrandbits(8) for _ in range(length - 1))
    try:
        return cls(DPTArray(data))
    except ConversionError:
        # the service class itself refuses over-long values when created (xknx e78d597).  The frame-level
        # refusal is still exercised: replace the value afterwards, as Data Secure replaces payloads.
        if length <= 254:
            raise
        _gv_payload.refused_at_creation += 1
        if _gv_payload.refused_at_creation % 2:
            # a service whose own encoder has no length limit: only the frame-level check can refuse it
            # (since xknx 170b3d1 the group value encoders re-validate a replaced value themselves)
            from xknx.telegram.apci import FunctionPropertyCommand

            _gv_payload.overlong_other_service += 1
            return FunctionPropertyCommand(object_index=1, property_id=2, data=bytes(data[: length - 3]))
        obj = cls(DPTArray((0,)))
        obj.value = DPTArray(data)
        return obj


_gv_payload.refused_at_creation = 0
_gv_payload.overlong_other_service = 0


def _variant_apdus(ctx) -> list[tuple[str, bytes]]:
    """Valid APDUs of every service class and layout (vlib/apci_gen.canonical_frames, read-only) plus, for each, the
    all-zero / all-0xFF body and every single octet set to 0x00 / 0xFF (zero and 0xFF fills of every field)."""
    try:
        from vlib import apci_gen

        canon = apci_gen.canonical_frames()
    except Exception:  # noqa: BLE001
        ctx.count("apci_gen_unavailable")
        canon = []
    out: list[tuple[str, bytes]] = []
    seen: set[bytes] = set()
    for name, raw in canon:
        n = len(raw)
        cands = [raw]
        if n > 2:
            cands += [raw[:2] + bytes(n - 2), raw[:2] + b"\xff" * (n - 2)]
            for pos in range(2, n):
                for v in (0x00, 0xFF):
                    if raw[pos] != v:
                        cands.append(raw[:pos] + bytes((v,)) + raw[pos + 1:])
        else:
            cands += [bytes((raw[0], raw[1] | 0x3F)), bytes((raw[0], raw[1] & 0xC0))]
        for c in cands:
            if c not in seen:
                seen.add(c)
                out.append((name, c))
    ctx.count("variant_apdus", len(out))
    return out


def _service_instances(ctx, rng: random.Random) -> list[tuple[str, APCI, int]]:
    """Several real instances per APCI service class (every layout, zero / 0xFF fills), obtained from the real decoder.

    Returns (class name, object, NPDU length = octets the object's own encoder emits - 1).  Kept only if the
    service's own codec treats the object as a fixed point (decoder/encoder asymmetries are C05/C06's subject);
    `calculated_length()` is deliberately NOT consulted here: that it agrees with the emitted octets is judged
    on the frame (length octet, frame type bit, parse-back).
    """
    found: dict[tuple[str, bytes], tuple[APCI, int]] = {}
    per_class: dict[str, int] = {}
    own = [(None, raw) for _apci, raw in G.apdu_corpus(rng, False) if 2 <= len(raw) <= 255]
    for origin, raw in _variant_apdus(ctx) + own:
        try:
            obj = APCI.from_knx(raw)
        except Exception:  # noqa: BLE001  (decode totality is C04's subject)
            continue
        name = type(obj).__name__
        if origin is None and per_class.get(name, 0) >= 4:
            continue
        try:
            emitted = bytes(obj.to_knx())
            stable = same(APCI.from_knx(emitted), obj)
        except Exception:  # noqa: BLE001
            stable = False
        if not stable:
            ctx.count("service_instances_skipped_apci_level_asymmetry")
            continue
        if (name, emitted) in found:
            continue
        found[(name, emitted)] = (obj, len(emitted) - 1)
        per_class[name] = per_class.get(name, 0) + 1
    ctx.count("service_classes_instantiated", len(per_class))
    ctx.count("service_instances", len(found))
    return [(n, o, l) for (n, _e), (o, l) in sorted(found.items())]


def _wire_fields(raw: bytes):
    il = raw[1]
    h = 2 + il
    return raw[h], raw[h + 1], raw[h + 6]


def _judge_built(ctx, label, code, info, src, dst, tpci, payload, npdu, fl, hop, pname, assign: bool = False) -> None:
    """One built frame: valid ones must round-trip; NPDU > 254 / bad hop count must be refused.

    `assign`: the frame is first built with default flags and serialised, then every flags field is ASSIGNED on the
    existing object and the frame serialised again (a refusal may come at any of these steps - construction,
    assignment or to_knx; whatever the code under test raises is caught and judged, never the harness's problem).
    """
    prio, rep, sb, ack, con = fl
    ctx.ev()
    must_refuse = npdu > 254 or not 0 <= hop <= 7
    witness = {"dst_tpci": label, "code": code.name, "info": info, "src": src.raw, "dst": dst.raw, "tpci": repr(tpci),
               "payload_class": pname, "npdu_len": npdu, "priority": prio.name, "repeat": rep, "system_broadcast": sb,
               "ack": ack, "confirm_error": con, "hop_count": hop, "flags_assigned_after_construction": assign}
    flags = None
    try:
        if assign:
            flags = CEMIFlags()
            data = CEMILData(flags=flags, src_addr=src, dst_addr=dst, tpci=tpci, payload=payload)
            frame = CEMIFrame(code=code, info=CEMIInfo(info) if info else None, data=data)
            if npdu <= 254:
                frame.to_knx()
            f2 = frame.data.flags
            f2.priority, f2.repeat_on_error, f2.system_broadcast = prio, rep, sb
            f2.acknowledge_request, f2.confirm_error, f2.hop_count = ack, con, hop
            ctx.count("flags_assigned_after_construction")
        else:
            flags = CEMIFlags(priority=prio, repeat_on_error=rep, system_broadcast=sb, acknowledge_request=ack,
                              confirm_error=con, hop_count=hop)
            data = CEMILData(flags=flags, src_addr=src, dst_addr=dst, tpci=tpci, payload=payload)
            frame = CEMIFrame(code=code, info=CEMIInfo(info) if info else None, data=data)
        raw = frame.to_knx()
    except Exception as exc:  # noqa: BLE001
        if must_refuse:
            ctx.count("refused_as_required")
            ctx.count(f"refusal_class_{type(exc).__name__}")
            ctx.distinct(("refused", "npdu" if npdu > 254 else "hop", min(npdu, 256), hop, type(exc).__name__))
            return
        ctx.violation(f"valid-frame-refused-{type(exc).__name__}", dict(witness, exception=repr(exc)[:200]),
                      f"to_knx refused a valid frame ({label}, NPDU {npdu}, hop {hop}): {type(exc).__name__}")
        return
    if must_refuse:
        if npdu > 254:
            ctx.violation("npdu-over-254-serialised", dict(witness, raw=raw[:40]),
                          f"a frame with NPDU length {npdu} (> 254) was serialised instead of refused")
        else:
            ctx.violation("hop-count-out-of-range-serialised-" + ("negative" if hop < 0 else "above-7")
                          + ("-when-assigned-after-construction" if assign else ""), dict(witness, raw=raw),
                          f"a frame with hop count {hop} was serialised instead of refused")
        return
    ctx.count("built_serialised")
    witness["raw"] = raw if len(raw) < 80 else raw[:80]
    # independent wire rules
    c1, c2, lg = _wire_fields(raw)
    std = bool(c1 & G.FT_BIT)
    if std != (npdu <= 15):
        ctx.violation("frame-type-bit-wrong-npdu-" + ("le15" if npdu <= 15 else "gt15"), witness,
                      f"NPDU length {npdu}: frame type bit says {'standard' if std else 'extended'}")
    grp = bool(c2 & G.AT_BIT)
    if grp != isinstance(dst, GroupAddress):
        ctx.violation("address-type-bit-wrong-" + ("group" if isinstance(dst, GroupAddress) else "individual"), witness,
                      f"destination {dst!r}: address type bit is {int(grp)}")
    tpdu_octets = len(raw) - (2 + raw[1] + 7)
    if lg != tpdu_octets - 1 or lg != npdu:
        ctx.violation("length-octet-differs-from-tpdu-octets" + ("" if pname in ("GroupValueWrite", "GroupValueResponse", "control") else f"-{pname}"),
                      dict(witness, length_octet=lg, tpdu_octets=tpdu_octets),
                      f"({label}, {pname}): length octet {lg} in front of {tpdu_octets} TPDU octets (expected {tpdu_octets - 1})")
    ctx.count("wire_bits_checked")
    # parse back
    try:
        back = CEMIFrame.from_knx(raw)
    except Exception as exc:  # noqa: BLE001
        ctx.violation(f"own-frame-does-not-parse-{type(exc).__name__}", dict(witness, exception=repr(exc)[:200]),
                      f"octets produced for ({label}, {pname}, NPDU {npdu}) do not parse back: {type(exc).__name__}")
        return
    d = back.data
    diffs = []
    if back.code is not code:
        diffs.append("message-code")
    if back.info.raw != info:
        diffs.append("additional-info")
    if not isinstance(d, CEMILData):
        diffs.append("data-class")
    else:
        if d.src_addr != src or type(d.src_addr) is not type(src):
            diffs.append("source-address")
        if d.dst_addr != dst or type(d.dst_addr) is not type(dst):
            diffs.append("destination-address")
        if type(d.tpci) is not type(tpci) or d.tpci.sequence_number != tpci.sequence_number:
            diffs.append("tpci")
        if not same(d.payload, payload):
            diffs.append("payload")
        f = d.flags
        if f.priority != prio:
            diffs.append("priority")
        if f.repeat_on_error != rep:
            diffs.append("repeat")
        if f.system_broadcast != sb:
            diffs.append("system-broadcast")
        if f.acknowledge_request != ack:
            diffs.append("acknowledge")
        if f.confirm_error != con:
            diffs.append("confirm")
        if f.hop_count != hop:
            diffs.append("hop-count")
        if f.frame_format != frame.data.flags.frame_format:
            diffs.append("frame-format")
        if (f.frame_type is CEMIFrameType.STANDARD) != std:
            ctx.count("parsed_frame_type_differs_from_wire")
    for what in diffs:
        ctx.violation(f"built-frame-roundtrip-differs-{what}", dict(witness, parsed=repr(back)[:300]),
                      f"({label}, {pname}, NPDU {npdu}, hop {hop}): {what} differs after to_knx -> from_knx")
    ctx.count("built_roundtrips")
    ctx.distinct(("built", label, pname, min(npdu, 18) if npdu < 250 else npdu, code.name, bool(info)))
    ctx.distinct(("flags", prio.name, rep, sb, ack, con, hop))


def _built_frames(ctx) -> None:
    rng = random.Random(f"C13-built/{ctx.seed}")
    data_pairs, ctrl_pairs = _dst_tpci_pairs()
    fsets = _flag_sets()
    hops_valid = list(range(8))
    hops_bad = [-1, 8, 9, 15, 16, 255, -8]
    services = _service_instances(ctx, rng)
    src_choices = [IndividualAddress("1.1.1"), IndividualAddress(0), IndividualAddress(0xFFFF), IndividualAddress("15.15.0")]
    infos = [b"", b"", b"\x03\x02\xaa\xbb", b"\x01\x00"]
    k = 0  # work index for sharding / rotation

    def rot(seq, salt=0):
        return seq[(k * 7 + salt) % len(seq)]

    # (1) every NPDU length 1..254 (+ refusals) x rotating everything else; all data TPCI pairs visited
    lengths = list(range(1, 255)) + [255, 256, 300]
    reps = ctx.scale(3, 12)
    for npdu in lengths:
        for r in range(reps):
            k += 1
            if not ctx.mine(k):
                continue
            label, dst, mk = data_pairs[(npdu + r * 5) % len(data_pairs)]
            payload = _gv_payload(npdu, rng, response=bool(r & 1))
            _judge_built(ctx, label, rot(CODES), rot(infos, 1), rot(src_choices, 2), dst, mk(), payload, npdu,
                         fsets[(npdu * 3 + r) % len(fsets)], rot(hops_valid, 3), type(payload).__name__)
    ctx.sample({"built": "GroupValueWrite DPTArray(14 octets) -> NPDU 15 -> standard; 15 octets -> NPDU 16 -> extended"})

    # (2) boundary lengths x every data TPCI pair x every flag set x every valid hop (thorough) / rotating hop (quick)
    for npdu in (1, 2, 14, 15, 16, 17, 254):
        for label, dst, mk in data_pairs:
            for fl in fsets:
                for hop in (hops_valid if not ctx.quick else (rot(hops_valid),)):
                    k += 1
                    if not ctx.mine(k):
                        continue
                    if ctx.quick and npdu in (2, 17, 254) and (k % 4):
                        continue
                    payload = _gv_payload(npdu, rng)
                    _judge_built(ctx, label, rot(CODES), rot(infos, 1), rot(src_choices, 2), dst, mk(), payload, npdu,
                                 fl, hop, type(payload).__name__)

    # (3) control TPDUs (NPDU 0) x flag sets x hops
    for label, dst, mk in ctrl_pairs:
        for fl in fsets[:: ctx.scale(5, 1)]:
            for hop in (hops_valid if not ctx.quick else (rot(hops_valid), 7, 0)):
                k += 1
                if not ctx.mine(k):
                    continue
                _judge_built(ctx, label, rot(CODES), rot(infos, 1), rot(src_choices, 2), dst, mk(), None, 0, fl, hop, "control")

    # (4) several instances of every service class (every layout, zero / 0xFF fills) x data TPCI pairs
    for name, obj, npdu in services:
        for label, dst, mk in data_pairs[:: ctx.scale(3, 1)]:
            k += 1
            if not ctx.mine(k):
                continue
            _judge_built(ctx, label, rot(CODES), rot(infos, 1), rot(src_choices, 2), dst, mk(), obj, npdu,
                         rot(fsets, 4), rot(hops_valid, 3), name)

    # (5) hop counts outside 0..7 must be refused, whatever else is in the frame
    for hop in hops_bad:
        for label, dst, mk in data_pairs[::2] + ctrl_pairs[::5]:
            for fl in fsets[:: ctx.scale(9, 2)]:
                k += 1
                if not ctx.mine(k):
                    continue
                control = (label, dst, mk) in ctrl_pairs
                npdu = 0 if control else rot((1, 2, 15, 16, 40))
                payload = None if control else _gv_payload(npdu, rng)
                _judge_built(ctx, label, rot(CODES), b"", rot(src_choices, 2), dst, mk(), payload, npdu, fl, hop,
                             "control" if control else type(payload).__name__)

    # (7) flags fields assigned on an already built (and once serialised) frame, then serialised again:
    #     out-of-range hop counts must still be refused, everything valid must still round-trip
    for hop in hops_valid + hops_bad + [9, 10, 12, 32, 128, -2]:
        for label, dst, mk in data_pairs[:: ctx.scale(4, 1)] + ctrl_pairs[:: ctx.scale(11, 3)]:
            for fl in fsets[:: ctx.scale(5, 1)]:
                k += 1
                if not ctx.mine(k):
                    continue
                control = (label, dst, mk) in ctrl_pairs
                npdu = 0 if control else rot((1, 2, 15, 16, 40))
                payload = None if control else _gv_payload(npdu, rng)
                _judge_built(ctx, label, rot(CODES), rot(infos, 1), rot(src_choices, 2), dst, mk(), payload, npdu, fl, hop,
                             "control" if control else type(payload).__name__, assign=True)

    # (6) via the public path: Telegram -> CEMILData.init_from_telegram -> frame -> octets -> telegram
    for label, dst, mk in data_pairs + ctrl_pairs:
        k += 1
        if not ctx.mine(k):
            continue
        control = mk().control
        for npdu in ((0,) if control else (1, 15, 16, 254, 255)):
            ctx.ev()
            payload = None if control else _gv_payload(npdu, rng)
            tg = Telegram(destination_address=dst, tpci=mk(), payload=payload, source_address=IndividualAddress("1.1.9"))
            fr = CEMIFrame(code=CEMIMessageCode.L_DATA_REQ, data=CEMILData.init_from_telegram(tg))
            try:
                raw = fr.to_knx()
            except ConversionError:
                if npdu > 254:
                    ctx.count("refused_as_required")
                else:
                    ctx.violation("valid-telegram-refused-ConversionError", {"dst_tpci": label, "npdu_len": npdu},
                                  f"telegram ({label}, NPDU {npdu}) refused")
                continue
            if npdu > 254:
                ctx.violation("npdu-over-254-serialised", {"dst_tpci": label, "npdu_len": npdu, "via": "Telegram"},
                              f"a telegram with NPDU length {npdu} was serialised")
                continue
            try:
                tg2 = CEMIFrame.from_knx(raw).data.telegram()
                ok = (tg2.destination_address == dst and type(tg2.destination_address) is type(dst)
                      and type(tg2.tpci) is type(tg.tpci) and tg2.tpci.sequence_number == tg.tpci.sequence_number
                      and same(tg2.payload, payload) and tg2.source_address == tg.source_address)
            except Exception as exc:  # noqa: BLE001
                ok = False
                raw = raw + repr(exc).encode()[:60]
            ctx.count("telegram_roundtrips")
            if not ok:
                ctx.violation("telegram-roundtrip-differs", {"dst_tpci": label, "npdu_len": npdu, "raw": raw[:80]},
                              f"telegram ({label}, NPDU {npdu}) differs after frame round trip")


def _received_frames(ctx) -> None:
    """Every L_Data frame of the C12 corpus that parses: to_knx() == received octets under the allowed mask."""
    gen_rng = random.Random(f"C12-gen/{ctx.seed}")  # same stream as C12
    shown = 0

    def variant_frames():
        """Every service layout / fill of _variant_apdus() as a received frame (group data and connected data)."""
        for _name, apdu in _variant_apdus(ctx):
            if len(apdu) > 255:
                continue
            yield "V", G.l_data(G.L_DATA_IND, ctrl1=0x3C if len(apdu) > 16 else 0xBC, ctrl2=0xE0, dst=0x0901, tpdu=apdu)
            yield "V", G.l_data(G.L_DATA_CON, ctrl1=0xB0, ctrl2=0x60, dst=0x1105, tpdu=bytes((apdu[0] | 0x4C,)) + apdu[1:])

    import itertools

    for i, (origin, raw) in enumerate(itertools.chain(variant_frames(), G.structured_frames(gen_rng, not ctx.quick))):
        if not ctx.mine(i):
            continue
        try:
            frame = CEMIFrame.from_knx(raw)
        except (CouldNotParseCEMI, UnsupportedCEMIMessage):
            ctx.count("received_rejected")
            continue
        except Exception:  # noqa: BLE001  (C12's subject)
            ctx.count("received_other_exception_c12")
            continue
        if not isinstance(frame.data, CEMILData):
            ctx.count("received_non_link_frames")
            continue
        ctx.ev()
        d = frame.data
        pname = type(d.payload).__name__ if d.payload is not None else None
        witness = {"raw": raw[:300], "origin": origin, "payload_class": pname, "tpci": repr(d.tpci)}
        if d.payload is not None:
            try:
                d.payload.to_knx()
            except Exception:  # noqa: BLE001  the service's own encoder refuses what its decoder produced: C05/C06
                ctx.count("received_payload_not_reencodable_apci_level_unjudged")
                continue
        try:
            again = frame.to_knx()
        except Exception as exc:  # noqa: BLE001
            npdu_octet = raw[2 + raw[1] + 6]
            if npdu_octet > 254:
                ctx.violation("received-frame-with-npdu-length-255-accepted-but-cannot-be-reserialised",
                              dict(witness, exception=repr(exc)[:200]),
                              f"a received frame whose length octet is {npdu_octet} (escape code) parses, but to_knx refuses it: "
                              f"{type(exc).__name__}")
            else:
                ctx.violation(f"received-frame-cannot-be-reserialised-{pname or 'control'}-{type(exc).__name__}",
                              dict(witness, exception=repr(exc)[:200]),
                              f"a received frame carrying {pname} parses but to_knx raises {type(exc).__name__}")
            continue
        what, exact = G.reserialise_diff(raw, again, pname)
        ctx.count("reserialised_exact_table" if exact else "reserialised_coarse")
        if what is not None:
            suffix = f"-{pname}" if what.startswith("ap") else (f"-{type(d.tpci).__name__}" if what == "tpci-bits" else "")
            ctx.violation(f"reserialised-frame-differs-{what}{suffix}",
                          dict(witness, reserialised=again[:300]),
                          f"re-serialising a received frame changed {what} ({pname}): {raw[:40].hex()} -> {again[:40].hex()}")
        h = 2 + raw[1]
        npdu = raw[h + 6]
        if bool(again[h] & G.FT_BIT) != (npdu <= 15):
            ctx.violation("reserialised-frame-type-bit-wrong-npdu-" + ("le15" if npdu <= 15 else "gt15"),
                          dict(witness, reserialised=again[:300]),
                          f"re-serialised frame with NPDU length {npdu} has frame type bit {again[h] >> 7}")
        if (raw[h] ^ again[h]) & G.FT_BIT:
            ctx.count("reserialise_corrected_frame_type_bit")
        if (raw[h] ^ again[h]) & G.CTRL1_RESERVED:
            ctx.count("reserialise_cleared_reserved_ctrl1_bit6")
        if raw != again:
            ctx.count("reserialise_changed_allowed_bits")
        else:
            ctx.count("reserialise_identical")
        ctx.distinct(("recv", origin[:2], pname, repr(type(d.tpci).__name__), min(len(raw), 40) // 4, raw == again))
        if shown < 3 and raw != again:
            shown += 1
            ctx.sample({"received": raw[:60], "reserialised": again[:60], "payload_class": pname})


def run(ctx):
    ctx.rule = (
        "built: legal (destination, TPCI) x group-value APDU of every NPDU length 1..254 (+255/256/300 refusals) x flag sets x hop "
        "counts, one decoded instance per service class; received: accepted L_Data frames of the C12 structured corpus. distinct = "
        "(dst/TPCI label, payload class, NPDU bucket, message code, info present) + flag tuples + (origin, payload class, TPCI, length bucket, identical?)"
    )
    ctx.require("built_roundtrips", "wire_bits_checked", "refused_as_required", "reserialised_exact_table",
                "reserialise_changed_allowed_bits", "reserialise_identical", "service_classes_instantiated", "telegram_roundtrips",
                "flags_assigned_after_construction",
                "variant_apdus", "service_instances")
    _built_frames(ctx)
    ctx.count("overlong_group_value_refused_at_creation_already", _gv_payload.refused_at_creation)
    ctx.count("overlong_apdu_of_a_service_without_own_length_limit", _gv_payload.overlong_other_service)
    ctx.require("overlong_apdu_of_a_service_without_own_length_limit")
    _received_frames(ctx)
