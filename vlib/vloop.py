"""Virtual-time asyncio loop with in-memory endpoints.

The real xknx transports / tunnels / queues run unmodified on this loop.  Time is
a counter advanced by the timeout the selector would have slept; no socket is
ever opened.  `select(None)` with nothing ready means nothing can ever happen
again: a definite deadlock, not a wall-clock guess.
"""

from __future__ import annotations

import asyncio
from collections.abc import Callable, Coroutine
import selectors
from typing import Any


class Deadlock(Exception):
    """The awaited coroutine can never finish: no timers, no ready callbacks."""


class LoopBudget(Exception):
    """Virtual-time or iteration budget exceeded."""


class FakeDatagramTransport(asyncio.DatagramTransport):
    """Records what xknx sends; lets a scripted peer inject datagrams."""

    def __init__(
        self,
        loop: VLoop,
        protocol: asyncio.DatagramProtocol,
        local_addr: tuple[str, int],
        kind: str,
    ) -> None:
        super().__init__()
        self.loop = loop
        self.protocol = protocol
        self.local_addr = local_addr
        self.kind = kind  # "udp" | "multicast_listener"
        self.closed = False
        self.sent: list[tuple[float, bytes, tuple[str, int] | None]] = []
        self.on_send: Callable[[bytes, tuple[str, int] | None], None] | None = None

    def sendto(self, data: bytes, addr: Any = None) -> None:  # type: ignore[override]
        if self.closed:
            self.loop.events.append(("send_after_close", self.loop.time(), bytes(data)))
            return
        self.sent.append((self.loop.time(), bytes(data), addr))
        self.loop.wire.append((self.loop.time(), "tx", bytes(data), addr, self))
        if self.on_send is not None:
            self.on_send(bytes(data), addr)
        elif self.loop.on_send is not None:
            self.loop.on_send(self, bytes(data), addr)

    def deliver(self, data: bytes, addr: tuple[str, int] = ("10.0.0.2", 3671)) -> None:
        """Inject a datagram right now (synchronously, like the selector would)."""
        if self.closed:
            return
        self.loop.wire.append((self.loop.time(), "rx", bytes(data), addr, self))
        self.protocol.datagram_received(data, addr)

    def deliver_later(
        self, delay: float, data: bytes, addr: tuple[str, int] = ("10.0.0.2", 3671)
    ) -> asyncio.TimerHandle:
        return self.loop.call_later(delay, self.deliver, data, addr)

    def get_extra_info(self, name: str, default: Any = None) -> Any:
        if name == "sockname":
            return self.local_addr
        if name == "peername":
            return None
        return default

    def close(self) -> None:
        if not self.closed:
            self.closed = True
            self.loop.call_soon(self.protocol.connection_lost, None)

    def is_closing(self) -> bool:
        return self.closed

    def abort(self) -> None:
        self.close()


class FakeStreamTransport(asyncio.Transport):
    """In-memory TCP transport."""

    def __init__(
        self,
        loop: VLoop,
        protocol: asyncio.Protocol,
        remote: tuple[str, int],
    ) -> None:
        super().__init__()
        self.loop = loop
        self.protocol = protocol
        self.remote = remote
        self.closed = False
        self.sent: list[tuple[float, bytes]] = []
        self.on_send: Callable[[bytes], None] | None = None

    def write(self, data: bytes) -> None:  # type: ignore[override]
        if self.closed:
            self.loop.events.append(("send_after_close", self.loop.time(), bytes(data)))
            return
        self.sent.append((self.loop.time(), bytes(data)))
        self.loop.wire.append((self.loop.time(), "tx", bytes(data), None, self))
        if self.on_send is not None:
            self.on_send(bytes(data))
        elif self.loop.on_send is not None:
            self.loop.on_send(self, bytes(data), None)

    def deliver(self, data: bytes) -> None:
        if self.closed:
            return
        self.loop.wire.append((self.loop.time(), "rx", bytes(data), None, self))
        self.protocol.data_received(data)

    def deliver_later(self, delay: float, data: bytes) -> asyncio.TimerHandle:
        return self.loop.call_later(delay, self.deliver, data)

    def lose(self, exc: Exception | None = None) -> None:
        """Peer closed / connection reset."""
        if not self.closed:
            self.closed = True
            self.protocol.connection_lost(exc)

    def get_extra_info(self, name: str, default: Any = None) -> Any:
        if name == "sockname":
            return ("10.0.0.1", 50000)
        if name == "peername":
            return self.remote
        return default

    def close(self) -> None:
        if not self.closed:
            self.closed = True
            self.loop.call_soon(self.protocol.connection_lost, None)

    def is_closing(self) -> bool:
        return self.closed

    def abort(self) -> None:
        self.close()


class _VSelector:
    """Wraps the real selector: never blocks, advances the virtual clock."""

    def __init__(self, loop: VLoop, real: selectors.BaseSelector) -> None:
        self._loop = loop
        self._real = real

    def select(self, timeout: float | None = None) -> Any:
        events = self._real.select(0)
        loop = self._loop
        loop.iterations += 1
        if loop.iterations > loop.max_iterations:
            loop.budget_exceeded = True
            loop.stop()
            return events
        if events:
            return events
        if timeout is None:
            # nothing ready, nothing scheduled: nothing will ever happen again
            loop.deadlock = True
            loop.stop()
            return events
        if timeout > 0:
            loop._vtime += timeout
            if loop._vtime > loop.max_vtime:
                loop.budget_exceeded = True
                loop.stop()
        return events

    def __getattr__(self, name: str) -> Any:
        return getattr(self._real, name)


class VLoop(asyncio.SelectorEventLoop):
    """SelectorEventLoop on a virtual clock with fake endpoints."""

    def __init__(self) -> None:
        super().__init__()
        self._vtime = 1000.0
        self._selector = _VSelector(self, self._selector)  # type: ignore[assignment]
        self.deadlock = False
        self.budget_exceeded = False
        self.iterations = 0
        self.max_iterations = 2_000_000
        self.max_vtime = 1000.0 + 1e7
        self.datagram_transports: list[FakeDatagramTransport] = []
        self.stream_transports: list[FakeStreamTransport] = []
        self.wire: list[tuple[float, str, bytes, Any, Any]] = []
        self.events: list[tuple[Any, ...]] = []
        self.exceptions: list[dict[str, Any]] = []
        self.on_send: Callable[[Any, bytes, Any], None] | None = None
        self.on_datagram_endpoint: Callable[[FakeDatagramTransport], None] | None = None
        self.on_connection: Callable[[FakeStreamTransport], None] | None = None
        self.connect_fails: Callable[[], Exception | None] | None = None
        self.set_exception_handler(self._handler)
        self._port = 40000

    # -- clock ------------------------------------------------------------
    def time(self) -> float:
        return self._vtime

    def _handler(self, loop: asyncio.AbstractEventLoop, context: dict[str, Any]) -> None:
        exc = context.get("exception")
        self.exceptions.append(
            {
                "message": context.get("message"),
                "exception": repr(exc),
                "type": type(exc).__name__ if exc is not None else None,
                "time": self._vtime,
            }
        )

    # -- endpoints --------------------------------------------------------
    async def create_datagram_endpoint(  # type: ignore[override]
        self, protocol_factory: Any, local_addr: Any = None, remote_addr: Any = None, **kw: Any
    ) -> Any:
        if self.connect_fails is not None:
            exc = self.connect_fails()
            if exc is not None:
                raise exc
        protocol = protocol_factory()
        if kw.get("sock") is not None:
            kind = "multicast_listener"
            addr = ("224.0.23.12", 3671)
        else:
            kind = "udp"
            self._port += 1
            host = local_addr[0] if local_addr and local_addr[0] not in ("0.0.0.0", "") else "10.0.0.1"
            port = local_addr[1] if local_addr and local_addr[1] else self._port
            addr = (host, port)
        transport = FakeDatagramTransport(self, protocol, addr, kind)
        self.datagram_transports.append(transport)
        protocol.connection_made(transport)
        if self.on_datagram_endpoint is not None:
            self.on_datagram_endpoint(transport)
        return transport, protocol

    async def create_connection(  # type: ignore[override]
        self, protocol_factory: Any, host: Any = None, port: Any = None, **kw: Any
    ) -> Any:
        if self.connect_fails is not None:
            exc = self.connect_fails()
            if exc is not None:
                raise exc
        protocol = protocol_factory()
        transport = FakeStreamTransport(self, protocol, (host, port))
        self.stream_transports.append(transport)
        protocol.connection_made(transport)
        if self.on_connection is not None:
            self.on_connection(transport)
        return transport, protocol

    # -- running ------------------------------------------------------------
    def run(self, coro: Coroutine[Any, Any, Any], max_vtime: float | None = None) -> Any:
        """run_until_complete with deadlock / budget detection."""
        if max_vtime is not None:
            self.max_vtime = self._vtime + max_vtime
        self.deadlock = False
        self.budget_exceeded = False
        task = self.create_task(coro)
        task.add_done_callback(lambda _t: self.stop())
        try:
            self.run_forever()
        finally:
            pass
        if not task.done():
            was_deadlock = self.deadlock
            task.cancel()
            # let cancellation propagate
            self.deadlock = False
            self.budget_exceeded = False
            self.max_iterations += 100_000
            self.max_vtime += 1000
            try:
                self.run_until_complete(asyncio.gather(task, return_exceptions=True))
            except BaseException:
                pass
            if was_deadlock:
                raise Deadlock("nothing ready, nothing scheduled, awaited future pending")
            raise LoopBudget("virtual time / iteration budget exceeded")
        return task.result()

    def finish(self) -> list[asyncio.Task[Any]]:
        """Cancel everything left; return tasks that were still pending (leaks)."""
        leaked = [t for t in asyncio.all_tasks(self) if not t.done()]
        for t in leaked:
            t.cancel()
        if leaked:
            self.deadlock = False
            self.budget_exceeded = False
            self.max_iterations += 100_000
            self.max_vtime += 1000
            try:
                self.run_until_complete(asyncio.gather(*leaked, return_exceptions=True))
            except BaseException:
                pass
        try:
            self.run_until_complete(self.shutdown_asyncgens())
        except BaseException:
            pass
        self.close()
        return leaked


def new_loop() -> VLoop:
    loop = VLoop()
    asyncio.set_event_loop(loop)
    return loop


def patch_multicast() -> None:
    """Multicast sockets are never really opened."""
    from xknx.io.transport.udp_transport import UDPTransport

    class _NoSock:
        def close(self) -> None:
            pass

    UDPTransport.create_multicast_sock = staticmethod(lambda own_ip, remote_addr: _NoSock())  # type: ignore[assignment]
