"""C35 state updater: reads exactly when the tracking policy says (window rules with explicit slack)."""

from __future__ import annotations

import asyncio
import random

from xknx.core import XknxConnectionState
from xknx.devices import BinarySensor, Device, Sensor, Switch
from xknx.remote_value import RemoteValueSwitch
from xknx.dpt import DPTArray, DPTBinary
from xknx.telegram import Telegram
from xknx.telegram.address import GroupAddress
from xknx.telegram.apci import GroupValueRead, GroupValueResponse, GroupValueWrite

from vlib.core_harness import (
    CONNECTED,
    OK,
    Outcome,
    queue_outgoing,
    bounded,
    fake,
    inject_incoming,
    make_xknx,
    run_case,
    set_state,
    watch_device_process,
)

LEVEL = "exploration"
TECHNIQUE = (
    "runtime monitor: real StateUpdater/ValueReader/TelegramQueue/devices on a virtual clock with a scripted bus that answers reads or "
    "not; every GroupValueRead is observed when it is put on xknx.telegrams (virtual time + connection state at that moment) and when it "
    "reaches the interface; a per-tracker window automaton written from the statement decides"
)
LEVEL_TEXT = (
    "Histories of 12-45 timed operations over 2-6 devices (Switch/Sensor/BinarySensor) with trackers {init, expire n, every n, True, n, "
    "False}: connection transitions through the real ConnectionManager, state telegrams via the state and the write address (incoming and "
    "device-originated), device add/remove while running, bus answer delay per address {0.05,0.5,1.9 s,never}, waits chosen around the "
    "tracker intervals and the 2 s reader timeout including exact timer ties. Exploration: histories are sampled."
)
LEVEL_NOTE = (
    "Trusted: the virtual loop. Windows, not instants: SLACK = (2 s + longest busy stretch of the outgoing queue) x (trackers + 1) + 0.1 s "
    "covers the 2 s reader timeout, the queue behind the two-read semaphore and the wait for a busy outgoing queue (slow interface, "
    "bursts). A state telegram whose device callback raises still is a state update (the value was stored). Judged per connection period of a registered tracker: the first read comes within SLACK (an 'expire' "
    "tracker may have it replaced by a state update); init: never a second read; expire: every later read >= interval after the last state "
    "update/read of that value, and none missing for interval+SLACK; every: later reads interval..interval+SLACK apart; no read put on the "
    "queue while the state is not CONNECTED, for an unregistered / sync_state=False value, or after stop(); unanswered reads younger than "
    "the 2 s reader timeout, counted within one connection period, never exceed two. Only decodable state telegrams are generated. "
    "Two races of the shielded read get mechanism strings of their own (so that nothing else hides behind them): a read put on the queue at "
    "most one loop iteration after the loss/unregistration that ended the period, once (read-issued-*-one-loop-turn-after-*), and a third "
    "read while the read of a tracker cancelled by unregistration / a state update is still waiting and the still-running trackers alone "
    "respect the limit (third-read-started-while-read-of-cancelled-tracker-still-waiting-after-*). A read and a state update in the same "
    "instant are order-ambiguous for the 'expire' lower bound and not judged; reads put during XKNX.stop() while still CONNECTED are recorded."
)
SHARDS = {"quick": 1, "thorough": 16}
TIMEOUT = {"quick": 300, "thorough": 3000}

EPS = 1e-6
READ_TIMEOUT = 2.0
OPTIONS = ["init", "expire 1", "expire 2", "every 1", "every 2", True, 1, 2, "init 5", "expire", False]


def parse_option(opt) -> tuple[str, float] | None:
    """(type, interval seconds) from the documented meaning of sync_state."""
    if opt is False:
        return None
    if opt is True:
        return ("expire", 3600.0)
    if isinstance(opt, (int, float)):
        return ("expire", 60.0 * opt)
    parts = opt.split()
    kind = parts[0]
    minutes = float(parts[1]) if len(parts) > 1 else 60.0
    return (kind, 60.0 * minutes)


def gen_case(rng: random.Random) -> dict:
    n = rng.randint(2, 6)
    devs = []
    for i in range(n):
        kind = rng.choice(("switch", "switch", "sensor", "binary", "raising"))
        devs.append({"kind": kind, "option": rng.choice(OPTIONS), "state_addr": f"1/1/{i + 1}", "write_addr": f"1/0/{i + 1}",
                     "bus": rng.choice((0.05, 0.5, 1.9, None, None)), "initial": rng.random() < 0.7,
                     # a second, passive state address (group_address_state=[state, passive])
                     "passive_addr": f"1/2/{i + 1}" if rng.random() < 0.4 else None})
    ops = []
    dts = (0.0, 0.0, 0.5, 1.9, 2.0, 2.1, 10.0, 30.0, 58.0, 59.0, 60.0, 61.0, 100.0, 119.0, 120.0, 121.0, 125.0, 200.0, 1800.0)
    for _ in range(rng.randint(12, 45)):
        k = rng.choices(("state", "update", "set", "add", "remove", "bus", "wait", "burst", "busy_flap", "busy_readd"),
                        (22, 22, 8, 8, 8, 6, 22, 4, 3, 3))[0]
        op = {"dt": rng.choice(dts), "op": k, "dev": rng.randrange(n)}
        if k == "state":
            op["state"] = rng.choice(("CONNECTED", "CONNECTED", "CONNECTED", "DISCONNECTED", "CONNECTING"))
        elif k == "update":
            op["via"] = rng.choice(("state", "state", "write", "passive", "passive"))
            op["response"] = rng.random() < 0.4
        elif k == "bus":
            op["bus"] = rng.choice((0.05, 0.5, 1.9, None))
        elif k in ("burst", "busy_flap", "busy_readd"):
            op["n"] = rng.randint(2, 4)
        ops.append(op)
    # a slow interface: every non-read telegram takes this long to send, so bursts keep the outgoing queue busy
    return {"devs": devs, "ops": ops, "initial_connected": rng.random() < 0.7, "send_delay": rng.choice((0.0, 0.0, 0.5, 1.5))}


class RaisingCallbackDevice(Device):
    """User-defined device around one RemoteValueSwitch whose after_update callback raises."""

    def __init__(self, xknx, name, group_address_state, sync_state) -> None:
        super().__init__(xknx, name)
        self.rv = RemoteValueSwitch(xknx, group_address_state=group_address_state, sync_state=sync_state,
                                    device_name=name, after_update_cb=self._changed)

    def _changed(self, _value) -> None:
        raise ValueError("device callback failed")

    def _iter_remote_values(self):  # type: ignore[override]
        yield self.rv

    def process_group_write(self, telegram) -> None:  # type: ignore[override]
        self.rv.process(telegram)


class EventLog(list):
    """Chronological log; every entry is stamped with the loop iteration it was made in."""

    def __init__(self) -> None:
        super().__init__()
        self.iters: list[int] = []

    def append(self, entry) -> None:  # type: ignore[override]
        super().append(entry)
        self.iters.append(getattr(asyncio.get_running_loop(), "iterations", 0))


class RecordingQueue(asyncio.Queue):
    """xknx.telegrams (public slot) that notes what is put, when, and the connection state at that moment."""

    def __init__(self, xknx, events: list) -> None:
        super().__init__()
        self._xknx = xknx
        self._events = events

    def put_nowait(self, item) -> None:  # type: ignore[override]
        if item is not None and isinstance(item.payload, GroupValueRead):
            self._events.append(("read", asyncio.get_running_loop().time(), str(item.destination_address),
                                 self._xknx.connection_manager.state))
        elif item is not None and item.direction.name == "OUTGOING":
            self._events.append(("output", asyncio.get_running_loop().time(), None))
        super().put_nowait(item)


def run_one(ctx, case_seed: str) -> None:
    rng = random.Random(case_seed)
    case = gen_case(rng)
    events = EventLog()  # chronological: ("op", t, what, dev, extra) | ("read", t, addr, state) | ("update", t, dev)
    info: dict = {"stalled": False}

    async def main(loop):
        def script(cemi, _index):
            payload = getattr(cemi.data, "payload", None)
            if case["send_delay"] and not isinstance(payload, GroupValueRead):
                return Outcome(kind="slow", delay=case["send_delay"])
            return OK

        xknx = make_xknx(connect_on_start=case["initial_connected"], script=script)
        xknx.telegrams = RecordingQueue(xknx, events)
        iface = fake(xknx)
        bus = {d["state_addr"]: d["bus"] for d in case["devs"]}
        devices = []
        for i, d in enumerate(case["devs"]):
            d = dict(d)
            if d.get("passive_addr"):
                d["state_addr"] = [d["state_addr"], d["passive_addr"]]
            if d["kind"] == "switch":
                dev = Switch(xknx, f"dev{i}", group_address=d["write_addr"], group_address_state=d["state_addr"], sync_state=d["option"])
            elif d["kind"] == "sensor":
                dev = Sensor(xknx, f"dev{i}", group_address_state=d["state_addr"], value_type="temperature", sync_state=d["option"])
            elif d["kind"] == "raising":
                dev = RaisingCallbackDevice(xknx, f"dev{i}", d["state_addr"], d["option"])
            else:
                dev = BinarySensor(xknx, f"dev{i}", group_address_state=d["state_addr"], sync_state=d["option"])
            devices.append(dev)
        info["devices"] = devices

        toggle = [0]

        def value_for(i):
            toggle[0] ^= 1  # alternate, so that the value changes and the after_update callbacks fire every time
            return DPTArray((0x0C, 0x1A + toggle[0])) if case["devs"][i]["kind"] == "sensor" else DPTBinary(toggle[0])

        def answer(addr):
            if xknx.connection_manager.state != CONNECTED:
                return  # nothing arrives over a lost connection
            i = int(addr.split("/")[2]) - 1
            events.append(("bus", loop.time(), addr))
            inject_incoming(xknx, Telegram(destination_address=GroupAddress(addr), payload=GroupValueResponse(value_for(i))))

        def on_handoff(ho):
            t = ho.telegram
            if t is not None and isinstance(t.payload, GroupValueRead):
                addr = str(t.destination_address)
                events.append(("handoff", loop.time(), addr))
                if bus.get(addr) is not None:
                    loop.call_later(bus[addr], answer, addr)

        iface.on_handoff.append(on_handoff)

        def on_end(ho):
            if ho.telegram is not None and not isinstance(ho.telegram.payload, GroupValueRead):
                events.append(("outdone", loop.time(), None))

        iface.on_handoff_end.append(on_end)

        def do_state(new, t):
            if new != xknx.connection_manager.state:
                events.append(("op", t, "state", None, new))
                set_state(xknx, new)

        def do_add(i, t):
            if i not in registered:
                events.append(("op", t, "add", i, None))
                xknx.devices.async_add(devices[i])
                registered.add(i)

        def do_remove(i, t):
            if i in registered:
                events.append(("op", t, "remove", i, None))
                xknx.devices.async_remove(devices[i])
                registered.discard(i)

        def burst(n):
            for _ in range(n):
                queue_outgoing(xknx, Telegram(destination_address=GroupAddress("9/0/1"), payload=GroupValueWrite(DPTBinary(1))))

        def seen(telegram):
            # a value telegram is being processed: every ValueReader waiting on that address is answered now
            if isinstance(telegram.payload, (GroupValueWrite, GroupValueResponse)):
                events.append(("seen", loop.time(), str(telegram.destination_address)))

        xknx.telegram_queue.register_telegram_received_cb(seen)
        registered = set()
        for i, d in enumerate(case["devs"]):
            if d["initial"]:
                xknx.devices.async_add(devices[i])
                registered.add(i)
                events.append(("op", loop.time(), "add", i, None))
        events.append(("op", loop.time(), "start", None, xknx.connection_manager.state))
        await xknx.start()
        events.append(("op", loop.time(), "started", None, xknx.connection_manager.state))
        for op in case["ops"]:
            if op["dt"]:
                await asyncio.sleep(op["dt"])
            k = op["op"]
            i = op["dev"]
            t = loop.time()
            if k == "state":
                new = XknxConnectionState[op["state"]]
                if new == CONNECTED and not op["dt"]:
                    await asyncio.sleep(0)  # establishing a connection needs I/O: never in the same loop turn as the loss
                    t = loop.time()
                do_state(new, t)
            elif k == "burst":
                burst(op["n"])
            elif k == "busy_flap":
                # trackers (re)start and wait for a busy outgoing queue, then are cancelled by a loss, and start again
                burst(op["n"])
                do_state(XknxConnectionState.DISCONNECTED, loop.time())
                await asyncio.sleep(0)
                do_state(CONNECTED, loop.time())
                await asyncio.sleep(0.2)
                do_state(XknxConnectionState.DISCONNECTED, loop.time())
                await asyncio.sleep(0)
                do_state(CONNECTED, loop.time())
            elif k == "busy_readd":
                burst(op["n"])
                do_remove(i, loop.time())
                do_add(i, loop.time())
                await asyncio.sleep(0.2)
                do_remove(i, loop.time())
                await asyncio.sleep(0)
                do_add(i, loop.time())
            elif k == "update":
                if xknx.connection_manager.state != CONNECTED:
                    continue
                d = case["devs"][i]
                addr = d["write_addr"] if (op["via"] == "write" and d["kind"] == "switch") else d["state_addr"]
                if op["via"] == "passive" and d.get("passive_addr"):
                    addr = d["passive_addr"]
                    ctx.count("state_telegrams_on_a_passive_state_address")
                p = GroupValueResponse(value_for(i)) if op["response"] else GroupValueWrite(value_for(i))
                events.append(("bus", t, addr))
                inject_incoming(xknx, Telegram(destination_address=GroupAddress(addr), payload=p))
            elif k == "set":
                if case["devs"][i]["kind"] == "switch" and i in registered:
                    await devices[i].set_on()
            elif k == "add":
                do_add(i, t)
            elif k == "remove":
                do_remove(i, t)
            elif k == "bus":
                bus[case["devs"][i]["state_addr"]] = op["bus"]
        await asyncio.sleep(rng.choice((0.0, 5.0, 130.0)))
        events.append(("op", loop.time(), "stop", None, None))
        ok, _ = await bounded(xknx.stop(), 1000.0)
        if not ok:
            info["stalled"] = True
            xknx.started.clear()
            return
        events.append(("op", loop.time(), "stopped", None, None))
        await asyncio.sleep(400.0)
        events.append(("op", loop.time(), "end", None, None))

    def now():
        return asyncio.get_running_loop().time()

    def sink(entry):
        t, d, tg, _exc = entry
        devices = info.get("devices") or []
        if isinstance(tg.payload, (GroupValueWrite, GroupValueResponse)) and d in devices:
            events.append(("update", t, devices.index(d), str(tg.destination_address), tg.direction.name))

    with watch_device_process(now, sink):
        res = run_case(main, max_vtime=200000.0, max_iterations=3_000_000)
    wit = {"case_seed": case_seed, "devices": case["devs"], "initial_connected": case["initial_connected"]}
    ctx.ev()
    if res.error or res.deadlock or res.budget or info["stalled"]:
        ctx.violation("history-aborted", dict(wit, error=res.error, deadlock=res.deadlock, budget=res.budget, stalled=info["stalled"]),
                      f"history aborted: {res.error} deadlock={res.deadlock} budget={res.budget} stop-stalled={info['stalled']}")
        return
    judge(ctx, case, events, wit)
    kinds = "".join(e[2][0] if e[0] == "op" else "r" if e[0] == "read" else "" for e in events)
    ctx.distinct((tuple(str(d["option"]) for d in case["devs"]), kinds[:40]))
    ctx.sample({"trackers": [(d["kind"], d["option"], d["bus"]) for d in case["devs"]],
                "events": kinds[:80], "reads": sum(1 for e in events if e[0] == "read"), "vtime": round(res.vtime, 1)}, cap=4)


def judge(ctx, case, events, wit) -> None:
    ntrackers = sum(1 for d in case["devs"] if parse_option(d["option"]) is not None)
    # longest stretch the outgoing queue was busy with other telegrams (a tracker waits for it to drain before it reads)
    busy = 0
    busy_since = None
    longest_busy = 0.0
    busy_at = []
    for e in events:
        busy_at.append(busy)
        if e[0] == "output":
            if busy == 0:
                busy_since = e[1]
            busy += 1
        elif e[0] == "outdone" and busy:
            busy -= 1
            if busy == 0:
                longest_busy = max(longest_busy, e[1] - busy_since)
    if longest_busy > 0:
        ctx.count("histories_with_busy_outgoing_queue")
    slack = (READ_TIMEOUT + longest_busy) * (ntrackers + 1) + 0.1
    addr_of = {d["state_addr"]: i for i, d in enumerate(case["devs"])}
    merged = events  # one chronological list in execution order (ops, reads put, hand-offs, bus telegrams, processed state telegrams)
    t0 = 1000.0

    def rel(t):
        return round(t - t0, 6)

    ctx.count("reads_put_on_queue", sum(1 for e in merged if e[0] == "read"))
    ctx.count("state_updates_processed", sum(1 for e in merged if e[0] == "update"))
    ctx.count("read_handoffs", sum(1 for e in merged if e[0] == "handoff"))

    for i, d in enumerate(case["devs"]):
        pol = parse_option(d["option"])
        kind, interval = pol if pol else (None, None)
        registered = connected = started = stopped = False
        open_ = False
        a = last_read = None
        evs: list = []  # times of reads / state updates of this value in the current period (plus its start)
        first_pending = False
        nreads = 0
        closed_at = None  # [time, cause, loop iteration, reads since] of the last period end
        now_iter = 0
        label = f"{kind}-tracker" if kind else "no-tracker"
        ctx.count("trackers_" + (kind or "none"))

        def w(**kw):
            return dict(wit, device=i, option=str(d["option"]), **kw)

        def last_before(t):
            """Latest read/update/period start strictly before the instant t (same-instant events are order-ambiguous)."""
            c = [e for e in evs if e < t - EPS]
            return max(c) if c else a

        def close(t, why):
            nonlocal open_, closed_at
            if not open_:
                return
            open_ = False
            closed_at = [t, why, now_iter, 0]  # time, cause, loop iteration, late reads seen since
            ctx.count("periods_closed")
            if first_pending:
                if t - a > slack + EPS:
                    ctx.violation(f"{label}-no-initial-read-within-slack", w(period=(rel(a), rel(t)), slack=slack, closed_by=why),
                                  f"device {i} ({d['option']}): connected+registered at {rel(a)} until {rel(t)} but never read")
                else:
                    ctx.count("periods_shorter_than_slack_without_read")
                return
            if kind == "expire" and t - max(evs) > interval + slack + EPS:
                ctx.violation("expire-tracker-missed-read-after-interval", w(last_event=rel(max(evs)), until=rel(t), interval=interval, slack=slack),
                              f"device {i} ({d['option']}): no state update and no read between {rel(max(evs))} and {rel(t)}")
            if kind == "every" and t - last_read > interval + slack + EPS:
                ctx.violation("every-tracker-missed-periodic-read", w(last_read=rel(last_read), until=rel(t), interval=interval, slack=slack),
                              f"device {i} ({d['option']}): no read between {rel(last_read)} and {rel(t)}")

        def reopen(t, why):
            nonlocal open_, a, last_read, first_pending, nreads, evs
            want = registered and connected and started and not stopped and kind is not None
            if want and not open_:
                open_ = True
                a = t
                evs = [t]
                last_read = None
                first_pending = True
                nreads = 0
                ctx.count("periods_opened")
            elif not want and open_:
                close(t, why)

        for ei, e in enumerate(merged):
            if e[0] == "op":
                _, t, what, dev, extra = e
                why = what
                now_iter = merged.iters[ei]
                if what == "add" and dev == i:
                    registered = True
                elif what == "remove" and dev == i:
                    registered = False
                    why = "unregistration"
                elif what == "started":
                    started = True
                    connected = extra == CONNECTED
                elif what == "state":
                    if open_ and extra != CONNECTED:
                        ctx.count("connection_lost_with_tracker_running")
                    connected = extra == CONNECTED
                    why = "connection-loss"
                elif what == "stop":
                    stopped = True
                else:
                    continue
                if open_ and busy_at[ei] > 0 and what in ("state", "remove"):
                    ctx.count("tracker_cancelled_while_outgoing_queue_busy")
                reopen(t, why)
            elif e[0] == "update":
                _, t, dev, _addr, _dirn = e
                if dev != i or not open_:
                    continue
                if d["kind"] == "raising":
                    ctx.count("state_update_with_raising_device_callback")
                if kind == "expire":
                    if first_pending:
                        if t - a > slack + EPS:
                            ctx.violation(f"{label}-no-initial-read-within-slack", w(period=(rel(a), rel(t)), slack=slack, closed_by="update"),
                                          f"device {i} ({d['option']}): connected+registered at {rel(a)}, first event is an update at {rel(t)}, no initial read")
                        else:
                            ctx.count("expire_initial_read_replaced_by_update")
                        first_pending = False
                    elif t - max(evs) > interval + slack + EPS:
                        ctx.violation("expire-tracker-missed-read-after-interval", w(last_event=rel(max(evs)), until=rel(t), interval=interval, slack=slack),
                                      f"device {i} ({d['option']}): no state update and no read between {rel(max(evs))} and {rel(t)}")
                    evs.append(t)
                    ctx.count("expire_timer_reset_by_update")
            elif e[0] == "read":
                _, t, addr, st = e
                if addr_of.get(addr) != i:
                    continue
                ctx.count("reads_judged")
                # The shielded read task starts one loop iteration after the tracker decided to read.  A loss / unregistration
                # in exactly that iteration yields ONE read at most one loop iteration after the period ended: own mechanism,
                # distinct from trackers that keep running after they should have been stopped.
                deferred = False
                if closed_at is not None and t - closed_at[0] < EPS:
                    closed_at[3] += 1
                    deferred = closed_at[3] == 1 and 0 <= merged.iters[ei] - closed_at[2] <= 1
                suffix = "-one-loop-turn-after-" + closed_at[1] if deferred else ""
                if deferred and open_ and st == CONNECTED and registered:
                    # the value was registered again (or the connection came back) in the very same loop turn: the stale read of
                    # the period that just ended must not be taken for the new period's initial read (a tracker started in that
                    # turn needs two more turns to put its own read)
                    mech = ("read-issued-for-unregistered-value" if closed_at[1] == "unregistration" else "read-issued-while-not-connected")
                    ctx.violation(mech + suffix + "", w(t=rel(t), reopened_in_same_turn=True),
                                  f"device {i} ({d['option']}): read put at {rel(t)} by the tracker that was cancelled ({closed_at[1]}) one loop turn before")
                    continue
                if st != CONNECTED:
                    ctx.violation("read-issued-while-not-connected" + suffix, w(t=rel(t), state=str(st)),
                                  f"device {i} ({d['option']}): GroupValueRead put on the queue at {rel(t)} while state is {st}")
                    continue
                if kind is None:
                    ctx.violation("read-issued-for-value-without-tracker", w(t=rel(t)), f"device {i} (sync_state=False) was read at {rel(t)}")
                    continue
                if not registered:
                    ctx.violation("read-issued-for-unregistered-value" + suffix, w(t=rel(t)),
                                  f"device {i} ({d['option']}) was read at {rel(t)} after it was removed")
                    continue
                if stopped:
                    ctx.count("read_put_during_stop_while_still_connected_recorded")
                    continue
                if not open_:
                    ctx.violation("read-issued-outside-any-connection-period", w(t=rel(t)), f"device {i}: read at {rel(t)} outside a period")
                    continue
                nreads += 1
                if nreads == 1 and not first_pending and t - a <= slack + EPS:
                    # "read once per (re)connection": the first read of a period is the initial read even if a
                    # state update was processed just before it (the update only waives the requirement)
                    ctx.count("initial_read_after_early_update")
                elif first_pending:
                    first_pending = False
                    if t - a > slack + EPS:
                        ctx.violation(f"{label}-initial-read-later-than-slack", w(t=rel(t), period_start=rel(a), slack=slack),
                                      f"device {i} ({d['option']}): first read {t - a:.3f}s after (re)connection/registration, slack {slack}")
                    else:
                        ctx.count("initial_read_within_slack")
                elif kind == "init":
                    ctx.violation("init-tracker-read-again", w(t=rel(t), period_start=rel(a)),
                                  f"device {i} (init): read again at {rel(t)} in the connection period that began at {rel(a)}")
                elif kind == "expire":
                    base = last_before(t)
                    if t - base < interval - EPS:
                        ctx.violation("expire-tracker-read-before-interval-elapsed", w(t=rel(t), last_event=rel(base), interval=interval),
                                      f"device {i} ({d['option']}): read at {rel(t)}, only {t - base:.3f}s after the last state update/read")
                    elif t - base > interval + slack + EPS:
                        ctx.violation("expire-tracker-missed-read-after-interval", w(last_event=rel(base), until=rel(t), interval=interval, slack=slack),
                                      f"device {i} ({d['option']}): read at {rel(t)} is {t - base:.3f}s after the last event")
                    else:
                        ctx.count("expire_read_in_window")
                        if max(evs) > t - EPS and max(evs) != base:
                            ctx.count("expire_read_and_update_in_same_instant_order_not_judged")
                elif kind == "every":
                    gap = t - last_read
                    if gap < interval - EPS:
                        ctx.violation("every-tracker-read-before-interval-elapsed", w(t=rel(t), last_read=rel(last_read), interval=interval),
                                      f"device {i} ({d['option']}): periodic reads only {gap:.3f}s apart")
                    elif gap > interval + slack + EPS:
                        ctx.violation("every-tracker-missed-periodic-read", w(last_read=rel(last_read), until=rel(t), interval=interval, slack=slack),
                                      f"device {i} ({d['option']}): periodic reads {gap:.3f}s apart")
                    else:
                        ctx.count("every_read_in_window")
                evs.append(t)
                last_read = t
        if nreads == 1 and kind == "init":
            ctx.count("init_tracker_read_exactly_once_in_last_period")

    # ---- at most two reads in progress.  In progress = put on the queue (the ValueReader waits from then on), younger than the reader timeout, no value
    # telegram seen on that address since.  Counted within one connection period (a reconnect starts afresh).
    inflight: list = []  # (t, addr)
    last_update: dict = {}  # device -> time of the last processed state telegram
    last_remove: dict = {}  # device -> time it was unregistered
    for e in merged:
        if e[0] == "op" and e[2] in ("state", "stop"):
            inflight = []
        elif e[0] == "op" and e[2] == "remove":
            last_remove[e[3]] = e[1]
        elif e[0] == "update":
            last_update[e[2]] = e[1]
        elif e[0] == "seen":
            _, t, addr = e
            inflight = [(rt, ra) for (rt, ra) in inflight if ra != addr]
        elif e[0] == "read":
            _, t, addr, _st = e
            inflight = [(rt, ra) for (rt, ra) in inflight if t - rt < READ_TIMEOUT - EPS]
            inflight.append((t, addr))
            ctx.count("inflight_checked")
            if len(inflight) == 2:
                ctx.count("two_reads_in_flight")
            if len(inflight) > 2:
                # a read whose tracker was cancelled (unregistered, or reset by a state update that did not answer the read)
                # in the same instant or later is still waiting although its semaphore slot was given away
                orphan = set()
                live = 0
                for rt, ra in inflight:
                    dev = addr_of[ra]
                    if last_remove.get(dev, -1.0) >= rt - EPS:
                        orphan.add("unregistration")
                    elif (parse_option(case["devs"][dev]["option"]) or ("", 0))[0] == "expire" and last_update.get(dev, -1.0) >= rt - EPS:
                        orphan.add("state-update")
                    else:
                        live += 1
                # only if the reads of still-running trackers alone respect the limit is the excess explained by the
                # slot that a cancelled tracker gave away while its shielded read kept waiting
                mech = ("third-read-started-while-read-of-cancelled-tracker-still-waiting-after-" + "+".join(sorted(orphan))) \
                    if orphan and live <= 2 else "more-than-two-reads-in-progress"
                ctx.violation(mech, dict(wit, t=rel(t), in_flight=[(rel(rt), ra) for rt, ra in inflight]),
                              f"{len(inflight)} unanswered reads younger than {READ_TIMEOUT}s at {rel(t)}: {[ra for _, ra in inflight]}")


def run(ctx):
    ctx.rule = ("history = 2-6 devices with tracker options from {init, expire 1|2, every 1|2, True, 1, 2, 'init 5', 'expire', False} x 12-45 timed "
                "operations {state change, state telegram via state/write address, device set, add, remove, bus answer policy, wait}; distinct = "
                "(tracker options, operation/read string)")
    ctx.require("reads_judged", "initial_read_within_slack", "expire_read_in_window", "every_read_in_window", "expire_timer_reset_by_update",
                "expire_initial_read_replaced_by_update", "connection_lost_with_tracker_running", "periods_opened", "periods_closed",
                "two_reads_in_flight", "trackers_init", "trackers_expire", "trackers_every", "trackers_none",
                "init_tracker_read_exactly_once_in_last_period", "state_updates_processed", "histories_with_busy_outgoing_queue",
                "tracker_cancelled_while_outgoing_queue_busy", "state_update_with_raising_device_callback",
                "state_telegrams_on_a_passive_state_address")
    n = ctx.scale(1000, 64000)
    for i in range(n):
        if ctx.mine(i):
            run_one(ctx, f"C35/{ctx.seed}/{i}")


def replay(ctx, witness):
    ctx.rule = "replay of one recorded case"
    run_one(ctx, witness["case_seed"])
    ctx.distinct("replay-a")
    ctx.distinct("replay-b")
