"""C18 plain frames to keyed group addresses, outgoing always secured, no received frame makes the receive path raise."""

from __future__ import annotations

from vlib import refcrypto_ds as ref
from vlib.ds_harness import (
    SEQ_MAX,
    Node,
    apci_of,
    group_payload,
    observing_management,
    secure_raw_apdu_frame,
)
from vlib.vloop import Deadlock, LoopBudget, new_loop
from xknx import XKNX
from xknx.cemi import CEMIFrame, CEMILData, CEMIMessageCode
from xknx.devices import ExposeSensor, Sensor, Switch
from xknx.dpt import DPTArray, DPTBinary
from xknx.exceptions import ConversionError, UnsupportedAPCIService
from xknx.secure.data_secure_asdu import SecurityControlField
from xknx.telegram import GroupAddress, IndividualAddress, Telegram, TelegramDirection, tpci
from xknx.telegram.apci import APCI, GroupValueRead, SecureAPDU
from xknx.tools import group_value_read, group_value_response, group_value_write

LEVEL = "exploration"
TECHNIQUE = (
    "runtime monitor: a real XKNX (CEMIHandler + DataSecure + running TelegramQueue + devices) on the virtual loop; plain / secured / "
    "authenticated-but-malformed frames are injected into handle_raw_cemi; telegram, device and key-issue callbacks, the frames handed "
    "to a recording interface and every exception (direct and loop handler) are observed"
)
LEVEL_TEXT = (
    "Generated plain frames to keyed and unkeyed group addresses (T_Data_Group, tag group, broadcast; both frame builders); outgoing "
    "telegrams through the queue, devices, tools and send_telegram incl. counter exhaustion and interface failure; authenticated frames "
    "(both algorithms, three TPCI kinds) whose inner APDU is empty, one octet, and every one of the 1024 APCI codes at several lengths, "
    "plus hostile secured frames (unknown GA / sender, tool access, sync services, truncated, damaged). Exploration (sampled)."
)
LEVEL_NOTE = (
    "Judged: keyed GA + plain frame => no telegram callback, no Device.process, nothing on the queue / management, key-issue callback "
    "exactly once per registration for T_Data_Group (other TPCI: recorded); every frame handed to the interface for a keyed GA carries "
    "APCI 0x3F1 (read from the octets); handle_raw_cemi returns normally for every injected frame and the consumer task stays alive. "
    "A last section starts a real XKNX(connection_config=... keyring ...) through KNXIPInterface._start against the scripted gateway (TCP and UDP "
    "tunnelling) with plain frames to keyed GAs arriving together with the ConnectResponse, right after it and later. "
    "Not judged: what happens to an authenticated frame with malformed content beyond 'does not raise'; unkeyed traffic is a control "
    "(a failing control makes the run inconclusive, not violated)."
)
SHARDS = {"quick": 1, "thorough": 16}
TIMEOUT = {"quick": 200, "thorough": 2000}


class ProbeSwitch(Switch):
    """A real Switch that also records every telegram handed to Device.process."""

    def __init__(self, *a, log=None, **kw):
        super().__init__(*a, **kw)
        self.log = log

    def process(self, telegram):
        self.log.append((self.name, telegram))
        super().process(telegram)


class Bench:
    """Receiver/sender node with callbacks, devices and a running telegram queue."""

    def __init__(self, keyed, unkeyed, senders, own=0x1001, last_seq_sending=1, confirm=True):
        self.keyed = keyed
        self.node = Node(keyed, senders, own_address=own, last_seq_sending=last_seq_sending, confirm=confirm)
        self.xknx = self.node.xknx
        self.cb_all = []
        self.cb_keyed = []
        self.dev = []
        self.key_issue2 = []
        tq = self.xknx.telegram_queue
        tq.register_telegram_received_cb(self.cb_all.append, match_for_outgoing=False)
        tq.register_telegram_received_cb(self.cb_keyed.append, group_addresses=[GroupAddress(g) for g in keyed if g])
        tq.register_data_secure_group_key_issue_cb(self.key_issue2.append)
        self.switches = {}
        for ga in list(keyed) + list(unkeyed):
            if ga == 0:
                continue
            sw = ProbeSwitch(self.xknx, f"sw{ga}", group_address=GroupAddress(ga), sync_state=False, log=self.dev)
            self.xknx.devices.async_add(sw)
            self.switches[ga] = sw

    async def start(self):
        await self.xknx.telegram_queue.start()

    async def stop(self):
        await self.xknx.telegram_queue.stop()

    def marks(self):
        return (len(self.cb_all), len(self.cb_keyed), len(self.dev), len(self.node.key_issues), len(self.key_issue2))

    async def inject(self, raw):
        m = self.marks()
        out = self.node.feed(raw, drain=False)
        queued = self.xknx.telegrams.qsize()
        await self.xknx.telegrams.join()
        n = self.marks()
        return out, queued, tuple(b - a for a, b in zip(m, n))


# ---------------------------------------------------------------------------
# part 1: plain frames

def _plain_frame(rng, sa, da, kind, payload):
    apdu = bytes(payload.to_knx())
    tp = {"group": tpci.TDataGroup(), "tag": tpci.TDataTagGroup(), "broadcast": tpci.TDataBroadcast()}[kind]
    if rng.random() < 0.5:
        return ref.plain_ldata(apdu, sa=sa, da=da, group=True, tpci_octet=tp.to_knx(), ctrl1=rng.choice((0xBC, 0xB0, 0xB4, 0x9C)),
                               hop_count=rng.randrange(8)), "ref"
    t = Telegram(destination_address=GroupAddress(da), payload=payload, tpci=tp)
    raw = CEMIFrame(code=CEMIMessageCode.L_DATA_IND, data=CEMILData.init_from_telegram(t, src_addr=IndividualAddress(sa))).to_knx()
    return bytes(raw), "xknx"


async def _part_plain(ctx, rng, n):
    gas_drawn = rng.sample(range(1, 0x10000), 6)
    keyed = {g: rng.randbytes(16) for g in gas_drawn[:3]}
    if rng.random() < 0.5:
        keyed[0] = rng.randbytes(16)
    unkeyed = gas_drawn[3:]
    senders = {a: 0 for a in rng.sample(range(1, 0x10000), 3)}
    bench = Bench(keyed, unkeyed, senders, own=0x1001)
    await bench.start()
    try:
        for _ in range(n):
            is_keyed = rng.random() < 0.6
            kind = rng.choice(("group",) * 6 + ("tag", "broadcast"))
            if kind == "broadcast":
                da, is_keyed = 0, 0 in keyed
            else:
                da = rng.choice([g for g in keyed if g] if is_keyed else unkeyed)
            sa = rng.choice(list(senders) + [0x1001, rng.randrange(1, 0x10000)])
            payload = group_payload(rng, rng.choice((1, 1, 1, 2, 3, 5, 15, 16, 100)))
            raw, builder = _plain_frame(rng, sa, da, kind, payload)
            state_before = bench.switches[da].state if da in bench.switches else None
            out, queued, (n_all, n_keyed, n_dev, n_issue, n_issue2) = await bench.inject(raw)
            ctx.ev()
            wit = {"raw": raw, "keyed_gas": sorted(keyed), "da": da, "sa": sa, "kind": kind, "builder": builder, "outcome": out.kind(),
                   "telegram_cb": n_all, "filtered_cb": n_keyed, "device_process": n_dev, "key_issue_cb": [n_issue, n_issue2],
                   "queued": queued, "management": len(out.mgmt)}
            ctx.distinct(("plain", is_keyed, kind, type(payload).__name__, min(len(raw), 30), out.kind(), n_all, n_dev, n_issue))
            if out.exc is not None:
                ctx.violation(f"plain-frame-makes-receive-path-raise-{type(out.exc).__name__}", dict(wit, exception=repr(out.exc)[:200]),
                              f"plain frame to {'keyed' if is_keyed else 'unkeyed'} GA made handle_raw_cemi raise")
                continue
            if is_keyed:
                ctx.count("plain_to_keyed")
                ctx.count(f"plain_to_keyed_{kind}")
                if n_all or n_keyed:
                    ctx.violation(f"plain-frame-to-keyed-ga-reaches-telegram-callback-{type(payload).__name__}", wit,
                                  f"plain {type(payload).__name__} to keyed GA {da:#06x} was passed to telegram callbacks")
                if n_dev:
                    ctx.violation(f"plain-frame-to-keyed-ga-reaches-device-{type(payload).__name__}", wit,
                                  f"plain {type(payload).__name__} to keyed GA {da:#06x} was processed by a device")
                elif da in bench.switches and bench.switches[da].state != state_before:
                    ctx.violation("plain-frame-to-keyed-ga-changes-device-state", wit, "device state changed")
                if (queued or out.mgmt) and not (n_all or n_dev):
                    ctx.violation(f"plain-frame-to-keyed-ga-delivered-{kind}", wit, "plain frame to keyed GA was queued / handed to management")
                if kind == "group":
                    if (n_issue, n_issue2) != (1, 1):
                        ctx.violation("plain-frame-to-keyed-ga-key-issue-callbacks-not-called-exactly-once", wit,
                                      f"key-issue callbacks called {n_issue}/{n_issue2} times for one plain frame to a keyed GA")
                    else:
                        ctx.count("key_issue_reported_once")
                        rep = bench.node.key_issues[-1]
                        if rep.destination_address != GroupAddress(da) or bytes(rep.payload.to_knx()) != bytes(payload.to_knx()):
                            ctx.violation("key-issue-report-carries-other-telegram", wit, "key-issue callback got another telegram")
                else:
                    ctx.count(f"key_issue_calls_{kind}_{n_issue}")
            else:
                ctx.count("plain_to_unkeyed")
                expect = 1 if kind == "group" else 0
                if (n_all, n_dev if da in bench.switches else expect) != (expect, expect) or n_issue or n_issue2:
                    ctx.count("control_failed")
                    ctx.inconclusive(f"control failed: plain frame to unkeyed GA: callbacks={n_all} device={n_dev} key_issue={n_issue}")
                elif expect:
                    ctx.count("unkeyed_delivered")
        if len(ctx.samples) < 2:
            ctx.sample({"part": "plain", "last_raw": raw, "keyed": sorted(keyed), "telegram_cb_total": len(bench.cb_all),
                        "key_issue_total": len(bench.node.key_issues)})
    finally:
        await bench.stop()


# ---------------------------------------------------------------------------
# part 2: outgoing telegrams to keyed group addresses

def _dst_of(raw):
    off = 2 + raw[1]
    return raw[off + 1] >> 7, int.from_bytes(raw[off + 4 : off + 6], "big")


async def _part_outgoing(ctx, rng, rounds):
    gas_drawn = rng.sample(range(1, 0x10000), 5)
    keyed = {g: rng.randbytes(16) for g in gas_drawn[:3]}
    unkeyed = gas_drawn[3:]
    own = 0x1105
    exhaust = rng.random() < 0.3
    start = SEQ_MAX - rng.randrange(0, 4) if exhaust else rng.randrange(1, SEQ_MAX - 10_000)
    bench = Bench(keyed, unkeyed, {0x1106: 0}, own=own, last_seq_sending=start, confirm=rng.random() < 0.85)
    if rng.random() < 0.15:
        from xknx.exceptions import CommunicationError

        bench.node.iface.fail = CommunicationError("link down")
    peer = Node(dict(keyed), {own: 0}, own_address=0x1106)
    xknx = bench.xknx
    kg = [g for g in keyed]
    sensor = Sensor(xknx, "sens", group_address_state=GroupAddress(kg[1]), value_type="temperature", sync_state=False)
    expose = ExposeSensor(xknx, "exp", group_address=GroupAddress(kg[2]), value_type="temperature")
    xknx.devices.async_add(sensor)
    xknx.devices.async_add(expose)
    await bench.start()
    intended = 0
    try:
        for _ in range(rounds):
            way = rng.choice(("queue", "queue", "switch", "sensor_read", "expose_set", "tool_write", "tool_read", "tool_response",
                              "send_telegram", "expose_respond", "unkeyed"))
            ga = rng.choice(kg)
            ctx.count(f"outgoing_way_{way}")
            intended += way != "unkeyed"
            try:
                if way == "queue":
                    await xknx.telegrams.put(Telegram(destination_address=GroupAddress(ga), payload=group_payload(rng, rng.choice((1, 2, 5, 20, 200))),
                                                      direction=TelegramDirection.OUTGOING))
                elif way == "switch":
                    await (bench.switches[kg[0]].set_on() if rng.random() < 0.5 else bench.switches[kg[0]].set_off())
                elif way == "sensor_read":
                    await sensor.sync()
                elif way == "expose_set":
                    await expose.set(rng.randrange(-20, 60) + 0.5)
                elif way == "tool_write":
                    group_value_write(xknx, GroupAddress(ga), DPTArray((1, 2)) if rng.random() < 0.5 else DPTBinary(1))
                elif way == "tool_read":
                    group_value_read(xknx, GroupAddress(ga))
                elif way == "tool_response":
                    group_value_response(xknx, GroupAddress(ga), DPTArray((rng.randrange(256),)))
                elif way == "send_telegram":
                    try:
                        await xknx.cemi_handler.send_telegram(Telegram(destination_address=GroupAddress(ga), payload=group_payload(rng, 2),
                                                                       tpci=rng.choice((tpci.TDataGroup(), tpci.TDataTagGroup()))))
                    except Exception:  # noqa: BLE001 - exhaustion / confirmation errors are legitimate here
                        ctx.count("send_telegram_errors")
                elif way == "expose_respond":
                    # a *secured* read from a known peer arrives; the ExposeSensor answers
                    raw = peer.secure_sync(Telegram(destination_address=GroupAddress(kg[2]), payload=GroupValueRead()))
                    bench.node.feed(raw, drain=False)
                else:
                    await xknx.telegrams.put(Telegram(destination_address=GroupAddress(rng.choice(unkeyed)), payload=group_payload(rng, 2),
                                                      direction=TelegramDirection.OUTGOING))
                await xknx.telegrams.join()
            except Exception as exc:  # noqa: BLE001
                ctx.count(f"outgoing_api_raised_{type(exc).__name__}")
        sent = bench.node.iface.sent
        for cemi, raw in sent:
            ctx.ev()
            at, dst = _dst_of(raw)
            if not at:
                continue
            code = apci_of(raw)
            ctx.distinct(("out", dst in keyed, code == 0x3F1, min(len(raw), 40)))
            if dst in keyed:
                ctx.count("outgoing_to_keyed")
                if code != 0x3F1 or not isinstance(cemi.data.payload, SecureAPDU):
                    ctx.violation(f"outgoing-telegram-to-keyed-ga-sent-plain-apci-{code:#05x}",
                                  {"raw": raw, "keyed_gas": sorted(keyed), "dst": dst, "start_counter": start},
                                  f"frame to keyed GA {dst:#06x} handed to the interface with APCI {code:#05x} instead of 0x3f1")
                    continue
                ctx.count("outgoing_secured")
                got = peer.feed(bytes((0x29,)) + raw[1:])
                ctx.count("outgoing_decrypts_at_peer" if len(got.delivered) == 1 else "outgoing_not_accepted_by_peer")
            else:
                ctx.count("outgoing_to_unkeyed_plain" if code != 0x3F1 else "outgoing_to_unkeyed_secured")
        if exhaust:
            ctx.count("exhaustion_scenarios")
        if len(ctx.samples) < 4 and sent:
            ctx.sample({"part": "outgoing", "frames": len(sent), "intended": intended, "first": sent[0][1][:40], "exhaust": exhaust})
    finally:
        await bench.stop()


# ---------------------------------------------------------------------------
# part 3: nothing received makes the receive path raise

def _classify_inner(apdu):
    if len(apdu) == 0:
        return "empty"
    if len(apdu) == 1:
        return "one-octet"
    try:
        APCI.from_knx(apdu)
    except UnsupportedAPCIService:
        return "unsupported"
    except ConversionError:
        return "malformed"
    except Exception as exc:  # noqa: BLE001 - the decoder itself misbehaves (C04's business); still must not escape here
        return "decoder-" + type(exc).__name__
    return "valid"


def _inner_corpus(ctx, rng):
    out = [b"", b"\x00", b"\x03", b"\xff", b"\x00\x00\x01", b"\x03\xd5\x01", b"\x02\x00", b"\x02\x01\x00", b"\x03\xff", b"\x03\xf0",
           b"\x02\xc7\x00", b"\x03\xf1\x94" + bytes(12), b"\x03\xf1\x10" + bytes(4), b"\x03\xf1\x10" + bytes(10), b"\x00\x00" + bytes(200),
           b"\x00\xc0\x11\x01\x00\x00\x00", b"\x00\x80", b"\x00\x81", b"\x00\x80\x01\x02", b"\x03\xd7\x05\x35\x10\x01" + bytes(16)]
    lengths = ctx.scale((2, 3, 4, 6), (2, 3, 4, 5, 6, 7, 8, 10, 12, 16, 24, 40))
    for code in range(1024):
        for n in lengths:
            out.append(bytes((code >> 8, code & 0xFF)) + rng.randbytes(n - 2))
    out += [rng.randbytes(rng.randrange(0, 30)) for _ in range(ctx.scale(100, 100000))]
    return out


async def _part_noraise(ctx, rng, loop):
    gas_drawn = rng.sample(range(1, 0x10000), 3)  # one draw: keyed and unkeyed addresses can not coincide
    keyed = {g: rng.randbytes(16) for g in gas_drawn[:2]}
    keyed[0] = rng.randbytes(16)
    unkeyed = gas_drawn[2:]
    known = rng.sample(range(2, 0x10000), 2)
    bench = Bench(keyed, unkeyed, {a: 0 for a in known}, own=0x1001)
    await bench.start()
    seq = 0
    gas = [g for g in keyed if g]
    try:
        corpus = _inner_corpus(ctx, rng)
        for i, inner in enumerate(corpus):
            if not ctx.mine(i):
                continue
            seq += 1
            cls = _classify_inner(inner)
            kind = ("group", "group", "tag", "broadcast")[i % 4]
            auth = bool((i // 4) % 2)
            da = 0 if kind == "broadcast" else gas[i % len(gas)]
            tp = {"group": tpci.TDataGroup(), "tag": tpci.TDataTagGroup(), "broadcast": tpci.TDataBroadcast()}[kind]
            raw = secure_raw_apdu_frame(keyed[da], inner, sa=known[i % 2], da=da, seq=seq, tpci_obj=tp, auth_only=auth)
            nexc = len(loop.exceptions)
            out, queued, deltas = await bench.inject(raw)
            ctx.ev()
            ctx.count(f"inner_{cls}")
            ctx.count("authenticated_frames")
            ctx.distinct(("inner", cls, kind, auth, min(len(inner), 8), out.kind()))
            wit = {"raw": raw, "inner_apdu": inner, "inner_class": cls, "key": keyed[da], "kind": kind, "auth_only": auth,
                   "sender": known[i % 2], "seq": seq, "outcome": out.kind()}
            if out.exc is not None:
                ctx.violation(f"authenticated-{'unsupported' if cls == 'unsupported' else 'malformed'}-inner-apdu-raises-{type(out.exc).__name__}",
                              dict(wit, exception=repr(out.exc)[:200]),
                              f"authenticated frame whose decrypted APDU is {cls} ({inner.hex()[:24]}) made handle_raw_cemi raise {type(out.exc).__name__}")
            elif len(loop.exceptions) > nexc:
                ctx.violation("authenticated-frame-exception-in-loop-handler", dict(wit, loop_exception=loop.exceptions[-1]),
                              "an exception reached the loop exception handler")
            else:
                ctx.count("returned_normally")
                if cls == "valid":
                    ctx.count("inner_valid_delivered" if (queued or out.mgmt) else "inner_valid_not_delivered")
                else:
                    ctx.count(f"inner_bad_then_{out.kind()}")
        # other hostile secured frames: must simply return
        hostile = []
        k0 = keyed[gas[0]]
        base = secure_raw_apdu_frame(k0, b"\x00\x81", sa=known[0], da=gas[0], seq=1 << 40)
        hostile.append(("unknown-ga", secure_raw_apdu_frame(k0, b"\x00\x81", sa=known[0], da=unkeyed[0], seq=(1 << 40) + 1)))
        hostile.append(("unknown-sender", secure_raw_apdu_frame(k0, b"\x00\x81", sa=1, da=gas[0], seq=(1 << 40) + 2)))
        hostile.append(("point-to-point", secure_raw_apdu_frame(k0, b"\x00\x81", sa=known[0], da=0x1001, seq=(1 << 40) + 3, group=False)))
        for raw_scf in range(256):
            try:
                scf = SecurityControlField.from_knx(raw_scf)
            except ValueError:
                b = bytearray(base)
                b[11] = raw_scf
                hostile.append((f"reserved-scf", bytes(b)))
                continue
            try:
                hostile.append(("scf-variant", secure_raw_apdu_frame(k0, b"\x00\x81", sa=known[0], da=gas[0], seq=(1 << 41) + raw_scf, scf=scf)))
            except Exception:  # noqa: BLE001 - unknown algorithm for the *sender* API
                b = bytearray(base)
                b[11] = raw_scf
                hostile.append(("scf-variant-raw", bytes(b)))
        for cut in range(len(base)):
            b = bytearray(base[:cut])
            if cut > 9:
                b[8] = cut - 10
            hostile.append(("truncated", bytes(b)))
        for _ in range(ctx.scale(1000, 200000)):
            b = bytearray(base)
            for _ in range(rng.choice((1, 1, 2, 4))):
                b[rng.randrange(len(b))] = rng.randrange(256)
            hostile.append(("damaged", bytes(b)))
        for j, (name, raw) in enumerate(hostile):
            if not ctx.mine(j):
                continue
            nexc = len(loop.exceptions)
            out, queued, deltas = await bench.inject(raw)
            ctx.ev()
            ctx.count("hostile_frames")
            ctx.distinct(("hostile", name, out.kind()))
            if out.exc is not None or len(loop.exceptions) > nexc:
                ctx.violation(f"hostile-secured-frame-{name}-raises-{type(out.exc).__name__ if out.exc else 'in-loop-handler'}",
                              {"raw": raw, "kind": name, "exception": repr(out.exc)[:200]}, f"{name} frame made the receive path raise")
            else:
                ctx.count("returned_normally")
        # the consumer must still be alive: a plain frame to the unkeyed GA is delivered
        before = len(bench.cb_all)
        await bench.inject(ref.plain_ldata(b"\x00\x81", sa=known[0], da=unkeyed[0], group=True))
        if len(bench.cb_all) == before + 1:
            ctx.count("consumer_alive_after_corpus")
        else:
            ctx.violation("telegram-consumer-dead-after-hostile-frames", {"callbacks_before": before, "after": len(bench.cb_all)},
                          "a plain frame to an unkeyed GA is no longer delivered after the hostile corpus")
        if len(ctx.samples) < 6:
            ctx.sample({"part": "no-raise", "authenticated_frames": len(corpus), "hostile": len(hostile)})
    finally:
        await bench.stop()


# ---------------------------------------------------------------------------
# part 6: instances built from keyrings (corner set over group keys x sender table)

def _keyring_projects(ctx, rng):
    """(label, project, order): own corner product + the writer's corner set (only those that carry at least one group key)."""
    from vlib import keyring_writer as W
    from vlib.ds_harness import make_project

    out = []
    for nkeys in (1, 3):
        for senders in ("none", "one", "many"):
            for devices in ("absent", "with-counter", "without-counter"):
                for itf in ("no-interface", "interface-without-groups", "interface-with-senders"):
                    gas = rng.sample(range(1, 0x10000), nkeys)
                    keys = {g: rng.randbytes(16) for g in gas}
                    n = {"none": 0, "one": 1, "many": 4}[senders]
                    ias = rng.sample(range(1, 0xFFFF), n)
                    dev = None if devices == "absent" else {ia: (rng.randrange(1, 1 << 40) if devices == "with-counter" else None) for ia in ias}
                    isend = {gas[0]: ias} if itf == "interface-with-senders" else None
                    if devices == "absent" and itf != "interface-with-senders" and n:
                        continue  # nowhere to put the senders: same keyring as senders == none
                    out.append((f"{nkeys}keys-{senders}-senders-devices-{devices}-{itf}",
                                make_project(keys, dev, isend, 1 if itf == "interface-without-groups" else 0), "BIGD"))
    corner = [c for c in W.corner_projects() if any(k is not None for _, k in (c[1].group_keys or []))]
    return out, corner


def _part_keyring_instances(ctx, rng, loop):
    from vlib.ds_harness import load_project_keyring, project_tables

    own, corner = _keyring_projects(ctx, rng)
    step = ctx.scale(7, 1)
    todo = own[:: ctx.scale(2, 1)] + corner[rng.randrange(step) :: step]
    for idx, (label, project, order) in enumerate(todo):
        if not ctx.mine(idx):
            continue
        keys, senders = project_tables(project)
        try:
            keyring = load_project_keyring(project, rng, order)
        except Exception as exc:  # noqa: BLE001 - loading keyrings is C31's business
            ctx.count(f"keyring_not_loaded_{type(exc).__name__}")
            continue
        node = Node.from_keyring(keyring, own_address=0x1F01)
        ctx.count("keyring_instances")
        ctx.count("keyring_instances_without_senders" if not senders else "keyring_instances_with_senders")
        listed_without_key = [ga for ga, k in (project.group_keys or []) if k is None]
        unkeyed = next(g for g in range(0x7000, 0x7100) if g not in keys)
        wit0 = {"keyring": label, "keyed_gas": sorted(keys), "senders": sorted(senders), "data_secure_active": node.ds is not None}
        for ga in sorted(keys):
            # incoming plain frame to a GA that has a key in the keyring
            raw = ref.plain_ldata(b"\x00\x81", sa=(sorted(senders) or [0x1234])[0], da=ga, group=True)
            out = node.feed(raw)
            ctx.ev()
            ctx.distinct(("keyring", len(keys), min(len(senders), 2), out.kind(), node.ds is not None))
            wit = dict(wit0, raw=raw, outcome=out.kind(), key_issue=len(out.key_issue))
            if out.exc is not None:
                ctx.violation(f"keyring-instance-plain-frame-raises-{type(out.exc).__name__}", wit, "receive path raised")
            elif out.delivered:
                ctx.violation("keyring-instance-delivers-plain-frame-to-keyed-ga" + ("-empty-sender-table" if not senders else ""), wit,
                              f"keyring {label}: plain frame to {ga:#06x}, which has a key in the keyring, was delivered")
            elif len(out.key_issue) != 1:
                ctx.violation("keyring-instance-plain-frame-to-keyed-ga-key-issue-callback-not-once", wit,
                              f"key-issue callback called {len(out.key_issue)} times")
            else:
                ctx.count("keyring_plain_to_keyed_rejected")
            # outgoing telegram to the keyed GA
            n = len(node.iface.sent)
            try:
                loop.run(node.xknx.cemi_handler.send_telegram(Telegram(destination_address=GroupAddress(ga), payload=group_payload(rng, 2))),
                         max_vtime=30)
            except Exception as exc:  # noqa: BLE001
                ctx.count(f"keyring_send_raised_{type(exc).__name__}")
            for _cemi, sent in node.iface.sent[n:]:
                ctx.ev()
                if apci_of(sent) != 0x3F1:
                    ctx.violation("keyring-instance-sends-plain-to-keyed-ga" + ("-empty-sender-table" if not senders else ""),
                                  dict(wit0, raw=sent), f"keyring {label}: telegram to keyed GA {ga:#06x} left as plain frame")
                else:
                    ctx.count("keyring_outgoing_secured")
        for ga in listed_without_key[:1] + [unkeyed]:
            out = node.feed(ref.plain_ldata(b"\x00\x81", sa=0x1234, da=ga, group=True))
            ctx.ev()
            if len(out.delivered) == 1 and not out.key_issue:
                ctx.count("keyring_plain_to_unkeyed_delivered")
            else:
                ctx.inconclusive(f"control failed: keyring {label}: plain frame to GA without key: {out.kind()}")
    if len(ctx.samples) < 8:
        ctx.sample({"part": "keyring-instances", "keyrings": len(todo), "labels": [t[0] for t in todo[:4]]})


# ---------------------------------------------------------------------------
# part 5: callbacks that change the registrations while they are being called

class _Cb:
    """A key-issue / telegram callback with a scripted side effect on the registrations."""

    def __init__(self, pool, kind, name):
        self.pool, self.kind, self.name = pool, kind, name
        self.calls = 0
        self.unregister = None
        self.registered = False

    def __call__(self, telegram):
        self.calls += 1
        pool = self.pool
        if self.kind == "self_unreg" and self.registered:
            pool.unreg(self)
        elif self.kind == "reg_other":
            pool.add("plain")
        elif self.kind == "unreg_next":
            later = [c for c in pool.cbs if c.registered and c is not self and c.kind == "victim"]
            if later:
                pool.unreg(later[0])
        elif self.kind == "raises":
            raise ValueError("callback trouble")


class _Pool:
    def __init__(self, register):
        self._register = register  # fn(cb) -> unregister()
        self.cbs = []
        self.touched = set()  # callbacks (un)registered while a frame was being handled

    def add(self, kind):
        cb = _Cb(self, kind, f"{kind}{len(self.cbs)}")
        cb.unregister = self._register(cb)
        cb.registered = True
        self.cbs.append(cb)
        self.touched.add(cb)
        return cb

    def unreg(self, cb):
        cb.unregister()
        cb.registered = False
        self.touched.add(cb)


async def _part_callback_mutation(ctx, rng, loop):
    gas_drawn = rng.sample(range(1, 0x10000), 3)  # one draw: keyed and unkeyed addresses can not coincide
    keyed = {g: rng.randbytes(16) for g in gas_drawn[:2]}
    unkeyed = gas_drawn[2:]
    known = rng.sample(range(2, 0x10000), 2)
    bench = Bench(keyed, unkeyed, {a: 0 for a in known}, own=0x1001)
    tq = bench.xknx.telegram_queue
    issue_pool = _Pool(tq.register_data_secure_group_key_issue_cb)

    def reg_telegram(cb):
        handle = tq.register_telegram_received_cb(cb)
        return lambda: tq.unregister_telegram_received_cb(handle)

    tele_pool = _Pool(reg_telegram)
    kinds = ["plain", "self_unreg", "plain", "reg_other", "unreg_next", "victim", "plain", "raises", "self_unreg", "plain"]
    rng.shuffle(kinds)
    for k in kinds:
        issue_pool.add(k)
    kinds2 = list(kinds)
    rng.shuffle(kinds2)
    for k in kinds2:
        tele_pool.add(k)
    await bench.start()
    gas = list(keyed)
    seq = 0
    try:
        for step in range(rng.randrange(6, 14)):
            seq += 1
            what = rng.choice(("plain_keyed", "plain_keyed", "bad_mac", "unknown_sender", "plain_unkeyed", "genuine"))
            da = rng.choice(gas)
            if what == "plain_keyed":
                raw = ref.plain_ldata(b"\x00\x81", sa=known[0], da=da, group=True)
            elif what == "plain_unkeyed":
                raw = ref.plain_ldata(b"\x00\x81", sa=known[0], da=unkeyed[0], group=True)
            elif what == "bad_mac":
                raw = ref.secure_ldata(keyed[da], b"\x00\x81", scf=0x10, seq=seq + 50, sa=known[0], da=da, group=True, mac_override=bytes(4))
            elif what == "unknown_sender":
                raw = ref.secure_ldata(keyed[da], b"\x00\x81", scf=0x10, seq=seq, sa=1, da=da, group=True)
            else:
                raw = ref.secure_ldata(keyed[da], b"\x00\x81", scf=0x10, seq=seq + 100, sa=known[1], da=da, group=True)
            if rng.random() < 0.3 and not any(c.registered and c.kind == "self_unreg" for c in issue_pool.cbs):
                issue_pool.add("self_unreg")
                issue_pool.add("plain")
            for pool in (issue_pool, tele_pool):
                pool.touched = set()
            before_i = {c: c.calls for c in issue_pool.cbs}
            before_t = {c: c.calls for c in tele_pool.cbs}
            registered_i = [c for c in issue_pool.cbs if c.registered]
            nexc = len(loop.exceptions)
            out, queued, _ = await bench.inject(raw)
            ctx.ev()
            ctx.count("mutation_frames")
            ctx.count(f"mutation_frame_{what}")
            ctx.distinct(("cbmut", what, out.kind(), len(issue_pool.touched), len(tele_pool.touched)))
            wit = {"raw": raw, "frame": what, "keyed_gas": sorted(keyed), "unkeyed_ga": unkeyed[0], "known_senders": known,
                   "key_issue_callbacks": [(c.name, c.registered, c.calls - before_i.get(c, 0)) for c in issue_pool.cbs],
                   "telegram_callbacks": [(c.name, c.registered, c.calls - before_t.get(c, 0)) for c in tele_pool.cbs], "outcome": out.kind()}
            if out.exc is not None or len(loop.exceptions) > nexc:
                name = type(out.exc).__name__ if out.exc is not None else "in-loop-handler"
                ctx.violation(f"callback-changing-registrations-makes-receive-path-raise-{name}", dict(wit, exception=repr(out.exc)[:200]),
                              f"{what}: a callback (un)registering callbacks while being called made the receive path raise {name}")
                continue
            ctx.count("mutation_returned_normally")
            expect_issue = what in ("plain_keyed", "bad_mac", "unknown_sender")
            stable = [c for c in registered_i if c.registered and c not in issue_pool.touched]
            for c in stable:
                got = c.calls - before_i[c]
                if got != (1 if expect_issue else 0):
                    if expect_issue and got == 0:
                        # A sibling that (un)registers callbacks from inside its own call makes the live list skip
                        # its successor for this one frame.  The statement's quantifier has no callbacks that change
                        # registrations while being called (same decision as C34), so this is recorded, not judged;
                        # that the receive path must not RAISE in that situation is judged above.
                        ctx.count("recorded_key_issue_callback_skipped_when_a_sibling_changed_registrations")
                    else:
                        ctx.violation(f"key-issue-callback-called-{got}-times", dict(wit, callback=c.name),
                                      f"{what}: key-issue callback {c.name} called {got} times (expected {1 if expect_issue else 0})")
                    break
            else:
                ctx.count("stable_key_issue_callbacks_checked", len(stable))
            if issue_pool.touched:
                ctx.count("frames_with_key_issue_registration_change")
            if tele_pool.touched:
                ctx.count("frames_with_telegram_registration_change")
            if what == "plain_keyed" and any(c.calls != before_t.get(c, 0) for c in tele_pool.cbs):
                ctx.violation("plain-frame-to-keyed-ga-reaches-telegram-callback-GroupValueWrite", wit, "plain frame to keyed GA reached a telegram callback")
        before = len(bench.cb_all)
        await bench.inject(ref.plain_ldata(b"\x00\x81", sa=known[0], da=unkeyed[0], group=True))
        if len(bench.cb_all) == before + 1:
            ctx.count("consumer_alive_after_callback_mutation")
        else:
            ctx.violation("telegram-consumer-dead-after-callback-mutation",
                          {"keyed_gas": sorted(keyed), "unkeyed_ga": unkeyed[0], "known_senders": known,
                           "telegram_callbacks": [(c.name, c.registered, c.calls) for c in tele_pool.cbs]}, "consumer no longer delivers after self-unregistering callbacks")
    finally:
        await bench.stop()


# ---------------------------------------------------------------------------
# part 4: the same rules from the very first frame on, through the real interface start with a keyring

_KEYRING = None
KEYRING_FILE = "test/secure_tests/resources/SecureTest.knxkeys"  # ETS export shipped with the repository, password "test"
KR_KEYED = (0x0400, 0x0403, 0x0404, 0x0405)  # 0/4/0, 0/4/3, 0/4/4, 0/4/5
KR_SENDER = 0x4009  # 4.0.9, last valid counter 155806854915
KR_KEY_0_4_0 = ref.ETS_KEY


def _keyring():
    global _KEYRING
    if _KEYRING is None:
        import os

        import xknx as _x
        from xknx.secure.keyring import sync_load_keyring

        root = os.path.dirname(os.path.dirname(_x.__file__))
        _KEYRING = sync_load_keyring(os.path.join(root, KEYRING_FILE), "test")
    return _KEYRING


def _interface_scenario(ctx, spec):
    """Real XKNX.start() (KNXIPInterface._start -> tunnel connect) against the scripted gateway; frames arrive back-to-back with the
    ConnectResponse, right after it and later."""
    import asyncio

    from vlib.peers_tunnel import Gateway
    from xknx.io import ConnectionConfig, ConnectionType, SecureConfig

    loop = new_loop()
    gw = Gateway(loop)
    state = {"seq": 0, "tag": 0}
    injected = []  # (tag, timing, keyed, raw)
    cb, dev, issues = [], [], []

    def frame(timing):
        state["tag"] += 1
        tag = state["tag"]
        r = ctx.rng.random()
        keyed = r < 0.75
        da = ctx.rng.choice(KR_KEYED) if keyed else 0x0A03
        svc = 0x80 if ctx.rng.random() < 0.6 else 0x40
        apdu = bytes((0x00, svc, 0xA5, tag & 0xFF, tag >> 8))
        raw = ref.plain_ldata(apdu, sa=ctx.rng.choice((KR_SENDER, 0x1234)), da=da, group=True)
        injected.append((tag, timing, keyed, raw))
        return raw

    def push(raw, delay=None):
        # the sequence counter is taken at delivery time: frames due at the same instant can not overtake each other
        if delay is None:
            gw.send_tunnelling_request(state["seq"], raw)
            state["seq"] += 1
        else:
            loop.call_later(delay, push, raw)

    def burst():
        for _ in range(spec["nburst"]):
            push(frame("with-connect-response"))
        if spec["secured_in_burst"]:
            push(ref.secure_ldata(KR_KEY_0_4_0, b"\x00\x81", scf=0x10, seq=155806854915 + 1000, sa=KR_SENDER, da=0x0400, group=True))
            state["secured"] = True
        for k in range(spec["nright_after"]):
            push(frame("right-after-connect-response"), delay=0.0 if k == 0 else 0.001 * k)

    gw.after_connect_response = burst

    def confirm(t, kind, info):
        if kind == "tx" and info.get("type") == "TunnellingRequest":
            raw = bytes.fromhex(info["cemi"])
            state.setdefault("out", []).append(raw)
            loop.call_later(0.01, lambda: push(bytes((0x2E,)) + raw[1:]))

    gw.listeners.append(confirm)
    result = {}

    async def main():
        ct = ConnectionType.TUNNELING_TCP if spec["transport"] == "tcp" else ConnectionType.TUNNELING
        xknx = XKNX(connection_config=ConnectionConfig(connection_type=ct, gateway_ip="10.0.0.2", local_ip="10.0.0.1",
                                                      secure_config=SecureConfig(keyring=_keyring())))
        xknx.telegram_queue.register_telegram_received_cb(cb.append)
        xknx.telegram_queue.register_data_secure_group_key_issue_cb(issues.append)
        for ga in KR_KEYED + (0x0A03,):
            xknx.devices.async_add(ProbeSwitch(xknx, f"sw{ga}", group_address=GroupAddress(ga), sync_state=False, log=dev))
        await xknx.start()
        for _ in range(spec["nlater"]):
            push(frame("later"), delay=0.05)
        await asyncio.sleep(0.5)
        await xknx.join()
        for i in range(spec["nout"]):
            await xknx.telegrams.put(Telegram(destination_address=GroupAddress(KR_KEYED[i % 4]), payload=group_payload(ctx.rng, 1 + i),
                                              direction=TelegramDirection.OUTGOING))
        await xknx.join()
        await asyncio.sleep(0.2)
        cm = xknx.connection_manager
        result["processed"] = cm.cemi_count_incoming + cm.cemi_count_incoming_error
        result["secure_on"] = xknx.cemi_handler.data_secure is not None
        await xknx.stop()

    try:
        loop.run(main(), max_vtime=600)
    except Exception as exc:  # noqa: BLE001 - connect trouble in the harness is never a verdict
        ctx.inconclusive(f"interface scenario did not finish: {type(exc).__name__}: {exc}")
        loop.finish()
        return
    finally:
        pass
    leaked = loop.finish()
    del leaked
    ctx.count("interface_scenarios")
    ctx.count(f"interface_{spec['transport']}")
    if not result.get("secure_on"):
        ctx.inconclusive("keyring did not produce a DataSecure instance")
        return

    def tag_of(t):
        try:
            v = t.payload.value.value
            return (v[1] | (v[2] << 8)) if v[0] == 0xA5 and t.direction == TelegramDirection.INCOMING else None
        except Exception:  # noqa: BLE001
            return None

    cb_tags = [tag_of(t) for t in cb]
    dev_tags = [tag_of(t) for _, t in dev]
    issue_tags = [tag_of(t) for t in issues]
    n_ind = len(injected) + (1 if state.get("secured") else 0)
    all_processed = result["processed"] >= n_ind
    for tag, timing, keyed, raw in injected:
        ctx.ev()
        n_cb, n_dev, n_issue = cb_tags.count(tag), dev_tags.count(tag), issue_tags.count(tag)
        ctx.distinct(("iface", spec["transport"], timing, keyed, n_cb, n_dev, n_issue))
        wit = {"spec": spec, "timing": timing, "raw": raw, "telegram_cb": n_cb, "device_process": n_dev, "key_issue_cb": n_issue,
               "keyring": KEYRING_FILE, "frames_processed": result["processed"], "frames_injected": n_ind}
        if keyed:
            ctx.count("interface_plain_to_keyed")
            ctx.count(f"interface_plain_to_keyed_{timing}")
            if n_cb or n_dev:
                ctx.violation(f"interface-start-plain-frame-to-keyed-ga-{timing}-reaches-callbacks-or-devices", wit,
                              f"plain frame to a keyed GA arriving {timing} ({spec['transport']}) reached {n_cb} telegram callbacks / {n_dev} devices")
            elif n_issue > 1 or (all_processed and n_issue != 1):
                ctx.violation(f"interface-start-plain-frame-to-keyed-ga-{timing}-key-issue-callback-{n_issue}-times", wit,
                              f"plain frame to a keyed GA arriving {timing}: key-issue callback called {n_issue} times")
            elif n_issue == 1:
                ctx.count("interface_key_issue_reported_once")
            else:
                ctx.count("interface_frame_not_processed")  # dropped below the cEMI layer: nothing to judge
        elif all_processed and n_cb != 1:
            ctx.inconclusive(f"control failed: plain frame to unkeyed GA arriving {timing} saw {n_cb} callbacks")
        elif n_cb == 1:
            ctx.count("interface_unkeyed_delivered")
    for raw in state.get("out", []):
        ctx.ev()
        dst = int.from_bytes(raw[6:8], "big")
        if dst in KR_KEYED:
            ctx.count("interface_outgoing_to_keyed")
            if apci_of(raw) != 0x3F1:
                ctx.violation("interface-outgoing-to-keyed-ga-sent-plain", {"spec": spec, "raw": raw},
                              "telegram to a keyed GA left through the real tunnel as plain frame")
            else:
                ctx.count("interface_outgoing_secured")
    if len(ctx.samples) < 3:
        ctx.sample({"part": "interface-start", "spec": spec, "injected": len(injected), "telegram_cb": len(cb), "key_issue": len(issues),
                    "outgoing": len(state.get("out", []))})


def _run_async(ctx, loop, coro, what):
    try:
        loop.run(coro, max_vtime=100_000)
    except Deadlock:
        ctx.violation(f"deadlock-in-{what}", {"part": what}, f"{what}: xknx.telegrams.join() can never return (definite deadlock)")
    except LoopBudget:
        ctx.inconclusive(f"{what}: loop budget exceeded")


def run(ctx):
    rng = ctx.rng
    ctx.rule = (
        "plain: (keyed?, TPCI kind, service, length, builder) frames; outgoing: sequences over 11 ways of sending; no-raise: authenticated "
        "frames over inner APDU = {hand picked, all 1024 APCI codes x lengths, random} x {group, tag, broadcast} x {enc, auth} and hostile "
        "secured frames; distinct = (part, class, kind, outcome ...)"
    )
    ctx.require("plain_to_keyed", "plain_to_keyed_group", "key_issue_reported_once", "unkeyed_delivered", "outgoing_to_keyed", "outgoing_secured",
                "outgoing_decrypts_at_peer", "authenticated_frames", "inner_empty", "inner_one-octet", "inner_malformed", "inner_unsupported",
                "inner_valid", "inner_valid_delivered", "hostile_frames", "returned_normally", "consumer_alive_after_corpus")
    ctx.require("mutation_frames", "mutation_frame_plain_keyed", "mutation_frame_bad_mac", "mutation_returned_normally",
                "stable_key_issue_callbacks_checked", "frames_with_key_issue_registration_change", "frames_with_telegram_registration_change",
                "consumer_alive_after_callback_mutation")
    ctx.require("keyring_instances", "keyring_instances_without_senders", "keyring_instances_with_senders", "keyring_plain_to_keyed_rejected",
                "keyring_outgoing_secured", "keyring_plain_to_unkeyed_delivered")
    ctx.require("interface_scenarios", "interface_tcp", "interface_udp", "interface_plain_to_keyed_with-connect-response",
                "interface_plain_to_keyed_right-after-connect-response", "interface_plain_to_keyed_later",
                "interface_key_issue_reported_once", "interface_unkeyed_delivered", "interface_outgoing_secured")
    for i in range(ctx.scale(24, 800)):
        spec = {"transport": ("tcp", "udp")[i % 2], "nburst": 1 + (i // 2) % 3, "nright_after": (i // 6) % 3, "nlater": 1 + i % 2,
                "nout": 2, "secured_in_burst": i % 4 == 1}
        if ctx.mine(i):
            _interface_scenario(ctx, spec)
    loop = new_loop()
    loop.max_iterations = 50_000_000
    try:
        with observing_management():
            for i in range(ctx.scale(20, 2400)):
                if ctx.mine(i):
                    _run_async(ctx, loop, _part_plain(ctx, rng, 60), "plain-frames")
                else:
                    rng.random()
            for i in range(ctx.scale(40, 4000)):
                if ctx.mine(i):
                    _run_async(ctx, loop, _part_outgoing(ctx, rng, 25), "outgoing")
                else:
                    rng.random()
            for i in range(ctx.scale(40, 2000)):
                if ctx.mine(i):
                    _run_async(ctx, loop, _part_callback_mutation(ctx, rng, loop), "callback-mutation")
            _run_async(ctx, loop, _part_noraise(ctx, rng, loop), "no-raise")
            _part_keyring_instances(ctx, rng, loop)
    finally:
        leaked = loop.finish()
        ctx.extra["tasks_left_at_end"] = len(leaked)
    ctx.extra["loop_handler_exceptions"] = len(loop.exceptions)


def replay(ctx, witness):
    """Re-inject the recorded frame into a receiver built from the witness."""
    loop = new_loop()
    try:
        with observing_management():
            if "inner_apdu" in witness:
                key = bytes.fromhex(witness["key"][4:])
                raw = bytes.fromhex(witness["raw"][4:])
                da = int.from_bytes(raw[6:8], "big")
                node = Node({da: key}, {witness["sender"]: 0}, own_address=0x1001)
                out = node.feed(raw)
                ctx.ev()
                if out.exc is not None:
                    ctx.violation(f"authenticated-{'unsupported' if witness['inner_class'] == 'unsupported' else 'malformed'}-inner-apdu-raises-{type(out.exc).__name__}",
                                  witness, f"replayed: handle_raw_cemi raised {type(out.exc).__name__}")
            elif "keyed_gas" in witness and "builder" in witness:
                raw = bytes.fromhex(witness["raw"][4:])
                node = Node({g: bytes(16) for g in witness["keyed_gas"]}, {}, own_address=0x1001)
                out = node.feed(raw)
                ctx.ev()
                if out.delivered:
                    ctx.violation(f"plain-frame-to-keyed-ga-delivered-{witness['kind']}", witness, "replayed: delivered")
    finally:
        loop.finish()
    ctx.distinct("replay")
    ctx.distinct("replay2")
