#!/bin/bash
# usage: tools/applyfix.sh <diff> "<commit subject after 'fix: '>"  -- integrator only
D=$(readlink -f "$1"); MSG="$2"
cd /repo || exit 1
[ -n "$(git status --porcelain)" ] && { echo "repo dirty"; exit 1; }
if ! git apply "$D" 2>/dev/null; then
  if ! patch -p1 -s --no-backup-if-mismatch < "$D"; then echo "DOES NOT APPLY"; git checkout -- .; exit 1; fi
fi
R=$(/verif/tools/repotest.sh /repo | head -3)
echo "$R"
case "$R" in *"missing=0"*) ;; *) echo "SUITE BROKEN - reverting"; git checkout -- .; exit 1;; esac
BODY=$(head -1 "$D" | sed 's/^# //')
git add -A && git commit -q -m "fix: $MSG" -m "$BODY" && git log --oneline | head -1
