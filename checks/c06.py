"""C06 encoding a service object refuses it or round-trips it: no field is truncated, wrapped or padded."""

from __future__ import annotations

import dataclasses
from decimal import Decimal
from enum import Enum
from fractions import Fraction

from checks.c05 import live_service_classes
from vlib import apci_gen as G
from vlib.eqv import same
from xknx.dpt import DPTArray, DPTBinary
from xknx.secure.data_secure_asdu import (
    SecureData,
    SecurityAlgorithmIdentifier,
    SecurityALService,
    SecurityControlField,
)
from xknx.telegram.address import GroupAddress, IndividualAddress
from xknx.telegram.apci import APCI, ReturnCode

LEVEL = "exploration"
TECHNIQUE = (
    "runtime monitor: per-field value sweep through the real to_knx of every service class; oracle = refusal (any exception) or "
    "structural equality (eqv.same) of APCI.from_knx(encoding) with the original object"
)
LEVEL_TEXT = (
    "Every concrete service class found by walking APCI.__subclasses__(); baseline instances come from decoding hand-written valid frames. "
    "Each int field takes non-integral numerics (x.5 floats, 0.999, -0.5, nan, inf, Fraction, Decimal) and 0..4098, -1, -2, 2^k-1/2^k/2^k+1 for k<=32, 2^16+-1, 2^24+-1, 2^32+-1, -2^31; each bytes field every length 0..40, 63, 64, 253..256 "
    "(random, zero, 0xFF and other all-equal content); list fields every length 0..8 distinct, the same element 2..8 times (identical and "
    "equal-but-distinct objects), duplicates at start/middle/end, maximum length and beyond with 2/3/6 distinct values; bool/enum/address/list/DPT payload/SCF fields their domains; nested SecureData byte fields the same lengths; "
    "every value both through the constructor and by assignment to a valid object after construction; the other fields at the baseline and (quick x3, thorough x20) at random values that round-trip on their own. Exploration: values beyond the sweep are not tried."
)
LEVEL_NOTE = (
    "Trusted: CPython, struct, the valid frames of vlib/apci_gen.py. Judged: if to_knx() returns, the PDU must decode (APCI.from_knx) to an "
    "object equal to the original. A refusal is any exception (class counted, not judged). Non-integral numerics are offered to every int field (they do not fit a wire field: refuse, never "
    "truncate); other values outside a field's declared type (ints for bool/enum fields, non-members) are not offered. The three A_RouterStatus_* stubs only have to refuse."
)
SHARDS = {"quick": 1, "thorough": 16}
TIMEOUT = {"quick": 240, "thorough": 1500}

INT_FULL = (
    list(range(0, 4099))
    + [-1, -2, -(2**31)]
    + sorted({v for k in range(13, 33) for v in (2**k - 1, 2**k, 2**k + 1)} | {2**16 - 1, 2**16 + 1, 2**24 - 1, 2**24 + 1, 2**32 - 1, 2**32 + 1})
)
# numerics that are not integers: they do not fit any wire field and must be refused, never truncated
NON_INTEGRAL = [
    0.5, 0.999, 1.5, 5.5, 14.5, 62.5, 254.5, 4094.5, 65534.5, -0.5, -1.5, 1e-9, float("nan"), float("inf"), float("-inf"),
    Fraction(7, 2), Fraction(1, 3), Fraction(-1, 2), Decimal("17.75"), Decimal("0.1"), Decimal("-0.5"), Decimal("NaN"),
]
INT_EDGE = sorted({v for k in range(0, 33) for v in (2**k - 1, 2**k, 2**k + 1)} | {-1, -2, -(2**31), 250, 251, 254, 255})


# -- value domains -----------------------------------------------------------------


# DPTArray payloads of 254..256 octets assigned after construction: /repo encodes them (GroupValueWrite/Response.to_knx only checks
# for an empty array) into a PDU its own decoder refuses ("APDU too long"). Genuine by the letter of C06, reported with
# proposed_fixes/C06-group-value-oversized-array.diff; enable once that is committed (the integrator asked for a quiet /repo).
OVERSIZED_GROUP_VALUES = True


def _bytes_domain(rng, limit=None):
    out = []
    for length in range(21):
        out.append(bytes(rng.randrange(1, 256) for _ in range(length)))
        if length:  # all-equal octets: a codec that de-duplicates, run-length packs or strips padding shows here
            out.append(bytes(length))
            out.append(b"\xff" * length)
            out.append(bytes([rng.randrange(1, 255)]) * length)
    # beyond 20: every length up to the sum of all alternative layouts of a field (2+4+6+21 octets for the domain address /
    # IP-secure layouts, the largest set) plus a few - a length equal to *another* layout's total must be refused, not re-split -
    # and the frame-size boundaries
    for length in (*range(21, 41), 63, 64, 253, 254, 255, 256):
        if limit is not None and length > limit:
            continue
        out.append(bytes(rng.randrange(1, 256) for _ in range(length)))
        out.append(bytes(length))
    return out


def _ga_lists(rng):
    """Lists of group addresses: every length 0..8 distinct, repeated entries everywhere, equal-but-not-identical elements."""
    def ga():
        return GroupAddress(rng.randrange(1, 65536))

    out = [[ga() for _ in range(n)] for n in range(9)]
    one = ga()
    out += [[one] * n for n in range(2, 9)]  # the same element 2..8 times (identical object)
    out += [[GroupAddress(one.raw) for _ in range(n)] for n in range(2, 9)]  # equal, not identical
    out += [[GroupAddress("1/2/3"), GroupAddress(0x0A03)], [GroupAddress(0x0A03), ga(), GroupAddress("1/2/3")]]
    for n in range(3, 9):  # one duplicated pair at the start / middle / end / far apart, rest distinct
        base = [ga() for _ in range(n)]
        for i, j in ((0, 1), (n // 2 - 1, n // 2), (n - 2, n - 1), (0, n - 1)):
            dup = list(base)
            dup[j] = GroupAddress(dup[i].raw)
            out.append(dup)
    for n in (6, 7, 8):  # maximum length and beyond with only 2 / 3 / 6 distinct values
        for distinct in (2, 3, 6):
            pool = [ga() for _ in range(distinct)]
            out.append([pool[i % distinct] for i in range(n)])
    out += [[GroupAddress(0)] * 3, [GroupAddress(0xFFFF)] * 6]
    return out


def _domain(token, rng, full):
    """Values for one declared type token, all *of that type*."""
    if token == "int":
        return (INT_FULL if full else INT_EDGE + [rng.randrange(0, 4099) for _ in range(120)]) + NON_INTEGRAL
    if token == "bytes":
        return _bytes_domain(rng)
    if token == "bool":
        return [False, True]
    if token == "None":
        return [None]
    if token == "ReturnCode":
        return list(ReturnCode)
    if token == "IndividualAddress":
        return [IndividualAddress(v) for v in (0, 1, 0x1105, 0xFFFE, 0xFFFF, *(rng.randrange(65536) for _ in range(6)))]
    if token == "GroupAddress":
        return [GroupAddress(v) for v in (0, 1, 0x0801, 0xFFFE, 0xFFFF, *(rng.randrange(65536) for _ in range(6)))]
    if token == "list[GroupAddress]":
        return _ga_lists(rng)
    if token == "DPTBinary":
        return [DPTBinary(v) for v in range(64)]
    if token == "DPTArray":
        out = [DPTArray(b) for b in _bytes_domain(rng, None if OVERSIZED_GROUP_VALUES else 253)]
        out += [DPTArray((v,)) for v in (0, 1, 63, 64, 255)]
        out += [DPTArray((v,) * n) for v in (0, 7, 255) for n in (2, 3, 14)]
        return out
    if token == "SecurityControlField":
        return [
            SecurityControlField(tool_access=t, algorithm=a, system_broadcast=s, service=v)
            for t in (False, True) for a in SecurityAlgorithmIdentifier for s in (False, True) for v in SecurityALService
        ]
    return None


def field_tokens(field):
    text = field.type if isinstance(field.type, str) else getattr(field.type, "__name__", str(field.type))
    # any list/tuple-valued field must map to a token _domain() knows, else the run is inconclusive
    return [t.strip() for t in text.split("|")]


# -- value (de)serialisation for witnesses ---------------------------------------------


def pack_value(v):
    if v is None or isinstance(v, (bool, int)):
        return {"t": type(v).__name__, "v": v}
    if isinstance(v, (bytes, bytearray)):
        return {"t": "bytes", "v": bytes(v).hex()}
    if isinstance(v, (float, Fraction, Decimal)):
        return {"t": type(v).__name__, "v": str(v)}
    if isinstance(v, Enum):
        return {"t": type(v).__name__, "v": v.value}
    if isinstance(v, (IndividualAddress, GroupAddress)):
        return {"t": type(v).__name__, "v": v.raw}
    if isinstance(v, list):
        return {"t": "list", "v": [pack_value(x) for x in v]}
    if isinstance(v, tuple):
        return {"t": "tuple", "v": [pack_value(x) for x in v]}
    if isinstance(v, DPTBinary):
        return {"t": "DPTBinary", "v": v.value}
    if isinstance(v, DPTArray):
        return {"t": "DPTArray", "v": list(v.value)}
    if isinstance(v, SecurityControlField):
        return {"t": "SecurityControlField", "v": [v.tool_access, int(v.algorithm), v.system_broadcast, int(v.service)]}
    return {"t": "repr", "v": repr(v)}


def unpack_value(d):
    t, v = d["t"], d["v"]
    if t in ("NoneType", "bool", "int"):
        return v
    if t == "bytes":
        return bytes.fromhex(v)
    if t in ("float", "Fraction", "Decimal"):
        return {"float": float, "Fraction": Fraction, "Decimal": Decimal}[t](v)
    if t == "ReturnCode":
        return ReturnCode(v)
    if t == "IndividualAddress":
        return IndividualAddress(v)
    if t == "GroupAddress":
        return GroupAddress(v)
    if t == "list":
        return [unpack_value(x) for x in v]
    if t == "tuple":
        return tuple(unpack_value(x) for x in v)
    if t == "DPTBinary":
        return DPTBinary(v)
    if t == "DPTArray":
        return DPTArray(tuple(v))
    if t == "SecurityControlField":
        return SecurityControlField(bool(v[0]), SecurityAlgorithmIdentifier(v[1]), bool(v[2]), SecurityALService(v[3]))
    raise ValueError(f"cannot rebuild {d}")


# -- building variants ------------------------------------------------------------------

SECURE_DATA_FIELDS = ("sequence_number_bytes", "secured_apdu", "message_authentication_code")


def with_field(obj, path, value):
    """Copy of `obj` with (possibly nested) field `path` set to `value`."""
    if "." in path:
        head, tail = path.split(".", 1)
        inner = getattr(obj, head)
        parts = {n: getattr(inner, n) for n in SECURE_DATA_FIELDS}
        parts[tail] = value
        return dataclasses.replace(obj, **{head: SecureData(**parts)})
    return dataclasses.replace(obj, **{path: value})


def assign_field(base, path, value):
    """Fresh valid copy of `base`, then the (possibly nested) field is *assigned* - no constructor, no __post_init__."""
    obj = dataclasses.replace(base)
    if "." in path:
        head, tail = path.split(".", 1)
        inner = getattr(obj, head)
        if isinstance(inner, (DPTBinary, DPTArray)):
            # the payload object itself is mutable: a fresh copy of it is changed in place after the service object was built
            inner = DPTBinary(inner.value) if isinstance(inner, DPTBinary) else DPTArray(tuple(inner.value))
        else:
            inner = SecureData(**{n: getattr(inner, n) for n in SECURE_DATA_FIELDS})
        setattr(inner, tail, value)
        setattr(obj, head, inner)
    else:
        setattr(obj, path, value)
    return obj


def get_field(obj, path):
    for part in path.split("."):
        obj = getattr(obj, part)
    return obj


def field_paths(obj):
    """[(path, [type tokens])] of every sweepable field, nested SecureData expanded."""
    out = []
    for f in dataclasses.fields(obj):
        tokens = field_tokens(f)
        if tokens == ["SecureData"]:
            out.extend((f"{f.name}.{n}", ["bytes"]) for n in SECURE_DATA_FIELDS)
        else:
            out.append((f.name, tokens))
    return out


def describe_difference(obj, back, path):
    """How the decoded object differs from the original (stable wording for the mechanism string)."""
    if type(back) is not type(obj):
        return f"decodes-as-{type(back).__name__}"
    paths = [p for p, _ in field_paths(obj)]
    changed = [p for p in paths if not same(get_field(obj, p), get_field(back, p))]
    others = [p for p in changed if p != path]
    if others:
        return "bleeds-into-" + "+".join(p.rsplit(".", 1)[-1] for p in others)
    orig, got = get_field(obj, path), get_field(back, path)
    if type(orig) is not type(got) and not (isinstance(orig, (bytes, bytearray)) and isinstance(got, (bytes, bytearray))):
        return f"becomes-{type(got).__name__}"
    if isinstance(orig, (bytes, bytearray, list, tuple)):
        if len(got) > len(orig):
            return "padded"
        if len(got) < len(orig):
            return "truncated"
        return "altered"
    if isinstance(orig, (float, Fraction, Decimal)):
        return "non-integral-value-truncated"
    if isinstance(orig, int) and not isinstance(orig, bool):
        return "wrapped-or-masked"
    return "altered"


class Sweep:
    def __init__(self, ctx):
        self.ctx = ctx
        self.fps = set()
        self.refusal_types = {}
        self.per_class = {}
        self.n = 0
        self.repeated = 0

    def judge(self, obj, cname, path, value, frame, others, assigned=False):
        """Encode `obj`; refusal or equal round trip. Returns 'refused' | 'ok' | 'bad'."""
        self.n += 1
        stats = self.per_class.setdefault(cname, {"encoded": 0, "refused": 0})
        try:
            enc = obj.to_knx()
        except Exception as exc:  # noqa: BLE001 - any exception is a refusal
            stats["refused"] += 1
            key = type(exc).__name__
            self.refusal_types[key] = self.refusal_types.get(key, 0) + 1
            self.fps.add((cname, path, "refused", key))
            return "refused"
        stats["encoded"] += 1
        returned = enc
        enc = bytes(enc)
        # encoder state: overwrite the returned buffer (CEMILData.to_knx() writes the TPCI bits into it) and encode again
        if isinstance(returned, bytearray) and returned:
            returned[0] |= 0xFC
            returned[-1] ^= 0xFF
        try:
            again = bytes(obj.to_knx())
        except Exception as exc:  # noqa: BLE001
            again = repr(exc).encode()
        if again != enc:
            self.ctx.violation(
                f"{cname}-encoding-not-repeatable",
                {"class": cname, "field": path, "value": pack_value(value), "baseline_frame": frame.hex(),
                 "other_fields": {p: pack_value(v) for p, v in others.items()}, "first": enc.hex(), "second": again.hex()},
                f"{cname}: the same object encodes to {enc[:24].hex()} and, after the caller wrote into the returned bytearray, to {again[:24].hex()}",
            )
        self.repeated += 1
        wit = {
            "class": cname, "field": path, "value": pack_value(value), "baseline_frame": frame.hex(), "assigned_after_construction": assigned,
            "other_fields": {p: pack_value(v) for p, v in others.items()}, "object": str(obj)[:300], "encoded": enc.hex(),
        }
        try:
            back = APCI.from_knx(enc)
        except Exception as exc:  # noqa: BLE001
            self.ctx.violation(
                f"{cname}.{path}-encodes-undecodable-pdu", {**wit, "decode_error": repr(exc)[:200]},
                f"{cname} with {path}={value!r:.60} encodes to {enc[:24].hex()} which does not decode: {exc!r:.120}",
            )
            return "bad"
        if same(back, obj):
            self.fps.add((cname, path, "roundtrip"))
            return "ok"
        how = describe_difference(obj, back, path)
        wit["decoded"] = str(back)[:300]
        self.ctx.violation(
            f"{cname}.{path}-{how}", wit,
            f"{cname} with {path}={value!r:.60} is not refused; it encodes to {enc[:24].hex()} which decodes to {back!s:.160}",
        )
        return "bad"

    def flush(self):
        ctx = self.ctx
        ctx.ev(self.n)
        ctx.count("objects_encoded", sum(s["encoded"] for s in self.per_class.values()))
        ctx.count("objects_refused", sum(s["refused"] for s in self.per_class.values()))
        ctx.count("second_encoding_after_buffer_mutation_compared", self.repeated)
        ctx.extra["encoded_per_class"] = {k: v["encoded"] for k, v in sorted(self.per_class.items())}
        ctx.extra["refused_per_class"] = {k: v["refused"] for k, v in sorted(self.per_class.items())}
        ctx.extra["refusal_exception_types"] = dict(sorted(self.refusal_types.items()))
        for fp in sorted(self.fps, key=repr):
            ctx.distinct(fp)


def baselines(ctx, live):
    """class name -> [(frame, decoded baseline object)]."""
    out = {}
    for name, frames in sorted(G.canonical_by_class().items()):
        for raw in frames:
            try:
                obj = APCI.from_knx(raw)
            except Exception as exc:  # noqa: BLE001
                ctx.inconclusive(f"valid frame {raw.hex()} of {name} is not decoded ({exc!r:.80}): no baseline instance")
                continue
            if type(obj).__name__ != name or name not in live:
                ctx.inconclusive(f"valid frame {raw.hex()} decodes to {type(obj).__name__}, expected {name}")
                continue
            out.setdefault(name, []).append((raw, obj))
    return out


def sweep_payload_object(ctx, sweep, cname, frame, base):
    """GroupValueWrite/Response carry a DPTBinary/DPTArray object: its own `value` changed in place after construction."""
    inner = getattr(base, "value", None)
    if isinstance(inner, DPTBinary):
        values = list(range(-2, 70)) + [127, 128, 191, 255, 256, 0x141, 1 << 16, -64]
    elif isinstance(inner, DPTArray):
        values = [(), (1,), (0, 255), (0,) * 253, (1,) * 254, (256,), (-1,), (1, 2, 3, 4)]
    else:
        return
    for value in values:
        late = assign_field(base, "value.value", value)
        sweep.judge(late, cname, "value.value", value, frame, {}, assigned=True)
        ctx.count("payload_object_changed_in_place_cases")


def sweep_class(ctx, sweep, cname, frame, base, rng, variants):
    sweep_payload_object(ctx, sweep, cname, frame, base)
    paths = field_paths(base)
    good = {}
    unknown = []
    # pass 1: each field over its full domain, the other fields at the baseline
    for path, tokens in paths:
        values = []
        for token in tokens:
            dom = _domain(token, rng, full=True)
            if dom is None:
                unknown.append(f"{cname}.{path}: {token}")
                continue
            values.extend(dom)
        ok_values = []
        for value in values:
            # the objects are mutable: a value may also arrive by assignment after a valid object was built
            try:
                late = assign_field(base, path, value)
            except Exception:  # noqa: BLE001
                ctx.count("assignment_refused")
            else:
                sweep.judge(late, cname, path, value, frame, {}, assigned=True)
                ctx.count("assigned_after_construction_cases")
            try:
                obj = with_field(base, path, value)
            except Exception:  # noqa: BLE001 - constructor refusal (__post_init__)
                ctx.count("constructor_refused")
                continue
            if sweep.judge(obj, cname, path, value, frame, {}) == "ok":
                ok_values.append(value)
        good[path] = ok_values or [get_field(base, path)]
        ctx.count("fields_swept")
        kinds = "+".join(tokens)
        ctx.count(f"fields_of_type_{kinds}")
    for item in unknown:
        ctx.inconclusive(f"field type not handled by the sweep: {item}")
    # pass 2: the swept field over its edge domain, the other fields random (values that round-trip alone)
    for variant in range(variants):
        full = variants > 3 and variant < 4  # thorough: the first variants sweep the full domain again
        for path, tokens in paths:
            others = {p: rng.choice(good[p]) for p, _ in paths if p != path}
            try:
                seed_obj = base
                for p, v in others.items():
                    seed_obj = with_field(seed_obj, p, v)
            except Exception:  # noqa: BLE001
                continue
            values = []
            for token in tokens:
                values.extend(_domain(token, rng, full=full) or [])
            for value in values:
                try:
                    obj = with_field(seed_obj, path, value)
                except Exception:  # noqa: BLE001
                    continue
                sweep.judge(obj, cname, path, value, frame, others)
                ctx.count("random_other_fields_cases")


def run(ctx):
    rng = ctx.rng
    ctx.rule = (
        "per service class (walk of APCI.__subclasses__) x baseline instance (decoded valid frame) x field x value domain of the field's "
        "declared type; other fields at baseline, then random; distinct = (class, field, roundtrip | refused x exception class)"
    )
    ctx.require("objects_encoded", "objects_refused", "fields_swept", "service_classes_swept", "random_other_fields_cases",
                "assigned_after_construction_cases", "payload_object_changed_in_place_cases")
    live = live_service_classes()
    base = baselines(ctx, live)
    sweep = Sweep(ctx)
    variants = ctx.scale(3, 20)
    names = sorted(live)
    for index, cname in enumerate(names):
        if cname in G.STUB_CLASSES:
            if ctx.shard == 0:
                try:
                    obj = live[cname]()
                    sweep.judge(obj, cname, "-", None, b"", {})
                    ctx.count("stub_classes_checked")
                except Exception:  # noqa: BLE001
                    ctx.count("stub_class_not_constructible")
            continue
        if cname not in base:
            ctx.inconclusive(f"service class {cname} has no valid frame in vlib/apci_gen.py: not swept")
            continue
        if not ctx.mine(index):
            continue
        for frame, obj in base[cname]:
            if not dataclasses.fields(obj):
                sweep.judge(obj, cname, "-", None, frame, {})
                ctx.count("fieldless_classes_checked")
                continue
            sweep_class(ctx, sweep, cname, frame, obj, rng, variants)
        ctx.count("service_classes_swept")
    sweep.flush()
    ctx.extra["service_classes_total"] = [f"{len(names)} concrete classes incl. {len(G.STUB_CLASSES)} documented stubs"]
    ctx.sample({"class": "MemoryRead", "field": "count", "value": 64, "outcome": "refused (ConversionError: Count out of range)"})
    ctx.sample({"class": "KeyWrite", "field": "key", "value": 2**32, "outcome": "refused"})
    ctx.sample({"class": "DomainAddressWrite", "field": "domain_address", "value": "3 octets", "outcome": "refused"})
    ctx.sample({"class": "LinkResponse", "field": "group_address_list", "value": "7 addresses", "outcome": "refused"})


def replay(ctx, witness):
    ctx.rule = "replay of one recorded service object"
    live = live_service_classes()
    cname = witness["class"]
    sweep = Sweep(ctx)
    frame = bytes.fromhex(witness.get("baseline_frame", ""))
    if frame:
        obj = APCI.from_knx(frame)
        for p, v in witness.get("other_fields", {}).items():
            obj = with_field(obj, p, unpack_value(v))
        value = unpack_value(witness["value"])
        if witness.get("assigned_after_construction"):
            obj = assign_field(obj, witness["field"], value)
        else:
            obj = with_field(obj, witness["field"], value)
    else:
        obj, value = live[cname](), None
    sweep.judge(obj, cname, witness["field"], value, frame, {})
    sweep.flush()
    ctx.distinct(("replay", cname, witness["field"]))
    ctx.distinct(("replay-value", repr(witness["value"])))
