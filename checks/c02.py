"""C02 group address filters: generated patterns over the documented grammar against a reference matcher."""

from __future__ import annotations

from xknx.core.telegram_queue import TelegramQueue
from xknx.telegram import Telegram, TelegramDirection
from xknx.telegram.address import GroupAddress, GroupAddressType, IndividualAddress, InternalGroupAddress
from xknx.telegram.address_filter import AddressFilter
from xknx.telegram.apci import GroupValueRead

LEVEL = "exploration"
TECHNIQUE = (
    "runtime monitor: generated filter patterns evaluated by the real AddressFilter.match (and TelegramQueue.Callback.is_within_filter) "
    "against an independent interval / glob reference matcher working on the generated pattern structure"
)
LEVEL_TEXT = (
    "Patterns are generated from the documented grammar (1-3 levels, comma lists of n, a-b, -b, a-, *, numbers at and around every level "
    "boundary and up to 70000, reversed and duplicated ranges, leading zeros; 'i-' internal globs over literals, ?, * and [..] / [!..] classes, incl. the pattern's own text as address). Each is "
    "matched by the real code against a boundary-stratified sample of the 65,536 group addresses (a share of the patterns, 2 quick / "
    "960 thorough, against all 65,536) in the notation with the same number of levels, twice (same object forward, freshly built twin backward after "
    "unrelated filters were built). Exploration: the pattern space is sampled."
)
LEVEL_NOTE = (
    "Trusted: CPython; the reference works on the generated structure, not on the text, and uses neither fnmatch nor xknx code. "
    "Judged: match result for in-grammar patterns in the matching notation (GroupAddress objects, str and int forms), exceptions for "
    "in-grammar patterns, agreement of twin filters / evaluation orders, cross-kind (group filter vs internal address and vice versa) "
    "never matches; TelegramQueue.Callback.is_within_filter, evaluated statefully on one Callback object over sequences of group-, individual- and "
    "internal-addressed telegrams with colliding raw values (same raw as IA and GA, both orders), repeats and notation switches (twin objects, "
    "forward and reversed): every verdict equals the reference (pure function of filters / address list, destination, notation) and the verdict "
    "of a brand-new Callback asked the same question. Not judged (recorded): patterns outside the grammar (empty values, "
    "bare '-', Unicode digits, blanks, 4 levels, glob prefixes other than the documented 'i-'; character classes are judged only in "
    "their plain form: 1-3 members, at most one ascending range, optional '!', no '-' / ']' / '^' / backslash inside), notation/level mismatches, match(0) / match('0/0/0') refusing the "
    "broadcast address."
)
SHARDS = {"quick": 1, "thorough": 16}
TIMEOUT = {"quick": 300, "thorough": 3000}

INF = float("inf")
NOTATION = {3: GroupAddressType.LONG, 2: GroupAddressType.SHORT, 1: GroupAddressType.FREE}
LEVEL_MAX = {3: (31, 7, 255), 2: (31, 2047), 1: (65535,)}


# ---------------------------------------------------------------- reference
def level_values(raw: int, nlev: int) -> tuple[int, ...]:
    """Level values of a raw group address by bit arithmetic."""
    if nlev == 3:
        return (raw >> 11) & 0x1F, (raw >> 8) & 0x07, raw & 0xFF
    if nlev == 2:
        return (raw >> 11) & 0x1F, raw & 0x7FF
    return (raw,)


def item_interval(item) -> tuple[float, float]:
    """Closed interval an item denotes. Open ends reach the maximum; reversed ranges are swapped."""
    kind = item[0]
    if kind == "star":
        return 0, INF
    if kind == "num":
        return item[1], item[1]
    if kind == "upto":
        return 0, item[1]
    if kind == "from":
        return item[1], INF
    lo, hi = item[1], item[2]
    return (lo, hi) if lo <= hi else (hi, lo)


def ref_level_table(items, level_max: int) -> bytearray:
    """Membership table 0..level_max of a level (union of the intervals of its items)."""
    table = bytearray(level_max + 1)
    for item in items:
        lo, hi = item_interval(item)
        if lo > level_max:
            continue
        hi_i = level_max if hi > level_max else int(hi)
        for v in range(int(lo), hi_i + 1):
            table[v] = 1
    return table


def ref_match(tables, raw: int, nlev: int) -> bool:
    for table, value in zip(tables, level_values(raw, nlev), strict=True):
        if not table[value]:
            return False
    return True


def glob_tokens(pat: str):
    """Tokens of a glob: ("star",), ("any",), ("lit", c), ("set", negated, members, ranges).

    Character classes as in shell globs: '[' opens a class when a closing ']' follows (a ']' directly after '[' or '[!' is a member,
    not the end); '!' first negates; 'a-c' inside is a range; a '[' that is never closed is an ordinary character."""
    out = []
    i, n = 0, len(pat)
    while i < n:
        c = pat[i]
        if c == "*":
            out.append(("star",))
        elif c == "?":
            out.append(("any",))
        elif c == "[":
            j = i + 1
            if j < n and pat[j] == "!":
                j += 1
            if j < n and pat[j] == "]":
                j += 1
            while j < n and pat[j] != "]":
                j += 1
            if j >= n:
                out.append(("lit", "["))
            else:
                body = pat[i + 1:j]
                negated = body.startswith("!")
                if negated:
                    body = body[1:]
                members, ranges = set(), []
                k = 0
                while k < len(body):
                    if k + 2 < len(body) and body[k + 1] == "-":
                        ranges.append((body[k], body[k + 2]))
                        k += 3
                    else:
                        members.add(body[k])
                        k += 1
                out.append(("set", negated, frozenset(members), tuple(ranges)))
                i = j
        else:
            out.append(("lit", c))
        i += 1
    return out


def _token_accepts(tok, ch: str) -> bool:
    if tok[0] == "any":
        return True
    if tok[0] == "lit":
        return tok[1] == ch
    _s, negated, members, ranges = tok
    inside = ch in members or any(lo <= ch <= hi for lo, hi in ranges)
    return inside != negated


def ref_glob(pat: str, text: str) -> bool:
    """Own glob: * any run of characters, ? exactly one, [..] / [!..] one character of (not of) the class, everything else literal.

    Iterative with backtracking to the last *."""
    toks = glob_tokens(pat)
    p = t = 0
    star_p = star_t = -1
    while t < len(text):
        if p < len(toks) and toks[p][0] == "star":
            star_p, star_t = p, t
            p += 1
        elif p < len(toks) and _token_accepts(toks[p], text[t]):
            p += 1
            t += 1
        elif star_p >= 0:
            star_t += 1
            p, t = star_p + 1, star_t
        else:
            return False
    while p < len(toks) and toks[p][0] == "star":
        p += 1
    return p == len(toks)


# ---------------------------------------------------------------- generator
def _number(rng, level_max: int) -> int:
    r = rng.random()
    if r < 0.45:
        return rng.randint(0, level_max)
    if r < 0.75:
        return max(0, rng.choice((0, 1, level_max - 1, level_max, level_max + 1, level_max // 2)))
    if r < 0.9:
        return rng.choice((7, 8, 31, 32, 255, 256, 2047, 2048, 65534, 65535))
    return rng.choice((65536, 65537, 69999, 70000, rng.randint(65536, 70000)))


def _item(rng, level_max: int):
    r = rng.random()
    if r < 0.12:
        return ("star",)
    if r < 0.42:
        return ("num", _number(rng, level_max))
    if r < 0.57:
        return ("upto", _number(rng, level_max))
    if r < 0.72:
        return ("from", _number(rng, level_max))
    a, b = _number(rng, level_max), _number(rng, level_max)
    if rng.random() < 0.15:
        b = a
    return ("range", a, b)


def _render_num(rng, n: int) -> str:
    if rng.random() < 0.1:
        return "0" * rng.randint(1, 3) + str(n)
    return str(n)


def render_item(rng, item) -> str:
    kind = item[0]
    if kind == "star":
        return "*"
    if kind == "num":
        return _render_num(rng, item[1])
    if kind == "upto":
        return "-" + _render_num(rng, item[1])
    if kind == "from":
        return _render_num(rng, item[1]) + "-"
    return _render_num(rng, item[1]) + "-" + _render_num(rng, item[2])


def gen_pattern(rng):
    """Return (structure, text). structure = list of levels, each a list of items."""
    nlev = rng.choice((1, 2, 2, 3, 3, 3))
    struct = []
    for lm in LEVEL_MAX[nlev]:
        k = rng.choice((1, 1, 1, 2, 2, 3, 4))
        items = [_item(rng, lm) for _ in range(k)]
        if k > 1 and rng.random() < 0.2:
            items.append(rng.choice(items))  # duplicate
        struct.append(items)
    text = "/".join(",".join(render_item(rng, it) for it in items) for items in struct)
    return struct, text


def item_kind(item, text: str = "") -> str:
    kind = item[0]
    name = {"star": "star", "num": "number", "upto": "open-start", "from": "open-end"}.get(kind)
    if name is None:
        name = "range-reversed" if item[1] > item[2] else "range"
    if any(isinstance(x, int) and x > 65535 for x in item[1:]):
        name += "-above-65535"
    return name


def boundary_addresses(rng, struct, nlev: int, want: int) -> list[int]:
    """Addresses at / next to every interval end of every level, plus random ones."""
    per_level = []
    for items, lm in zip(struct, LEVEL_MAX[nlev], strict=True):
        cand = {0, lm}
        for item in items:
            for x in item[1:]:
                for y in (x - 1, x, x + 1):
                    if 0 <= y <= lm:
                        cand.add(y)
        per_level.append(sorted(cand))
    out: set[int] = set()
    total = 1
    for c in per_level:
        total *= len(c)

    def compose(vals) -> int:
        if nlev == 3:
            return vals[0] << 11 | vals[1] << 8 | vals[2]
        if nlev == 2:
            return vals[0] << 11 | vals[1]
        return vals[0]

    if total <= want // 2:
        idx = [0] * nlev
        while True:
            out.add(compose([per_level[i][idx[i]] for i in range(nlev)]))
            i = nlev - 1
            while i >= 0:
                idx[i] += 1
                if idx[i] < len(per_level[i]):
                    break
                idx[i] = 0
                i -= 1
            if i < 0:
                break
    else:
        for _ in range(want // 2):
            out.add(compose([rng.choice(c) for c in per_level]))
    while len(out) < want:
        out.add(rng.randrange(65536))
    return sorted(out)


# ---------------------------------------------------------------- running the real code
ALL_GA: list[GroupAddress] = []


def _ga(raw: int) -> GroupAddress:
    if not ALL_GA:
        ALL_GA.extend(GroupAddress(r) for r in range(65536))
    return ALL_GA[raw]


def _real_match(flt, address):
    try:
        res = flt.match(address)
    except BaseException as exc:  # noqa: BLE001
        return exc
    return res


def _build(text: str):
    try:
        return AddressFilter(text)
    except BaseException as exc:  # noqa: BLE001
        return exc


def _struct_text(struct) -> str:
    """Canonical rendering (no leading zeros) used while shrinking."""
    class _R:
        @staticmethod
        def random() -> float:
            return 1.0
    return "/".join(",".join(render_item(_R, it) for it in items) for items in struct)


def _mismatch(struct, nlev: int, raw: int, text: str | None = None) -> str | None:
    """'false-positive' / 'false-negative' / 'raises-X' when the real filter for `struct` disagrees with the reference on raw, else None."""
    flt = _build(text if text is not None else _struct_text(struct))
    if isinstance(flt, BaseException):
        return f"construct-raises-{type(flt).__name__}"
    got = _real_match(flt, _ga(raw))
    if isinstance(got, BaseException):
        return f"match-raises-{type(got).__name__}"
    tables = [ref_level_table(items, lm) for items, lm in zip(struct, LEVEL_MAX[nlev], strict=True)]
    exp = ref_match(tables, raw, nlev)
    if got is exp:
        return None
    if not isinstance(got, bool):
        return "returns-non-bool"
    return "false-positive" if got else "false-negative"


def shrink(struct, nlev: int, raw: int, kind: str):
    """Greedy reduction through the public API only: star out levels, drop items, while the same disagreement persists."""
    cur = [list(items) for items in struct]
    changed = True
    while changed:
        changed = False
        for i in range(nlev):
            if cur[i] != [("star",)]:
                trial = [list(x) for x in cur]
                trial[i] = [("star",)]
                if _mismatch(trial, nlev, raw) == kind:
                    cur = trial
                    changed = True
                    continue
            j = 0
            while len(cur[i]) > 1 and j < len(cur[i]):
                trial = [list(x) for x in cur]
                del trial[i][j]
                if _mismatch(trial, nlev, raw) == kind:
                    cur = trial
                    changed = True
                else:
                    j += 1
    return cur


def report_mismatch(ctx, struct, text: str, nlev: int, raw: int, kind: str, via: str):
    small = shrink(struct, nlev, raw, kind) if _mismatch(struct, nlev, raw) == kind else None
    if small is not None:
        parts = []
        for i, items in enumerate(small):
            kinds = sorted({item_kind(it) for it in items})
            if kinds != ["star"] or nlev == 1:
                parts.append(f"level{i + 1}of{nlev}-" + "+".join(kinds))
        where = "-".join(parts) or f"{nlev}level-all-star"
        small_text = _struct_text(small)
    else:
        # only reproducible with the original text (rendering variant such as leading zeros)
        where = f"{nlev}level-as-rendered"
        small_text = text
    ctx.violation(
        f"{via}-{kind}-{where}",
        {"pattern": text, "minimal_pattern": small_text, "address_raw": raw, "address": str(GroupAddress(raw)),
         "notation": NOTATION[nlev].name, "levels": list(level_values(raw, nlev)), "disagreement": kind, "via": via},
        f"AddressFilter({small_text!r}) [{via}] on {GroupAddress(raw)} ({NOTATION[nlev].name} notation, raw {raw}): {kind} "
        f"(found with pattern {text!r})",
    )


def check_group_pattern(ctx, struct, text: str, addresses: list[int], index: int):
    nlev = len(struct)
    GroupAddress.address_format = NOTATION[nlev]
    ctx.count(f"patterns_{nlev}level")
    tables = [ref_level_table(items, lm) for items, lm in zip(struct, LEVEL_MAX[nlev], strict=True)]
    flt = _build(text)
    if isinstance(flt, BaseException):
        ctx.ev()
        report_mismatch(ctx, struct, text, nlev, addresses[0], f"construct-raises-{type(flt).__name__}", "match")
        return
    # unrelated filters, then a twin built under another notation
    GroupAddress.address_format = NOTATION[1 + (nlev + index) % 3]
    for other in ("1/2/3", "*/7-", "i-x*", "5-3,9"):
        _build(other)
    twin = _build(text)
    GroupAddress.address_format = NOTATION[nlev]

    objs = [_ga(r) for r in addresses]
    fwd = [_real_match(flt, a) for a in objs]
    bwd = [_real_match(twin, a) for a in reversed(objs)]
    bwd.reverse()
    ctx.ev(2 * len(objs))
    ctx.count("match_calls", 2 * len(objs))
    n_true = 0
    reported = 0
    for raw, g1, g2 in zip(addresses, fwd, bwd, strict=True):
        exp = ref_match(tables, raw, nlev)
        n_true += exp
        if g1 is exp and g2 is exp:
            continue
        if reported >= 2:
            ctx.count("further_disagreements_same_pattern")
            continue
        reported += 1
        if isinstance(g1, BaseException) or isinstance(g2, BaseException):
            exc = g1 if isinstance(g1, BaseException) else g2
            report_mismatch(ctx, struct, text, nlev, raw, f"match-raises-{type(exc).__name__}", "match")
        elif g1 is not g2 and isinstance(g1, bool) and isinstance(g2, bool):
            ctx.violation("match-result-depends-on-history",
                          {"pattern": text, "address_raw": raw, "notation": NOTATION[nlev].name, "first": g1, "twin_reverse_order": g2, "expected": exp},
                          f"AddressFilter({text!r}) and a freshly built twin disagree on raw {raw}: {g1} vs {g2}")
        elif not isinstance(g1, bool):
            report_mismatch(ctx, struct, text, nlev, raw, "returns-non-bool", "match")
        else:
            report_mismatch(ctx, struct, text, nlev, raw, "false-positive" if g1 else "false-negative", "match")
    ctx.count("expected_true", n_true)
    ctx.count("expected_false", len(addresses) - n_true)
    ctx.distinct((nlev, tuple(tuple(sorted({item_kind(it) for it in items})) for items in struct), n_true > 0, n_true < len(addresses)))
    if index < 3:
        ctx.sample({"pattern": text, "notation": NOTATION[nlev].name, "addresses_tried": len(addresses), "expected_matching": n_true})

    # string / int forms of a few addresses
    for raw in addresses[:: max(1, len(addresses) // 6)][:6]:
        exp = ref_match(tables, raw, nlev)
        for form, arg in (("str", str(_ga(raw))), ("int", raw)):
            ctx.ev()
            got = _real_match(flt, arg)
            if isinstance(got, BaseException):
                if raw == 0:
                    ctx.count("broadcast_text_or_int_refused_not_judged")
                else:
                    report_mismatch(ctx, struct, text, nlev, raw, f"match-raises-{type(got).__name__}", f"match-{form}-address")
            elif got is not exp:
                report_mismatch(ctx, struct, text, nlev, raw, "false-positive" if got else "false-negative", f"match-{form}-address")
            else:
                ctx.count("match_calls_text_or_int_form")
    # cross kind: a group filter never matches an internal address
    ctx.ev()
    got = _real_match(flt, InternalGroupAddress("i-" + text))
    if got is not False:
        ctx.violation("group-filter-matches-internal-address", {"pattern": text, "address": "i-" + text, "result": repr(got)},
                      f"AddressFilter({text!r}).match(InternalGroupAddress) returned {got!r}")
    else:
        ctx.count("cross_kind_checks")
    return flt, tables


# -- Callback.is_within_filter: stateful and typed ---------------------------------------------------------------
def _dest(kind: str, value):
    """Fresh destination object for an event."""
    if kind == "GA":
        return GroupAddress(value)
    if kind == "IA":
        return IndividualAddress(value)
    return InternalGroupAddress("i-" + value)


def _make_callback(texts, listed, match_outgoing):
    """Brand-new Callback with brand-new AddressFilter objects built from the texts."""
    filters = [AddressFilter(t) for t in texts]
    return TelegramQueue.Callback(lambda t: None, address_filters=filters,
                                  group_addresses=[_dest(k, v) for k, v in listed], match_for_outgoing_telegrams=match_outgoing)


def _ask(callback, kind, value, outgoing):
    telegram = Telegram(destination_address=_dest(kind, value), payload=GroupValueRead(),
                        direction=TelegramDirection.OUTGOING if outgoing else TelegramDirection.INCOMING)
    try:
        return callback.is_within_filter(telegram)
    except BaseException as exc:  # noqa: BLE001
        return exc


def ref_callback(tables_list, globs, listed, nlev, kind, value, event_nlev):
    """Pure function of (filters / address list, destination, notation). None = not defined by the statement (notation mismatch)."""
    if kind == "IA":
        return False            # a filter pattern / group address list denotes group and internal addresses only
    if kind == "GA" and event_nlev != nlev:
        return None             # filters of another level count are asked first: outside the judged grammar/notation pairing
    if (kind, value) in listed:
        return True
    if kind == "IGA":
        return any(ref_glob(g, value) for g in globs)
    return any(ref_match(tables, value, nlev) for tables in tables_list)


def _history_detail(history, kind, value, event_nlev):
    """What in the earlier evaluations of this Callback object could explain a history dependence (for the mechanism string)."""
    same_raw_other_type = [h for h in history if h[1] == value and h[0] != kind and kind in ("GA", "IA") and h[0] in ("GA", "IA")]
    if same_raw_other_type:
        return "same-raw-seen-first-as-" + ("individual-address" if same_raw_other_type[0][0] == "IA" else "group-address")
    same = [h for h in history if h[0] == kind and h[1] == value]
    if any(h[2] != event_nlev for h in same):
        return "same-destination-seen-under-other-notation"
    if same:
        return "same-destination-repeated"
    return "no-related-earlier-telegram"


def callback_events(rng, entries, globs, listed, nlev):
    """Sequence mixing group-, individual- and internal-addressed destinations with colliding raw values, repeats, notation switches."""
    raws = set()
    for struct, _text, _f, _t in entries:
        raws.update(rng.sample(boundary_addresses(rng, struct, nlev, 24), 4))
    raws.update(v for k, v in listed if k == "GA")
    raws.update((0x0901, rng.randrange(65536)))
    blocks = []
    for i, raw in enumerate(sorted(raws)):
        first, second = ("IA", "GA") if (i + rng.randrange(2)) % 2 else ("GA", "IA")
        block = [(first, raw), (second, raw), (second, raw), (first, raw)]
        if rng.random() < 0.5:
            block.append(("GA", raw))
        blocks.append(block)
    names = [instantiate(rng, g) for g in globs] + ["zz", "a"]
    names += [v for k, v in listed if k == "IGA"]
    blocks.append([("IGA", _clean_name(n) or "q") for n in names for _ in range(2)])
    # interleave the blocks, keeping the order inside each block
    events = []
    while blocks:
        b = rng.choice(blocks)
        events.append(b.pop(0))
        if not b:
            blocks.remove(b)
    out = []
    for kind, value in events:
        r = rng.random()
        event_nlev = nlev if r < 0.7 else rng.choice((1, 2, 3))
        out.append((kind, value, event_nlev, kind == "IA" and rng.random() < 0.5))
    return out


def run_callback_sequence(ctx, texts, tables_list, globs, listed, nlev, events, order_name):
    """Evaluate `events` on ONE Callback object; each verdict must equal the reference and a memoryless fresh evaluation."""
    callback = _make_callback(texts, listed, True)
    history = []
    for index, (kind, value, event_nlev, outgoing) in enumerate(events):
        GroupAddress.address_format = NOTATION[event_nlev]
        ctx.ev()
        got = _ask(callback, kind, value, outgoing)
        fresh = _ask(_make_callback(texts, listed, True), kind, value, outgoing)   # same question, no history
        exp = ref_callback(tables_list, globs, listed, nlev, kind, value, event_nlev)
        ctx.count("callback_evaluations")
        ctx.count("callback_evaluations_" + kind)
        detail = _history_detail(history, kind, value, event_nlev)
        if detail.startswith("same-raw"):
            ctx.count("callback_colliding_raw_" + detail[len("same-raw-seen-first-as-"):] + "_first")
        elif detail != "no-related-earlier-telegram":
            ctx.count("callback_" + detail.replace("-", "_"))
        wit = {"patterns": texts, "listed_addresses": [list(x) for x in listed], "filter_levels": nlev,
               "events(kind,value,notation_levels,outgoing)": [list(e) for e in events[: index + 1]], "event_index": index,
               "order": order_name, "got": repr(got), "memoryless": repr(fresh), "reference": exp}
        what = f"{kind} {value!r} in {NOTATION[event_nlev].name} notation (evaluation {index} of this Callback)"
        if isinstance(fresh, bool) and got is not fresh:
            kind_of = f"raises-{type(got).__name__}" if isinstance(got, BaseException) else ("false-positive" if got else "false-negative")
            ctx.violation(f"callback-verdict-depends-on-earlier-evaluations-{detail}-{kind_of}", wit,
                          f"Callback{texts}.is_within_filter for {what}: {got!r}, but a fresh Callback with the same filters says {fresh!r}")
        elif exp is not None and got is not exp:
            kind_of = f"raises-{type(got).__name__}" if isinstance(got, BaseException) else ("false-positive" if got else "false-negative")
            ctx.violation(f"callback-is_within_filter-{kind_of}-{kind}-destination", wit,
                          f"Callback{texts}.is_within_filter for {what}: {got!r}, the reference says {exp}")
        elif exp is None:
            ctx.count("callback_notation_mismatch_compared_with_memoryless_only" if isinstance(fresh, bool)
                      else "callback_notation_mismatch_raises_not_judged")
        else:
            ctx.count("callback_filter_checks")
            ctx.count("callback_expected_true" if exp else "callback_expected_false")
        history.append((kind, value, event_nlev))
    ctx.distinct(("callback", nlev, len(texts), len(listed), order_name, "".join(e[0][0] for e in events[:12])))


def check_callback(ctx, entries, rng, sample=False):
    """Stateful, typed check of TelegramQueue.Callback.is_within_filter (twin objects, forward and reversed order)."""
    nlev = len(entries[0][0])
    globs = [_clean_name(gen_glob(rng)) or "x*" for _ in range(rng.choice((0, 1, 1, 2)))]
    texts = [e[1] for e in entries] + ["i-" + g for g in globs]
    tables_list = [e[3] for e in entries]
    listed = []
    if rng.random() < 0.5:
        listed.append(("GA", rng.randrange(1, 65536)))
    if rng.random() < 0.25:
        listed.append(("IGA", "listed"))
    events = callback_events(rng, entries, globs, listed, nlev)
    if sample:
        ctx.sample({"callback_filters": texts, "listed": listed, "events": [list(e) for e in events[:10]], "events_total": len(events)})
    run_callback_sequence(ctx, texts, tables_list, globs, listed, nlev, events, "forward")
    run_callback_sequence(ctx, texts, tables_list, globs, listed, nlev, list(reversed(events)), "reversed")
    GroupAddress.address_format = NOTATION[nlev]


def replay_callback(ctx, witness):
    """Re-execute the recorded evaluation sequence on one Callback object."""
    texts = witness["patterns"]
    listed = [tuple(x) for x in witness["listed_addresses"]]
    events = [tuple(e) for e in witness["events(kind,value,notation_levels,outgoing)"]]
    callback = _make_callback(texts, listed, True)
    got = fresh = None
    for kind, value, event_nlev, outgoing in events:
        GroupAddress.address_format = NOTATION[event_nlev]
        got = _ask(callback, kind, value, outgoing)
        fresh = _ask(_make_callback(texts, listed, True), kind, value, outgoing)
    ctx.ev()
    ctx.distinct(("replay", 1))
    ctx.distinct(("replay", 2))
    print(f"replay: last of {len(events)} evaluations -> {got!r}; memoryless {fresh!r}; reference {witness['reference']!r}")
    if isinstance(fresh, bool) and got is not fresh:
        ctx.violation("replayed-callback-verdict-depends-on-earlier-evaluations", witness, f"{got!r} vs memoryless {fresh!r}")
    elif witness["reference"] is not None and got is not witness["reference"]:
        ctx.violation("replayed-callback-is_within_filter-disagreement", witness, f"{got!r} vs reference {witness['reference']!r}")


# ---------------------------------------------------------------- internal globs
_ALPHA = "abtes1xyzQ9"
_ODD = "-_. é/,:+#"


def gen_glob(rng):
    n = rng.randint(1, 7)
    toks = []
    for i in range(n):
        r = rng.random()
        if r < 0.2:
            toks.append("*")
        elif r < 0.4:
            toks.append("?")
        elif r < 0.9 or i in (0, n - 1):
            toks.append(rng.choice(_ALPHA))
        else:
            toks.append(rng.choice(_ODD))
    return "".join(toks)


def gen_class_glob(rng) -> str:
    """Glob with character classes (simple, well-formed: 1-3 members, at most one ascending range, optional '!') or with the
    characters '[', ']' and '!' standing for themselves (a '[' that is never closed, a ']' without an opening '[')."""
    def plain():
        r = rng.random()
        return "*" if r < 0.12 else "?" if r < 0.24 else rng.choice(_ALPHA)

    if rng.random() < 0.7:
        parts = [rng.choice(_ALPHA)] if rng.random() < 0.5 else []
        for _ in range(rng.randint(1, 2)):
            body = "".join(rng.sample(_ALPHA, rng.randint(1, 3)))
            if rng.random() < 0.3:
                body += rng.choice(("a-e", "0-9", "x-z"))
            parts.append("[" + ("!" if rng.random() < 0.35 else "") + body + "]")
            parts += [plain() for _ in range(rng.randint(0, 2))]
        return "".join(parts)
    # brackets and '!' as ordinary characters: every ']' comes before the only '[', which is therefore never closed
    head = [rng.choice(_ALPHA)] + [rng.choice((plain(), "]", "!")) for _ in range(rng.randint(1, 3))]
    tail = ["["] + [rng.choice(_ALPHA + "!") for _ in range(rng.randint(0, 2))] if rng.random() < 0.7 else []
    return "".join(head + tail)


def instantiate_tokens(rng, glob: str, hit: bool = True) -> str:
    """A name built along the tokens; with hit=False one class position gets a character outside (inside, if negated) the class."""
    out = []
    for tok in glob_tokens(glob):
        if tok[0] == "star":
            out.append("".join(rng.choice(_ALPHA) for _ in range(rng.choice((0, 0, 1, 2)))))
        elif tok[0] == "any":
            out.append(rng.choice(_ALPHA + "[]!"))
        elif tok[0] == "lit":
            out.append(tok[1])
        else:
            pool = [c for c in _ALPHA + "cd5[]!" if _token_accepts(tok, c) == hit]
            out.append(rng.choice(pool) if pool else "~")
    return "".join(out)


def instantiate(rng, glob: str) -> str:
    out = []
    for ch in glob:
        if ch == "*":
            out.append("".join(rng.choice(_ALPHA) for _ in range(rng.choice((0, 0, 1, 2, 5)))))
        elif ch == "?":
            out.append(rng.choice(_ALPHA + "?*"))
        else:
            out.append(ch)
    return "".join(out)


def _clean_name(name: str) -> str:
    """Names must survive the prefix parser unchanged: no blank at the ends, no '-'/'_' first (ambiguous with the prefix)."""
    name = name.strip()
    while name and name[0] in "-_ ":
        name = name[1:]
    return name


def check_internal(ctx, rng, index: int):
    with_class = rng.random() < 0.35
    glob = _clean_name(gen_class_glob(rng) if with_class else gen_glob(rng))
    if not glob:
        return
    if with_class:
        ctx.count("internal_patterns_with_class_or_bracket_literals")
    text = "i-" + glob  # the documented prefix; other spellings are exercised in exercise_outside
    flt = _build(text)
    ctx.count("internal_patterns")
    if isinstance(flt, BaseException):
        ctx.violation(f"internal-glob-construct-raises-{type(flt).__name__}", {"pattern": text, "exception": repr(flt)},
                      f"AddressFilter({text!r}) raised {type(flt).__name__}")
        return
    names = set()
    for _ in range(6):
        s = instantiate(rng, glob)
        names.add(s)
        if s:
            k = rng.randrange(len(s))
            names.add(s[:k] + s[k + 1:])
            names.add(s[:k] + rng.choice(_ALPHA) + s[k:])
            names.add(s[:k] + rng.choice(_ALPHA) + s[k + 1:])
            names.add(s + rng.choice(_ALPHA))
            names.add(s.swapcase())
    if with_class:
        for _ in range(4):
            names.add(instantiate_tokens(rng, glob, True))
            names.add(instantiate_tokens(rng, glob, False))
    names.add(glob)   # the pattern's own text as an address
    names.add("".join(rng.choice(_ALPHA) for _ in range(rng.randint(1, 6))))
    n_true = 0
    for name in sorted(names):
        name = _clean_name(name)
        if not name:
            continue
        exp = ref_glob(glob, name)
        n_true += exp
        apre = rng.choice(("i-", "i_", "i", "I-", "i "))
        for form, arg in (("object", InternalGroupAddress(apre + name)), ("str", apre + name)):
            ctx.ev()
            got = _real_match(flt, arg)
            if got is exp:
                ctx.count("internal_match_calls")
                ctx.count("internal_expected_true" if exp else "internal_expected_false")
                if with_class:
                    ctx.count("internal_class_expected_true" if exp else "internal_class_expected_false")
                    if name == glob:
                        ctx.count("internal_class_pattern_text_as_address_expected_" + ("true" if exp else "false"))
                continue
            kind = f"raises-{type(got).__name__}" if isinstance(got, BaseException) else ("false-positive" if got else "false-negative")
            tok_kinds = {t[0] for t in glob_tokens(glob)}
            feature = ("character-class" if "set" in tok_kinds else "bracket-literal" if with_class else
                       "star" if "star" in tok_kinds else "question-mark" if "any" in tok_kinds else "literal")
            if name == glob and "set" in tok_kinds:
                feature += "-address-text-equals-pattern-text"
            ctx.violation(f"internal-glob-{kind}-{feature}-{form}-address",
                          {"pattern": text, "glob": glob, "address": apre + name, "expected": exp, "got": repr(got)},
                          f"AddressFilter({text!r}).match({apre + name!r}) returned {got!r}, expected {exp}")
    ctx.distinct(("internal", "".join(t[0][0] if t[0] != "set" else ("N" if t[1] else "C") for t in glob_tokens(glob)), n_true > 0))
    if index < 2:
        ctx.sample({"pattern": text, "names_tried": len(names), "expected_matching": n_true})
    # cross kind: an internal filter never matches a group address
    for raw in (0, 1, rng.randrange(65536)):
        ctx.ev()
        got = _real_match(flt, _ga(raw))
        if got is not False:
            ctx.violation("internal-filter-matches-group-address", {"pattern": text, "address_raw": raw, "result": repr(got)},
                          f"AddressFilter({text!r}).match(GroupAddress({raw})) returned {got!r}")
        else:
            ctx.count("cross_kind_checks")


# ---------------------------------------------------------------- outside the grammar: exercised, recorded only
def exercise_outside(ctx, rng):
    texts = ["", ",", "1,,2", "1,", "-", "-/-", "1/-/2", "1/2/3/4", " 1", "1 ", "1 - 2", "1--2", "1-2-3", "²", "٣", "1/²", "a", "1/a",
             "**", "*-", "1-*", "i", "i-", "i-[ab]", "i-[!a]*", "i-[", "i-a]", "i_a*", "ia*", "I-a*", "I_a*", "Ia*", "i a*", "0x10", "+1", "1.5", "1/2/3/", "/", "//"]
    for fmt in NOTATION.values():
        GroupAddress.address_format = fmt
        for text in texts:
            ctx.ev()
            flt = _build(text)
            if isinstance(flt, BaseException):
                ctx.count(f"outside_grammar_construct_{type(flt).__name__}_not_judged")
                continue
            for arg in (_ga(rng.randrange(65536)), _ga(0), InternalGroupAddress("i-a")):
                got = _real_match(flt, arg)
                ctx.count(f"outside_grammar_match_{type(got).__name__}_not_judged")
    # level / notation mismatch
    for nlev_p, text in ((3, "1/2/3-"), (2, "1/5-"), (1, "5-")):
        for nlev_n, fmt in NOTATION.items():
            if nlev_n == nlev_p:
                continue
            GroupAddress.address_format = fmt
            got = _real_match(_build(text), _ga(rng.randrange(1, 65536)))
            ctx.count(f"notation_mismatch_{type(got).__name__}_not_judged")


# ---------------------------------------------------------------- entry
def run(ctx):
    rng = ctx.rng
    ctx.rule = ("random patterns from the documented grammar (structure generated, then rendered); per pattern: addresses at/next to every "
                "interval end of every level (product or random combinations) + random; the first patterns of each shard (2 quick, 60 x 16 thorough) against all "
                "65,536; distinct = (levels, item kinds per level, saw match, saw non-match) and glob shapes")
    ctx.require("match_calls", "expected_true", "expected_false", "patterns_1level", "patterns_2level", "patterns_3level",
                "internal_match_calls", "internal_expected_true", "internal_expected_false", "callback_filter_checks", "cross_kind_checks",
                "internal_class_expected_true", "internal_class_expected_false", "internal_class_pattern_text_as_address_expected_false",
                "callback_expected_true", "callback_expected_false", "callback_evaluations_GA", "callback_evaluations_IA", "callback_evaluations_IGA",
                "callback_colliding_raw_individual-address_first", "callback_colliding_raw_group-address_first",
                "callback_same_destination_repeated", "callback_same_destination_seen_under_other_notation")
    # reference self test (hand-computed cases from the statement)
    t = ref_level_table([("range", 5, 3), ("from", 250)], 255)
    ok = [i for i in range(256) if t[i]] == [3, 4, 5, 250, 251, 252, 253, 254, 255]
    ok = ok and level_values(0x1234, 3) == (2, 2, 0x34) and level_values(0x1234, 2) == (2, 0x234) and level_values(0x1234, 1) == (0x1234,)
    ok = ok and ref_glob("t?st*", "test") and ref_glob("*a*b", "xaxxb") and not ref_glob("t?st", "tst") and not ref_glob("a*b", "ab1") \
        and ref_glob("*", "") and not ref_glob("?", "") \
        and ref_glob("[ab]c", "ac") and not ref_glob("[ab]c", "[ab]c") and ref_glob("[!ab]c", "xc") and not ref_glob("[!ab]c", "ac") \
        and ref_glob("x[0-9]", "x7") and not ref_glob("x[0-9]", "xa") and ref_glob("a[b", "a[b") and ref_glob("a]b", "a]b") \
        and ref_glob("[]a]", "]") and ref_glob("a!b", "a!b")
    if not ok:
        ctx.inconclusive("reference matcher failed its self test")
        return

    n_patterns = ctx.scale(1500, 3000)      # per shard
    n_addr = ctx.scale(600, 2000)
    n_full = ctx.scale(2, 60)              # per shard: patterns against all 65,536
    n_internal = ctx.scale(1500, 5000)
    saved = GroupAddress.address_format
    try:
        by_level: dict[int, list] = {1: [], 2: [], 3: []}
        for i in range(n_patterns):
            struct, text = gen_pattern(rng)
            nlev = len(struct)
            if i < n_full:
                addresses = list(range(65536))
                ctx.count("patterns_against_all_65536")
            else:
                addresses = boundary_addresses(rng, struct, nlev, n_addr)
            res = check_group_pattern(ctx, struct, text, addresses, i)
            if res is not None:
                by_level[nlev].append((struct, text, res[0], res[1]))
            bucket = by_level[nlev]
            if len(bucket) >= 3:
                check_callback(ctx, bucket[: rng.randint(1, 3)], rng, sample=(i < 12))
                del bucket[:]
        for i in range(n_internal):
            check_internal(ctx, rng, i)
        exercise_outside(ctx, rng)
    finally:
        GroupAddress.address_format = saved


def replay(ctx, witness):
    """Re-evaluate exactly the recorded pattern/address pair."""
    if "event_index" in witness:
        saved = GroupAddress.address_format
        try:
            replay_callback(ctx, witness)
        finally:
            GroupAddress.address_format = saved
        return
    if "glob" not in witness and "disagreement" not in witness:
        run(ctx)   # history witnesses: re-run the seeded workload
        return
    saved = GroupAddress.address_format
    try:
        if "glob" in witness:
            flt = AddressFilter(witness["pattern"])
            got = _real_match(flt, witness["address"])
            ctx.ev()
            ctx.distinct(("replay", 1))
            ctx.distinct(("replay", 2))
            if got is not witness["expected"]:
                ctx.violation("replayed-internal-glob-disagreement", witness, f"still {got!r}, expected {witness['expected']}")
            return
        fmt = GroupAddressType[witness["notation"]]
        GroupAddress.address_format = fmt
        text = witness.get("minimal_pattern") or witness["pattern"]
        flt = AddressFilter(text)
        got = _real_match(flt, GroupAddress(witness["address_raw"]))
        ctx.ev()
        ctx.distinct(("replay", 1))
        ctx.distinct(("replay", 2))
        print(f"replay: AddressFilter({text!r}).match(raw {witness['address_raw']}) in {fmt.name} -> {got!r}; recorded disagreement: {witness.get('disagreement')}")
        if witness.get("disagreement") in ("false-positive", "false-negative"):
            if got is (witness["disagreement"] == "false-positive"):
                ctx.violation("replayed-" + witness["disagreement"], witness, "disagreement reproduced")
        elif isinstance(got, BaseException):
            ctx.violation("replayed-exception", witness, repr(got))
    finally:
        GroupAddress.address_format = saved
