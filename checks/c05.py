"""C05 decode -> encode: same octets modulo reserved bits, same length, calculated_length, equal object."""

from __future__ import annotations

from vlib import apci_gen as G
from vlib import apci_masks as M
from vlib.eqv import same
from xknx.exceptions import ConversionError
from xknx.telegram import apci as apci_mod
from xknx.telegram.apci import APCI

LEVEL = "exploration"
TECHNIQUE = (
    "runtime monitor: decode->encode->decode on the real service classes, compared bit-wise under an independent "
    "reserved-bit mask table (vlib/apci_masks.py) and by structural equality"
)
LEVEL_TEXT = (
    "Every APDU the real decoder accepts in the C04 input space (thorough: all APDUs of 0..3 octets exhaustively; per 10-bit code 37 "
    "lengths x fills; every octet value in every position of a hand-written valid frame of every service; truncations; mixtures) is "
    "re-encoded and re-decoded. Exploration: the accepted set beyond 3 octets is sampled, but every service class must have been accepted at least once."
)
LEVEL_NOTE = (
    "Trusted: the mask table written from the specification citations in the class docstrings (octet 0 TPCI bits; low six APCI bits of "
    "the tolerant 10-bit services and of >6-bit group values; the reserved fields listed in vlib/apci_masks.py). Judged: length, every "
    "unmasked bit, calculated_length() == len-1, re-decode equal (eqv.same). Not judged: an encoder refusing a decoded object (allowed by "
    "the statement; counted per class), how often tolerant code bits were normalised (counted)."
)
SHARDS = {"quick": 1, "thorough": 16}
TIMEOUT = {"quick": 240, "thorough": 1500}


def live_service_classes():
    """Concrete service classes defined by the module (dataclass(slots=True) leaves stale twins behind)."""

    def walk(cls):
        for sub in cls.__subclasses__():
            yield sub
            yield from walk(sub)

    out = {}
    for cls in walk(APCI):
        if getattr(apci_mod, cls.__name__, None) is cls and cls.__name__ != "APCIRequest":
            out[cls.__name__] = cls
    return out


class Judge:
    def __init__(self, ctx):
        self.ctx = ctx
        self.accepted = {}
        self.refused = {}
        self.masked_only = {}
        self.tolerant = {}
        self.refusal_types = set()
        self.fps = set()
        self.n = 0
        self.unknown_classes = set()
        self.restart_flag_bits = 0

    def one(self, raw):
        """Returns True if the decoder accepted `raw`."""
        try:
            obj = APCI.from_knx(raw)
        except ConversionError:
            return False
        except BaseException:  # noqa: BLE001 - C04's business
            self.ctx.count("decoder_raised_undeclared_exception(C04)")
            return False
        ctx = self.ctx
        self.n += 1
        cname = type(obj).__name__
        self.accepted[cname] = self.accepted.get(cname, 0) + 1
        ln = len(raw)
        wit = {"apdu": raw.hex(), "class": cname, "decoded": str(obj)[:300]}
        try:
            enc = obj.to_knx()
        except Exception as exc:  # noqa: BLE001 - "whenever it can be encoded again": a refusal is allowed
            self.refused[cname] = self.refused.get(cname, 0) + 1
            self.refusal_types.add(f"{cname}:{type(exc).__name__}")
            self.fps.add((cname, "refused", min(ln, 24)))
            return True
        enc = bytes(enc)
        wit["reencoded"] = enc.hex()
        if len(enc) != ln:
            ctx.violation(
                f"{cname}-reencode-changes-length",
                wit,
                f"{cname}: {ln} octets received, {len(enc)} octets re-encoded ({raw[:20].hex()} -> {enc[:20].hex()})",
            )
        elif enc[1:] != raw[1:] or (enc[0] ^ raw[0]) & 0x03:
            try:
                diffs = M.differs(cname, raw, enc)
            except KeyError:
                self.unknown_classes.add(cname)
                diffs = []
            if diffs:
                index, was, now = diffs[0]
                where = f"octet-{index}" if index <= 16 else "octet-beyond-16"
                wit["first_difference"] = {"octet": index, "received": f"{was:#04x}", "reencoded": f"{now:#04x}",
                                           "defined_bits_mask": f"{M.mask(cname, raw)[index]:#04x}"}
                ctx.violation(
                    f"{cname}-reencode-alters-defined-bits-{where}",
                    wit,
                    f"{cname}: octet {index} received {was:#04x} re-encoded {now:#04x} (defined bits {M.mask(cname, raw)[index]:#04x}); "
                    f"{raw[:20].hex()} -> {enc[:20].hex()}",
                )
            else:
                self.masked_only[cname] = self.masked_only.get(cname, 0) + 1
                if cname in M.TOLERANT_CODE_CLASSES and (enc[1] ^ raw[1]) & 0x3F:
                    self.tolerant[cname] = self.tolerant.get(cname, 0) + 1
                    if cname == "Restart" and (enc[1] ^ raw[1]) & 0x21:
                        # the Restart docstring reserves only bits 4..1; bit 5 (response) and bit 0 (type) are
                        # normalised away by the tolerant dispatcher as well: recorded, not judged (DESIGN 3.7)
                        self.restart_flag_bits += 1
        elif cname not in M.MASKS:
            self.unknown_classes.add(cname)
        try:
            calc = obj.calculated_length()
        except Exception as exc:  # noqa: BLE001
            ctx.violation(
                f"{cname}-calculated-length-raises-{type(exc).__name__}", wit,
                f"{cname}.calculated_length() raised {exc!r} for an object that encodes to {len(enc)} octets",
            )
        else:
            if calc != len(enc) - 1:
                wit["calculated_length"] = calc
                ctx.violation(
                    f"{cname}-calculated-length-wrong", wit,
                    f"{cname}.calculated_length() = {calc} but the encoding has {len(enc)} octets (expected {len(enc) - 1})",
                )
        try:
            back = APCI.from_knx(enc)
        except Exception as exc:  # noqa: BLE001
            ctx.violation(
                f"{cname}-reencoded-pdu-not-decodable", wit,
                f"{cname}: re-encoded PDU {enc[:20].hex()} does not decode: {exc!r:.150}",
            )
        else:
            if not same(back, obj):
                wit["redecoded"] = str(back)[:300]
                ctx.violation(
                    f"{cname}-reencoded-pdu-decodes-to-different-object", wit,
                    f"{cname}: {raw[:20].hex()} decodes to {obj!s:.120}; its re-encoding decodes to {back!s:.120}",
                )
        self.fps.add((cname, "roundtrip", min(ln, 24)))
        return True

    def flush(self):
        ctx = self.ctx
        ctx.ev(self.n)
        ctx.count("accepted_and_reencoded", self.n - sum(self.refused.values()))
        ctx.count("encoder_refused_decoded_object", sum(self.refused.values()))
        ctx.count("differs_only_in_reserved_bits", sum(self.masked_only.values()))
        ctx.count("tolerant_code_bits_normalised", sum(self.tolerant.values()))
        ctx.count("restart_response_or_type_bit_normalised(recorded)", self.restart_flag_bits)
        for cname, n in self.accepted.items():
            ctx.count(f"accepted:{cname}", n)
        ctx.extra["accepted_per_class"] = dict(sorted(self.accepted.items()))
        ctx.extra["refused_per_class"] = dict(sorted(self.refused.items()))
        ctx.extra["reserved_bit_differences_per_class"] = dict(sorted(self.masked_only.items()))
        ctx.extra["tolerant_code_bits_normalised_per_class"] = dict(sorted(self.tolerant.items()))
        ctx.extra["refusal_exception_types"] = sorted(self.refusal_types)
        for fp in sorted(self.fps):
            ctx.distinct(fp)
        for cname in sorted(self.unknown_classes):
            ctx.inconclusive(f"service class {cname} has no entry in the reserved-bit mask table")


def run(ctx):
    ctx.rule = (
        "domain = inputs of vlib.apci_gen.input_space accepted by APCI.from_knx; per input: to_knx (refusal allowed), length, "
        "bits under mask, calculated_length, re-decode equality; distinct = (service class, roundtrip|refused, length bucket)"
    )
    live = live_service_classes()
    for name in sorted(live):
        if name in G.STUB_CLASSES:
            continue
        if name not in M.MASKS:
            ctx.inconclusive(f"service class {name} has no entry in the reserved-bit mask table")
        # a constructible class with zero accepted inputs would make "held" meaningless for it
        ctx.require(f"accepted:{name}")
    for name in sorted(set(M.MASKS) - set(live)):
        ctx.inconclusive(f"mask table names a service class the library does not define: {name}")
    ctx.require("accepted_and_reencoded", "differs_only_in_reserved_bits")
    ctx.count("service_classes", len(live) - len(G.STUB_CLASSES))

    judge = Judge(ctx)
    offered = 0
    for _tag, raw in G.input_space(ctx.rng, ctx.quick, ctx.shard, ctx.nshards):
        offered += 1
        judge.one(raw)
    ctx.count("inputs_offered", offered)
    judge.flush()
    ctx.extra["masks"] = "vlib/apci_masks.py (octet 0: 0x03; per-class reserved fields as listed in its docstring)"
    ctx.sample({"apdu": "03d100 11223344", "class": "AuthorizeRequest", "masked": "octet 2 reserved"})
    ctx.sample({"apdu": "01c800000 0b701", "class": "SystemNetworkParameterRead", "masked": "low nibble of octet 5"})
    ctx.sample({"apdu": "fc00", "class": "GroupValueRead", "masked": "TPCI bits of octet 0"})
    ctx.sample({"apdu": "03e5 07 f1", "class": "LinkRead", "masked": "high nibble of octet 3"})


def replay(ctx, witness):
    ctx.rule = "replay of one recorded APDU"
    raw = bytes.fromhex(witness["apdu"])
    judge = Judge(ctx)
    judge.one(raw)
    judge.flush()
    ctx.distinct(("replay", raw.hex()))
    ctx.distinct(("replay-class", witness.get("class")))
