"""C41 ExposeSensor: cooldown spacing, latest value on the bus, read answers, skip_unchanged.

The real ExposeSensor runs on the virtual loop with the real telegram queue and
task registry; the fake interface confirms at once, so `last_payload` follows the
bus.  Generated histories of set(v, skip_unchanged) / initialize_value /
incoming reads / (in some histories) foreign writes, over cooldown and
periodic-send configurations, connection kept up.

"On the bus" = payload of the last value telegram (write *or* response) handed
to the interface for the address.  Writes are attributed to their cause by
wrapping `ExposeSensor._periodic_send_impl` at class level (restored afterwards).
"""

from __future__ import annotations

import asyncio
import contextlib
import random

from vlib.dev_harness import DevHarness, payload_repr

LEVEL = "exploration"
TECHNIQUE = "runtime monitor: interface-level write/response log on the virtual clock checked against spacing, deadline, read-answer and skip rules"
LEVEL_TEXT = (
    "Generated update/read/initialize histories (quick 450, thorough 16 x 6000; 4..22 events) with gaps drawn around the cooldown "
    "(0, 2^-6, 1/4, 1/2, cooldown-2^-6, cooldown, cooldown+2^-6, beyond, random) for cooldown in {0,.25,.5,1,2,4} x periodic_send in {0,.75,1.5,3,7} "
    "x value types x respond_to_read; 35% of the histories run against a slow interface (send_cemi / L_Data.con take 0..2.5 virtual s) so that reads meet "
    "writes that are still queued or in flight. Exploration: histories are sampled."
)
LEVEL_NOTE = (
    "Trusted: virtual loop, fake interface (confirming at once, so last_payload follows the bus; in the slow histories only the read rule - judged where "
    "the answer is QUEUED, against the last value passed to set()/initialize_value before the read was processed - is judged; the final "
    "latest-on-bus state is recorded only), connection always up, no rate limit. "
    "Judged: (1) GroupValueWrite telegrams not attributed to a periodic send are >= cooldown apart (1e-9 s slack); (2) at last_update + cooldown "
    "(+2^-20 s slack) the last value telegram on the bus carries the latest set payload; initialize_value counts as 'as if sent' (its docstring); "
    "(3) every read (respond_to_read=True, a value was set/initialised) is answered in the same instant and every answer carries the latest set payload; "
    "(4) skip_unchanged: a call whose payload differs from the previously set payload is an update and falls under (2). "
    "A set(skip_unchanged=True) with the same payload may or may not be sent. Recorded only: periodic writes, reads with respond_to_read=False, reads before "
    "any value, reads and the final probe in histories containing foreign telegrams on the exposed address. In those histories (40% of the fast ones with a cooldown get "
    "foreign GroupValueWrite / GroupValueResponse telegrams, same and different values, placed inside running cooldowns) rule (2) reads: the latest set payload "
    "was the value last on the bus - own or foreign telegram - at some moment between the update and its deadline."
)
SHARDS = {"quick": 1, "thorough": 16}
TIMEOUT = {"quick": 120, "thorough": 1500}

G = 2.0**-6
SLACK = 2.0**-20
GA = "4/0/1"

POOLS = {
    "temperature": [21.0, 21.001, 19.5, 22.34, -3.0, 0.0],
    "percent": [50, 50.1, 0, 100, 33, 75],
    "binary": [True, False],
    "pulse": [0, 1, 2, 255],
    "2byte_unsigned": [0, 1, 500, 65535],
    "string": ["", "a", "hello", "xknx verif"],
}


@contextlib.contextmanager
def watch_periodic(log: list):
    from xknx.devices import ExposeSensor

    orig = ExposeSensor._periodic_send_impl

    async def wrapped(self) -> None:
        log.append((asyncio.get_running_loop().time(), payload_repr(self._payload_after_cooldown)))
        await orig(self)

    ExposeSensor._periodic_send_impl = wrapped
    try:
        yield
    finally:
        ExposeSensor._periodic_send_impl = orig


def gen(rng: random.Random, index: int) -> dict:
    vt = rng.choice(list(POOLS))
    cooldown = rng.choice((0, 0.25, 0.5, 1.0, 1.0, 2.0, 2.0, 4.0))
    periodic = rng.choice((0, 0, 0, 0.75, 1.5, 3.0, 7.0))
    cd = cooldown or 1.0
    foreign = rng.random() < 0.15
    pool = POOLS[vt]
    n = rng.randint(4, 22)
    events = []
    t = 0.0
    for _ in range(n):
        c = rng.random()
        if c < 0.15:
            gap = 0.0
        elif c < 0.25:
            gap = G
        elif c < 0.4:
            gap = cd / 4
        elif c < 0.5:
            gap = cd / 2
        elif c < 0.6:
            gap = cd - G
        elif c < 0.68:
            gap = cd
        elif c < 0.78:
            gap = cd + G
        elif c < 0.86:
            gap = 2 * cd + G
        else:
            gap = int(rng.uniform(0, 3 * cd) / G) * G
        t += gap
        k = rng.random()
        if k < 0.6:
            ev = {"t": t, "op": "set", "value": rng.choice(pool), "skip": rng.random() < 0.4}
        elif k < 0.82:
            ev = {"t": t, "op": "read"}
        elif k < 0.92:
            ev = {"t": t, "op": "init", "value": rng.choice(pool) if rng.random() < 0.9 else None}
        elif foreign:
            ev = {"t": t, "op": "foreign", "value": rng.choice(pool)}
        else:
            ev = {"t": t, "op": "set", "value": rng.choice(pool), "skip": True}
        events.append(ev)
    spec = {"index": index, "value_type": vt, "cooldown": cooldown, "periodic": periodic,
            "respond_to_read": rng.random() < 0.85, "events": events, "tail": 3 * cd + (periodic or 0) + 1}
    if rng.random() < 0.35:
        # slow interface: send_cemi / L_Data.con take up to 2.5 s, so reads meet writes that are still queued or in flight
        spec["slow"] = {"seed": rng.randint(0, 10**6)}
        spec["periodic"] = rng.choice((0, 0, 3.0, 7.0))
        spec["respond_to_read"] = True
        spec["events"] = [e for e in events if e["op"] != "foreign"]
        spec["tail"] = spec["tail"] + 10
    if "slow" not in spec and cooldown > 0 and rng.random() < 0.4:
        # another device writes / responds on the exposed address while a cooldown runs (same and different values)
        sets = [e for e in events if e["op"] == "set"]
        extra = []
        for _ in range(rng.randint(1, 3)):
            if not sets:
                break
            base_ev = rng.choice(sets)
            at = base_ev["t"] + rng.choice((G / 2, cd / 4 + G / 2, cd / 2 + G / 2, cd - G / 2))
            value = base_ev["value"] if rng.random() < 0.3 else rng.choice(pool)
            extra.append({"t": at, "op": "foreign", "value": value, "as": rng.choice(("write", "write", "response"))})
            if rng.random() < 0.6:
                # ... and the value set before is set again inside the same cooldown
                extra.append({"t": at + rng.choice((G / 2 + G / 4, cd / 8)), "op": "set", "value": base_ev["value"], "skip": rng.random() < 0.3})
        events = sorted(events + extra, key=lambda e: e["t"])
        spec["events"] = events
    if "slow" in spec:
        pass
    elif cooldown > 0 and rng.random() < 0.45:
        # connection flaps through the real ConnectionManager while a cooldown runs (instants off the 2^-6 grid)
        sets = [e["t"] for e in events if e["op"] == "set"] or [0.0]
        flaps = []
        for _ in range(rng.randint(1, 3)):
            a = rng.choice(sets) + rng.choice((G / 2, cd / 4 + G / 2, cd / 2 + G / 2, cd - G / 2))
            b = a + rng.choice((G, cd / 4, cd / 2, cd, 2 * cd))
            flaps.append([a, b])
        flaps.sort()
        merged = []
        for a, b in flaps:  # disjoint intervals
            if merged and a <= merged[-1][1] + G:
                merged[-1][1] = max(merged[-1][1], b)
            else:
                merged.append([a, b])
        spec["flaps"] = merged
        conn = []
        for a, b in merged:
            conn.append({"t": a, "op": "conn", "state": "DISCONNECTED"})
            if rng.random() < 0.4:
                conn.append({"t": (a + b) / 2 if b - a > G else a, "op": "conn", "state": "CONNECTING"})
            conn.append({"t": b, "op": "conn", "state": "CONNECTED"})
        spec["events"] = sorted(events + conn, key=lambda e: e["t"])
        spec["tail"] = spec["tail"] + 2 * cd
    return spec


def run_case(ctx, spec: dict) -> str | None:
    from xknx.devices import ExposeSensor
    from xknx.telegram import GroupAddress

    cooldown = spec["cooldown"]
    events = spec["events"]
    tainted_from = min((e["t"] for e in events if e["op"] == "foreign"), default=None)
    found: list[str] = []
    trace: list = []
    periodic_log: list = []
    h = DevHarness()
    ga = GroupAddress(GA)

    def viol(mech: str, msg: str, extra: dict | None = None) -> None:
        w = {"spec": spec, "trace": trace[-16:], "wire": [s.as_tuple() for s in h.iface.sent][-16:], "periodic": periodic_log[-6:]}
        if extra:
            w.update(extra)
        ctx.violation(mech, w, msg)
        found.append(mech)

    async def scenario() -> None:
        await h.start()
        t0 = h.now()
        dev = ExposeSensor(h.xknx, "es", group_address=GA, value_type=spec["value_type"], cooldown=cooldown,
                           periodic_send=spec["periodic"], respond_to_read=spec["respond_to_read"])
        h.xknx.devices.async_add(dev)
        dev.async_start_tasks()  # what XKNX.start() does for devices added before start
        latest = None  # payload_repr of the latest set / initialised value
        bus = None  # payload_repr of the last value telegram seen on the address
        # timeline: events (order 0) and deadline probes (order 1)
        points: list[tuple[float, int, int, dict | None]] = []
        for i, e in enumerate(events):
            points.append((e["t"], 0, i, e))
        pending_deadlines: list[tuple[float, int]] = []
        points.sort(key=lambda p: (p[0], p[1], p[2]))
        last_update_index = -1
        idx = 0
        wire_seen = 0
        bus_log: list = []  # (offset, payload) of every value telegram on the address, own or foreign

        def absorb_wire() -> list:
            nonlocal wire_seen, bus
            new = h.iface.sent[wire_seen:]
            wire_seen = len(h.iface.sent)
            for s in new:
                if s.dst == ga and s.kind in ("write", "response"):
                    bus = payload_repr(s.value)
                    bus_log.append((s.time - t0, bus))
            return new

        def tainted(t: float) -> bool:
            return tainted_from is not None and t >= tainted_from

        def on_bus_between(payload, t_from: float, t_to: float) -> bool:
            """Was `payload` the value last on the bus at some moment of [t_from, t_to]? (own telegrams, foreign telegrams
            on the address and initialize_value's 'as if sent' all count; the value already there at t_from counts)"""
            current = None
            for bt, bp in bus_log:
                if bt < t_from:
                    current = bp
                elif bt <= t_to + 2 * SLACK and bp == payload:
                    return True
            return current == payload

        async def run_deadlines(until: float) -> bool:
            """Probe all update deadlines that are due before `until` (exclusive) or at it when final."""
            while pending_deadlines and pending_deadlines[0][0] < until:
                d, ui = pending_deadlines.pop(0)
                await h.sleep_until(t0 + d + SLACK)
                await h.settle()
                absorb_wire()
                if ui != last_update_index:
                    continue  # superseded by a later update
                ctx.ev()
                ctx.count("deadline_probes")
                trace.append(("deadline", d, latest, bus))
                if tainted_from is not None:
                    # other devices write to the address too: what the statement still says is that the latest set value was the
                    # value last on the bus at some moment between the update and its deadline (sent, or already / also there)
                    ctx.count("deadline_probes_with_foreign_telegrams")
                    ok = on_bus_between(latest, events[ui]["t"], d)
                    if ok and bus != latest:
                        ctx.count("deadline_met_but_foreign_value_on_bus_afterwards")
                else:
                    ok = bus == latest
                if not ok:
                    viol("latest-value-not-on-bus-one-cooldown-after-last-update",
                         f"update at +{events[ui]['t']} set payload {latest}; at +{d} (cooldown {cooldown}) the bus still carries {bus}",
                         {"update": events[ui], "deadline": d})
                    return False
            return True

        for t, _o, i, e in points:
            if not await run_deadlines(t):
                return
            await h.sleep_until(t0 + t)
            absorb_wire()
            before = len(h.iface.sent)
            op = e["op"]
            ctx.count("op_" + op)
            trace.append((op, t, e.get("value"), e.get("skip")))
            if op == "set":
                try:
                    payload = payload_repr(dev.sensor_value.to_knx(e["value"]))
                    await dev.set(e["value"], skip_unchanged=e["skip"])
                except Exception as exc:  # noqa: BLE001
                    viol(f"set-raises-{type(exc).__name__}", f"set({e['value']!r}) raised {exc!r}", {"exception": repr(exc)})
                    return
                if e["skip"] and payload == latest:
                    ctx.count("set_skippable_same_payload")
                else:
                    if e["skip"]:
                        ctx.count("set_skip_flag_but_payload_differs")
                    if payload == latest:
                        ctx.count("set_same_payload_no_skip")
                    latest = payload
                    last_update_index = i
                    d = t + cooldown
                    for a, b in spec.get("flaps", ()):
                        # after a connection loss the statement only promises: CONNECTED again and one cooldown has passed
                        if a <= d and b >= t:
                            d = max(d, b + cooldown)
                            ctx.count("deadline_extended_by_connection_flap")
                    pending_deadlines.append((d, i))
                    pending_deadlines.sort()
                await h.settle()
                absorb_wire()
            elif op == "init":
                try:
                    dev.initialize_value(e["value"])
                except Exception as exc:  # noqa: BLE001
                    viol(f"initialize_value-raises-{type(exc).__name__}", f"initialize_value({e['value']!r}) raised {exc!r}", {"exception": repr(exc)})
                    return
                latest = None if e["value"] is None else payload_repr(dev.sensor_value.to_knx(e["value"]))
                if latest is not None:
                    bus = latest  # "treated as if it had been sent"
                    bus_log.append((t, bus))
                last_update_index = i
                await h.settle()
                absorb_wire()
            elif op == "foreign":
                absorb_wire()
                if dev._cooldown_task is not None and not dev._cooldown_task.done():
                    ctx.count("foreign_telegram_while_cooldown_runs")
                fp = dev.sensor_value.to_knx(e["value"])
                ctx.count("foreign_same_as_latest" if payload_repr(fp) == latest else "foreign_differs_from_latest")
                (h.incoming_response if e.get("as") == "response" else h.incoming_write)(GA, fp)
                await h.settle()
                bus = payload_repr(fp)
                bus_log.append((t, bus))
                absorb_wire()
            elif op == "conn":
                from xknx.core import XknxConnectionState
                from xknx.core.connection_state import XknxConnectionType

                state = XknxConnectionState[e["state"]]
                if state is not XknxConnectionState.CONNECTED and dev._cooldown_task is not None and not dev._cooldown_task.done():
                    ctx.count("connection_lost_while_cooldown_runs")
                h.xknx.connection_manager.connection_state_changed(
                    state, XknxConnectionType.TUNNEL_TCP if state is XknxConnectionState.CONNECTED else XknxConnectionType.NOT_CONNECTED)
                await h.settle()
                absorb_wire()
            elif op == "read":
                h.incoming_read(GA)
                await h.settle()
                new = absorb_wire()
                answers = [s for s in new if s.dst == ga and s.kind == "response" and s.seq >= before]
                ctx.ev()
                if spec.get("flaps"):
                    ctx.count("read_recorded_only_connection_flaps")
                elif not spec["respond_to_read"]:
                    ctx.count("read_not_judged_respond_to_read_false")
                elif latest is None:
                    ctx.count("read_not_judged_no_value_yet")
                elif tainted(t):
                    ctx.count("read_recorded_only_foreign_write")
                else:
                    ctx.count("reads_judged")
                    if not answers:
                        viol("read-not-answered", f"read at +{t} got no GroupValueResponse although {latest} was set", {"at": t})
                        return
                    wrong = [payload_repr(s.value) for s in answers if payload_repr(s.value) != latest]
                    if wrong:
                        viol("read-answered-with-stale-value", f"read at +{t} answered with {wrong[0]} but the most recently set payload is {latest}", {"at": t})
                        return
            idx += 1
        if not await run_deadlines(float("inf")):
            return
        await h.sleep_until(h.now() + spec["tail"])
        await h.settle()
        absorb_wire()
        # final: the latest value is on the bus (covers a skipped update at the very end as well)
        if latest is not None and tainted_from is None:
            ctx.ev()
            ctx.count("final_probes")
            if bus != latest:
                viol("latest-value-never-reaches-bus", f"after a quiet period of {spec['tail']} s the bus carries {bus}, latest set payload is {latest}")
                return
        # (1) spacing of update-caused writes
        writes = [s for s in h.iface.sent if s.dst == ga and s.kind == "write"]
        per = list(periodic_log)
        caused_by_update = []
        for s in writes:
            key = (s.time, payload_repr(s.value))
            if key in per:
                per.remove(key)
                ctx.count("writes_periodic")
            else:
                caused_by_update.append(s)
                ctx.count("writes_update_caused")
        ctx.count("responses", sum(1 for s in h.iface.sent if s.kind == "response"))
        if cooldown > 0:
            for a, b in zip(caused_by_update, caused_by_update[1:]):
                ctx.ev()
                ctx.count("spacing_checks")
                if b.time - a.time < cooldown - 1e-9:
                    viol("update-writes-closer-than-cooldown",
                         f"update-caused writes at +{a.time - t0} and +{b.time - t0} are {b.time - a.time} s apart, cooldown {cooldown}",
                         {"first": a.as_tuple(), "second": b.as_tuple()})
                    return
                if b.time - a.time < cooldown + G:
                    ctx.count("spacing_at_the_limit")
        # sanitizer diagnostics: the statement says nothing about exceptions, so these are recorded, never judged
        for ex in h.swallowed_exceptions():
            ctx.count(f"diagnostic_swallowed_{ex['exc_type']}")
            diag = ctx.extra.setdefault("diagnostics", [])
            if len(diag) < 3:
                diag.append({"log": ex, "spec_index": spec["index"], "trace": [list(map(str, t)) for t in trace[-8:]]})
        for ex in h.loop.exceptions:
            ctx.count(f"diagnostic_loop_exception_{ex['type']}")

    async def slow_scenario() -> None:
        """Reads against writes that are still queued / in flight: only the read rule and the final state are judged."""
        from xknx.telegram import TelegramDirection
        from xknx.telegram.apci import GroupValueResponse

        drng = random.Random(spec["slow"]["seed"])

        def delays() -> tuple[float, float]:
            d = drng.choice((0.0, 0.0, G, 0.25, 1.0, 2.5))
            return (d, 0.0) if drng.random() < 0.5 else (0.0, d)

        h.iface.delay_fn = delays
        await h.start()
        t0 = h.now()
        dev = ExposeSensor(h.xknx, "es", group_address=GA, value_type=spec["value_type"], cooldown=cooldown,
                           periodic_send=spec["periodic"], respond_to_read=True)
        h.xknx.devices.async_add(dev)
        dev.async_start_tasks()
        latest = None
        latest_from_set = False
        for e in events:
            await h.sleep_until(t0 + e["t"])
            op = e["op"]
            ctx.count("slow_op_" + op)
            t = e["t"]
            trace.append((op, t, e.get("value"), e.get("skip")))
            if op == "set":
                payload = payload_repr(dev.sensor_value.to_knx(e["value"]))
                await dev.set(e["value"], skip_unchanged=e["skip"])
                if not (e["skip"] and payload == latest):
                    latest, latest_from_set = payload, True
                await h.soft_settle()
            elif op == "init":
                dev.initialize_value(e["value"])
                latest = None if e["value"] is None else payload_repr(dev.sensor_value.to_knx(e["value"]))
                latest_from_set = False
                await h.soft_settle()
            elif op == "read":
                in_flight = h.xknx.telegrams.qsize() + h.xknx.telegram_queue.outgoing_queue.qsize()
                unconfirmed = len(h.queue_log.log) - sum(1 for _t, tg in h.queue_log.log if tg.direction is TelegramDirection.INCOMING)
                before = len(h.queue_log.log)
                h.incoming_read(GA)
                await h.soft_settle()
                answers = [tg for _t, tg in h.queue_log.log[before:]
                           if tg.direction is TelegramDirection.OUTGOING and isinstance(tg.payload, GroupValueResponse)
                           and tg.destination_address == ga]
                ctx.ev()
                if latest is None:
                    ctx.count("read_not_judged_no_value_yet")
                    continue
                ctx.count("reads_judged")
                ctx.count("slow_reads_judged")
                if in_flight or unconfirmed > len(h.iface.sent) or not h.xknx.cemi_handler._l_data_confirmation_event.is_set():
                    ctx.count("slow_reads_while_a_telegram_is_queued_or_in_flight")
                kind_cd = "without-cooldown" if not cooldown else "with-cooldown"
                if not answers:
                    viol(f"read-not-answered-while-write-pending-{kind_cd}",
                         f"read at +{t} got no GroupValueResponse although {latest} was set (interface slow)", {"at": t})
                    return
                wrong = [payload_repr(tg.payload.value) for tg in answers if payload_repr(tg.payload.value) != latest]
                if wrong:
                    viol(f"read-answered-with-stale-value-while-write-pending-{kind_cd}",
                         f"read at +{t} answered with {wrong[0]} but the most recently set payload is {latest} (interface slow)", {"at": t})
                    return
        await h.xknx.telegrams.join()
        await h.sleep_until(h.now() + spec["tail"])
        await h.xknx.telegrams.join()
        await h.settle()
        if latest is not None and latest_from_set:
            ctx.ev()
            ctx.count("final_probes")
            ctx.count("slow_final_probes")
            last = [s for s in h.iface.sent if s.dst == ga and s.kind in ("write", "response")]
            bus = payload_repr(last[-1].value) if last else None
            if bus != latest:
                # Recorded, not judged: with telegrams in flight longer than the cooldown, _cooldown_send compares the pending payload
                # with the last PROCESSED one and may stand down although older queued telegrams still reach the bus afterwards.
                # The statement's timing rule speaks of the value last on the bus, which a slow interface makes ambiguous.
                ctx.count("slow_final_latest_not_on_bus_recorded_only")
                diag = ctx.extra.setdefault("slow_final_examples", [])
                if len(diag) < 2:
                    diag.append({"spec_index": spec["index"], "bus": bus, "latest": latest})
        for ex in h.swallowed_exceptions():
            ctx.count(f"diagnostic_swallowed_{ex['exc_type']}")

    try:
        with watch_periodic(periodic_log):
            h.run(slow_scenario() if spec.get("slow") else scenario(), max_vtime=1e4)
    finally:
        h.close()
    if not found:
        ctx.distinct((spec["cooldown"], spec["periodic"], spec["value_type"],
                      "".join(e["op"][0] + ("k" if e.get("skip") else "") for e in events),
                      tuple(round((b["t"] - a["t"]) / (cooldown or 1), 2) for a, b in zip(events, events[1:]))))
    return found[0] if found else None


def run(ctx):
    ctx.rule = (
        "history = 4..22 events from {set(v, skip_unchanged) 60%, read 22%, initialize_value 10%, foreign write (15% of histories)} over a pool of "
        "4-6 values per value type (including different values with equal payloads); gaps around the cooldown; distinct = (cooldown, periodic, type, "
        "event-kind string, gap ratios)."
    )
    ctx.require("deadline_probes", "reads_judged", "spacing_checks", "spacing_at_the_limit", "writes_periodic", "writes_update_caused",
                "set_skippable_same_payload", "set_skip_flag_but_payload_differs", "op_init", "final_probes", "slow_reads_judged",
                "slow_reads_while_a_telegram_is_queued_or_in_flight", "slow_final_probes", "connection_lost_while_cooldown_runs",
                "deadline_extended_by_connection_flap", "deadline_probes_with_foreign_telegrams", "foreign_telegram_while_cooldown_runs",
                "foreign_differs_from_latest", "foreign_same_as_latest")
    n = ctx.scale(600, 6000 * 16)
    for i in range(n):
        if not ctx.mine(i):
            continue
        rng = random.Random(f"C41/{ctx.seed}/{i}")
        spec = gen(rng, i)
        run_case(ctx, spec)
        ctx.count("histories")
        if i < 4:
            ctx.sample(spec)


def replay(ctx, witness):
    ctx.rule = "replay of one recorded history"
    run_case(ctx, witness["spec"])
    ctx.distinct("replay")
    ctx.distinct("replay2")
