"""C29 secure session: only fresh, correctly wrapped frames are passed on; nothing plain is sent but the SessionRequest."""

from __future__ import annotations

import asyncio
import contextlib
import functools
import random

from vlib import refcrypto_ip as ref
from vlib.peers_secure import (
    STATUS_AUTHENTICATION_FAILED,
    STATUS_AUTHENTICATION_SUCCESS,
    STATUS_CLOSE,
    STATUS_KEEPALIVE,
    STATUS_TIMEOUT,
    STATUS_UNAUTHENTICATED,
    SecureServer,
    random_plain_frame,
)
from vlib.vloop import Deadlock, LoopBudget, new_loop
from xknx import XKNX
from xknx.cemi import CEMIFrame, CEMILData, CEMIMessageCode
from xknx.dpt import DPTArray
from xknx.io import ip_secure
from xknx.io.ip_secure import SecureSession
from xknx.io.tunnel import SecureTunnel
from xknx.knxip import KNXIPFrame, TunnellingRequest
from xknx.telegram import GroupAddress, IndividualAddress, Telegram
from xknx.telegram.apci import GroupValueWrite

LEVEL = "exploration"
TECHNIQUE = (
    "runtime monitor: the real SecureSession / SecureTunnel run on the virtual loop against a scripted secure server built on an "
    "independent CCM; a reference model of the statement (last accepted sequence number, authenticity by the reference, "
    "handshake phase seen on the wire) decides for every delivered frame whether it may reach the callbacks; every byte string "
    "written by the client is classified by the reference (plain / authentic wrapper / sequence number)"
)
LEVEL_TEXT = (
    "Generated receive histories around the handshake (genuine, gap, replayed, stale, equal-number, forged with wrong key / flipped MAC / "
    "flipped ciphertext / wrong session id far ahead of the counter, plain frames of several services, nested wrappers, wrapped remote "
    "diagnosis/configuration services, wrappers before the handshake, session close) interleaved with client sends, and complete SecureTunnel "
    "lives (connect, requests, heartbeats at 70 s, keep-alives after 50 s idle, server-side close + reconnect, disconnect) for hundreds of "
    "virtual seconds; in a share of both, the outgoing counter is moved to 2^48 - k (k = 0..5) after authentication so that requests, heartbeats, keep-alives and the close "
    "status run into the end of the 48 bit sequence field (refusing to send is fine, a repeated or lower number on the wire is a violation). Histories are sampled, hence exploration."
)
LEVEL_NOTE = (
    "Trusted: vlib/refcrypto_ip.py (self-tested against the recorded AN159 vectors at start; failure => inconclusive), the virtual loop. "
    "Judged: a frame reaches a callback only if the reference verifies it under the session key and id, its number is above every accepted "
    "one, its inner service is neither a wrapper nor remote diagnosis/configuration, or it is the plain SessionResponse before the client "
    "wrote its SessionAuthenticate; a genuine frame numbered below a rejected one is still accepted; the first frame written per TCP "
    "connection is the plain SessionRequest and everything else is a wrapper the reference verifies with strictly increasing numbers. "
    "After authentication, genuine fresh wrapped SessionStatus frames of every status code (0..5 and unknown) are followed, in the same TCP segment and later, by plain frames "
    "including SessionResponse: none may reach a callback. A registered consumer callback that raises on some frames is part of the histories: its exception is recorded, the freshness rule is judged unchanged (a replay of the frame it failed on must not be passed on). "
    "Recorded, not judged: exceptions raised into the transport by a wrapper that arrives before the handshake (the statement is about "
    "what is passed on), contiguity 0,1,2.. of outgoing numbers, a genuine fresh frame dropped without a preceding rejected frame."
)
SHARDS = {"quick": 1, "thorough": 16}
TIMEOUT = {"quick": 200, "thorough": 1500}

SVC_WRAPPER = 0x0950
SVC_SESSION_REQUEST = 0x0951
SVC_SESSION_RESPONSE = 0x0952
FORBIDDEN_INNER = (0x0950, 0x0740, 0x0741, 0x0742, 0x0743)
ACCEPTABLE_INNER = (
    "TunnellingRequest", "ConnectionStateResponse", "DisconnectResponse", "DescriptionResponse", "TunnellingAck",
    "ConnectResponse", "TunnellingFeatureResponse", "TunnellingFeatureInfo", "DeviceConfigurationRequest", "DeviceConfigurationAck",
)
PLAIN_JUNK = (
    "TunnellingRequest", "ConnectionStateResponse", "ConnectResponse", "SessionStatus", "DisconnectRequest", "SessionAuthenticate",
    "SessionRequest", "TimerNotify", "RoutingIndication", "DescriptionResponse", "SearchResponse",
)

PRE_KINDS = ("plain", "wrapper-early", "plain", "idle")
AUTH_KINDS = ("plain", "forged-key", "forged-mac", "plain-session-response", "wrong-session", "idle", "nested", "genuine")
MAIN_KINDS = (
    "genuine", "genuine", "genuine", "gap", "late", "replay", "equal", "forged-key", "forged-mac", "forged-ct", "wrong-session",
    "wrong-session-field", "plain", "plain-session-response", "nested", "forbidden", "unsupported", "client-send", "client-send", "pair", "idle", "keepalive",
    "raise-then-replay", "raise-then-replay", "status-then-plain", "status-then-plain",
)


KEYRNG = [random.Random(0)]


@contextlib.contextmanager
def harness_patches():
    """Memoise the (pure) PBKDF2 derivations and make key pairs reproducible (KEYRNG is set per history)."""
    saved = (ip_secure.derive_user_password, ip_secure.derive_device_authentication_password, ip_secure.generate_ecdh_key_pair)
    ip_secure.derive_user_password = functools.cache(saved[0])
    ip_secure.derive_device_authentication_password = functools.cache(saved[1])

    def keypair():
        priv = ref.x25519_private(KEYRNG[0].randbytes(32))
        return priv, ref.x25519_public_bytes(priv)

    ip_secure.generate_ecdh_key_pair = keypair
    try:
        yield
    finally:
        ip_secure.derive_user_password, ip_secure.derive_device_authentication_password, ip_secure.generate_ecdh_key_pair = saved


# --------------------------------------------------------------------------
# spec generation (pure data: replayable)
# --------------------------------------------------------------------------
CREDENTIALS = (("secret", "trustme", 2), ("pw-A!", "dev-B?", 1), ("x", None, 0x7F))


def gen_spec(rng, index):
    cred = rng.randrange(len(CREDENTIALS))
    spec = {
        "driver": "session",
        "seed": rng.randrange(1 << 30),
        "cred": cred,
        "session_id": rng.choice((1, 2, 0x1234, 0xFFFF)),
        "response": rng.choices(("genuine", "forged-mac", "none"), (12, 1, 1))[0],
        "auth": rng.choices(("success", "failed", "none"), (12, 1, 1))[0],
        "pre": [rng.choice(PRE_KINDS) for _ in range(rng.choice((0, 0, 1, 2)))],
        "during_auth": [rng.choice(AUTH_KINDS) for _ in range(rng.choice((0, 0, 1, 3)))],
        "main": [rng.choice(MAIN_KINDS) for _ in range(rng.randrange(4, 28))],
        "end": rng.choice(("stop", "stop", "close", "timeout", "unauthenticated", "lose")),
        "sends_before_connect": rng.random() < 0.3,
        # outgoing counter moved to 2^48 - k after authentication (the end of the 48 bit sequence field)
        "tx_counter_from_end": rng.choice((None, None, None, None, None, 0, 1, 2, 3, 4, 5)),
    }
    if spec["tx_counter_from_end"] is not None:
        spec["main"] = [rng.choice(("client-send", "client-send", "client-send", "genuine", "idle", "keepalive")) for _ in range(rng.randrange(4, 12))]
    return spec


def gen_tunnel_spec(rng, index):
    return {
        "driver": "tunnel",
        "seed": rng.randrange(1 << 30),
        "cred": rng.randrange(len(CREDENTIALS)),
        "phases": [
            {
                "sends": rng.randrange(0, 5),
                "idle": rng.choice((0.5, 30, 49.9, 50, 51, 75, 130, 260)),
                "server_frames": rng.randrange(0, 4),
                "inject_plain": rng.random() < 0.5,
                "end": rng.choice(("continue", "server-close", "server-timeout", "lose", "continue")),
            }
            for _ in range(rng.randrange(1, 4))
        ],
        "tx_counter_from_end": rng.choice((None, None, None, 0, 1, 2, 3, 4, 5)),
    }


# --------------------------------------------------------------------------
# the reference model of the receive side
# --------------------------------------------------------------------------
class Model:
    def __init__(self, ctx, spec):
        self.ctx = ctx
        self.spec = spec
        self.last = -1  # highest accepted sequence number
        self.rejected_above = None  # (kind) of a rejected frame numbered above `last` since the last acceptance
        self.callbacks: list[bytes] = []
        self.kinds: list[str] = []
        self.trace: list[dict] = []

    def cb(self, frame, source, transport):
        try:
            self.callbacks.append(frame.to_knx())
        except Exception:  # noqa: BLE001 - the observer must not raise into the receive path
            self.callbacks.append(repr(frame).encode())


def tx_oracle(ctx, spec, records, what):
    """Everything written on one TCP connection, as classified by the reference."""
    prev = -1
    contiguous = True
    for i, rec in enumerate(records):
        ctx.ev()
        w = {"spec": spec, "connection": what, "index": i, "frame": rec.raw, "written": [r.as_dict() for r in records[:40]]}
        if rec.kind == "garbage":
            ctx.violation("unframed-bytes-written", w, f"{what}: write #{i} is not a KNXnet/IP frame")
            continue
        if rec.kind == "plain":
            if rec.service == SVC_SESSION_REQUEST and i == 0:
                ctx.count("tx_plain_session_request")
                continue
            if rec.service == SVC_SESSION_REQUEST:
                ctx.count("tx_second_session_request_on_connection")
                continue
            ctx.violation(f"plain-frame-sent-service-{rec.service:04x}", w, f"{what}: write #{i} is a plain frame of service 0x{rec.service:04x}")
            continue
        ctx.count("tx_wrappers")
        if i == 0:
            ctx.violation("first-frame-on-connection-is-not-session-request", w, f"{what}: the first frame written is a wrapper")
        if not rec.authentic:
            ctx.violation("outgoing-wrapper-not-authentic", w, f"{what}: write #{i} is a SecureWrapper the reference cannot verify under the session key and id")
            continue
        if rec.seq <= prev:
            ctx.violation("outgoing-sequence-number-not-increasing", dict(w, previous=prev, this=rec.seq), f"{what}: outgoing sequence number {rec.seq} after {prev}")
        if rec.seq != prev + 1:
            contiguous = False
        prev = rec.seq
        if rec.seq >= (1 << 48) - 6:
            ctx.count("tx_wrappers_in_last_6_numbers_of_48_bit_range")
        inner = ref.service_of(rec.inner)
        ctx.count(f"tx_inner_{inner:04x}")
    if not contiguous:
        ctx.count("tx_numbers_not_contiguous")


# --------------------------------------------------------------------------
# driver A: raw SecureSession, scripted receive history
# --------------------------------------------------------------------------
def run_session_history(ctx, spec):
    rng = random.Random(spec["seed"])
    KEYRNG[0] = random.Random(spec["seed"] ^ 0x5EED)
    user_pw, dev_pw, user_id = CREDENTIALS[spec["cred"]]
    loop = new_loop()
    srv = SecureServer(
        loop, server_private_raw=rng.randbytes(32), device_password=dev_pw, users={user_id: user_pw}, session_id=spec["session_id"],
        auto_handshake=False, auto_tunnel=False,
    )
    loop.on_connection = srv.attach
    model = Model(ctx, spec)
    state = {"accepted_raw": [], "skipped": [], "raised": []}

    def auth_written():
        return any(r.kind == "wrapper" for r in srv.received)

    def inner_frame(r=rng):
        name = r.choice(ACCEPTABLE_INNER)
        made = None
        while made is None:
            made = random_plain_frame(r, name)
        return made[1]

    def deliver(kind, frames):
        """frames: list of (raw, expect_inner_or_None, why). One data_received call."""
        before = len(model.callbacks)
        chunk = b"".join(f[0] for f in frames)
        exc = None
        try:
            srv.now(chunk, kind)
        except Exception as e:  # noqa: BLE001 - recorded; the statement is about what is passed on
            exc = e
            state["raised"].append(type(e).__name__)
            ctx.count("receive_path_raised_" + type(e).__name__)
        got = model.callbacks[before:]
        expected = [f[1] for f in frames if f[1] is not None]
        ctx.ev()
        model.kinds.append(kind + ("+" if got else "-"))
        entry = {"t": round(loop.time() - 1000, 4), "kind": kind, "frames": [f[0] for f in frames], "why": [f[2] for f in frames], "passed_on": got, "exception": repr(exc) if exc else None}
        model.trace.append(entry)
        return got, expected, entry

    def judge(kind, frames):
        """Deliver, then compare what reached the callbacks with the model."""
        got, expected, entry = deliver(kind, frames)
        w = {"spec": spec, "event": entry, "history": model.trace[-12:], "last_accepted": model.last}
        # safety: everything passed on must be one of the expected inner frames, in order
        it = iter(expected)
        surplus = [g for g in got if not any(g == e for e in it)]
        if surplus:
            reasons = [f[2] for f in frames if f[1] is None]
            reason = reasons[0] if reasons else "unexpected"
            ctx.violation(f"passed-on-although-{reason}", w, f"{kind}: a frame reached the callbacks although the model says it must not ({reason})")
            return got
        missing = len(expected) - len(got)
        for f in frames:
            ctx.count("event_" + ((f[2].rsplit("-", 2)[0] if f[2].startswith("plain-") and f[2].endswith("-handshake") else f[2]) or "expected-accept"))
        if expected and missing == 0 and model.rejected_above is not None and kind not in ("session-response", "session-response-again"):
            ctx.count("genuine_accepted_below_rejected_number")
            model.rejected_above = None
        if missing > 0:
            if kind == "session-response":
                ctx.violation("plain-session-response-before-authentication-dropped", w, "the plain SessionResponse before authentication did not reach the callbacks")
            elif model.rejected_above is not None:
                ctx.violation(f"rejected-frame-advanced-receive-counter-{model.rejected_above}", w, f"a genuine fresh frame was dropped after a rejected frame ({model.rejected_above}) carried a higher number")
            else:
                ctx.count("genuine_fresh_dropped_unexplained")
            model.rejected_above = None
        return got

    def wrapped_event(kind, r=rng):
        """-> (raw, expected inner or None, why-not)."""
        nonlocal_last = model.last
        ready = auth_written()
        status_inner = None
        if kind.startswith("status:"):
            code = int(kind[7:])
            if code > 5:
                # authentic, but a status code xknx has no enum member for: never passed on
                return srv.wrapped(ref.session_status(code), seq=srv.next_seq()), None, "unsupported-inner-service"
            status_inner = ref.session_status(code)
        if status_inner is not None or kind in ("genuine", "gap", "keepalive", "close", "timeout", "unauthenticated", "auth-success", "auth-failed"):
            if kind == "gap":
                state["skipped"].append(srv.next_seq())
            inner = {
                "keepalive": ref.session_status(STATUS_KEEPALIVE), "close": ref.session_status(STATUS_CLOSE), "timeout": ref.session_status(STATUS_TIMEOUT),
                "unauthenticated": ref.session_status(STATUS_UNAUTHENTICATED), "auth-success": ref.session_status(STATUS_AUTHENTICATION_SUCCESS),
                "auth-failed": ref.session_status(STATUS_AUTHENTICATION_FAILED),
            }.get(kind) or status_inner or inner_frame()
            seq = srv.next_seq()
            raw = srv.wrapped(inner, seq=seq, serial=r.choice((None, r.randbytes(6))), tag=r.choice((b"\x00\x00", r.randbytes(2))))
            if not ready:
                return raw, None, "wrapper-before-handshake"
            if seq <= nonlocal_last:
                return raw, None, "stale-sequence-number"
            model.last = seq
            state["accepted_raw"].append(raw)
            ctx.count("expected_accept")
            return raw, inner, ""
        if kind == "late":
            if not state["skipped"]:
                return wrapped_event("genuine")
            seq = state["skipped"].pop(0)
            return srv.wrapped(inner_frame(), seq=seq), None, "stale-sequence-number" if ready else "wrapper-before-handshake"
        if kind == "replay":
            if not state["accepted_raw"]:
                return wrapped_event("genuine")
            return r.choice(state["accepted_raw"]), None, "replayed"
        if kind == "equal":
            if model.last < 0:
                return wrapped_event("genuine")
            return srv.wrapped(inner_frame(), seq=model.last), None, "equal-sequence-number"
        ahead = srv.tx_seq + r.choice((0, 1, 5, 1000, 1 << 40))
        if kind == "forged-key":
            raw, why = srv.wrapped(inner_frame(), seq=ahead, key=r.randbytes(16)), "wrong-key"
        elif kind in ("forged-mac", "forged-ct"):
            good = bytearray(srv.wrapped(inner_frame(), seq=ahead))
            pos = len(good) - 1 - r.randrange(16) if kind == "forged-mac" else 22 + r.randrange(len(good) - 38)
            good[pos] ^= 1 << r.randrange(8)
            raw, why = bytes(good), "flipped-mac" if kind == "forged-mac" else "flipped-ciphertext"
        elif kind == "wrong-session":
            raw, why = srv.wrapped(inner_frame(), seq=ahead, session_id=spec["session_id"] ^ r.choice((1, 0x100, 0xFFFF))), "other-session-id"
        elif kind == "wrong-session-field":
            good = bytearray(srv.wrapped(inner_frame(), seq=ahead))
            good[6 + r.randrange(2)] ^= 1 << r.randrange(8)
            raw, why = bytes(good), "changed-session-id-field"
        elif kind == "nested":
            raw, why = srv.wrapped(srv.wrapped(inner_frame(), seq=ahead + 1), seq=ahead), "nested-wrapper"
        elif kind == "forbidden":
            svc = r.choice(FORBIDDEN_INNER[1:])
            body = r.randbytes(r.randrange(0, 12))
            raw, why = srv.wrapped(ref.header(svc, 6 + len(body)) + body, seq=ahead), f"forbidden-service-{svc:04x}"
        elif kind == "unsupported":
            # authentic, but a service xknx has no body class for: never passed on; counter semantics not judged
            seq = srv.next_seq()
            body = r.randbytes(4)
            model_note = "unsupported-inner-service"
            return srv.wrapped(ref.header(0x0533, 10) + body, seq=seq), None, model_note
        else:
            raise AssertionError(kind)
        if ahead > model.last and ready:
            model.rejected_above = why
        return raw, None, why if ready else "wrapper-before-handshake"

    def plain_event(r=rng):
        name = r.choice(PLAIN_JUNK)
        made = None
        while made is None:
            made = random_plain_frame(r, name)
        return made[1], None, f"plain-{name}-{'after' if auth_written() else 'before'}-handshake"

    def plain_session_response(r=rng):
        """A (well formed, genuine MAC) SessionResponse. Legitimate only before the client wrote its SessionAuthenticate."""
        raw = srv.session_response()
        if auth_written():
            return raw, None, "plain-session-response-after-authentication-started"
        return raw, raw, ""

    def event(kind):
        if kind == "idle":
            return None
        if kind == "plain":
            return [plain_event()]
        if kind == "plain-session-response":
            return [plain_session_response()]
        if kind == "wrapper-early":
            # nothing can be wrapped for a session that has no key yet: unrelated key
            return [(ref.wrap(rng.randbytes(16), spec["session_id"], 0, srv.serial, b"\x00\x00", inner_frame()), None, "wrapper-before-handshake")]
        if kind == "pair":
            a = wrapped_event(rng.choice(("genuine", "forged-key", "replay", "nested")))
            b = wrapped_event(rng.choice(("genuine", "genuine", "equal", "forged-mac")))
            return [a, b]
        return [wrapped_event(kind)]

    async def client_send(session, expect_ok):
        made = None
        while made is None:
            made = random_plain_frame(rng, rng.choice(("TunnellingRequest", "ConnectionStateRequest", "DisconnectRequest", "DescriptionRequest", "TunnellingFeatureGet", "SessionStatus")))
        n = len(srv.received)
        try:
            session.send(made[0])
        except Exception as exc:  # noqa: BLE001
            ctx.count("client_send_refused_" + type(exc).__name__)
        else:
            ctx.count("client_sends")
        model.kinds.append("tx")
        return len(srv.received) - n

    async def main():
        session = SecureSession(
            remote_addr=("10.0.0.2", 3671), user_id=user_id, user_password=user_pw, device_authentication_password=dev_pw,
            connection_lost_cb=lambda: model.kinds.append("lost"),
        )
        session.register_callback(model.cb)

        def raising_consumer(frame, source, transport):
            # a consumer callback that fails on some frames; what it raises is its own business (recorded by deliver())
            if state.get("raise_next"):
                state["raise_next"] = False
                ctx.count("consumer_callback_raised")
                raise RuntimeError("consumer callback failed")

        session.register_callback(raising_consumer)
        if spec["sends_before_connect"]:
            await client_send(session, False)
        task = asyncio.create_task(session.connect())
        await asyncio.sleep(0.001)
        if not srv.received:
            ctx.count("no_session_request_seen")
            task.cancel()
            return
        for kind in spec["pre"]:
            ev = event(kind)
            if ev:
                judge(kind, ev)
            if spec["sends_before_connect"]:
                await client_send(session, False)
            await asyncio.sleep(rng.choice((0, 0.001, 0.01)))
        outcome = "connected"
        if spec["response"] == "none":
            outcome = "no-response"
        else:
            raw = srv.session_response(device_key=rng.randbytes(16) if spec["response"] == "forged-mac" else None)
            judge("session-response", [(raw, raw, "")])
            if rng.random() < 0.3:
                judge("session-response-again", [plain_session_response()])
            await asyncio.sleep(0)
            await asyncio.sleep(0.001)
            if not auth_written():
                outcome = "handshake-refused" if (spec["response"] == "forged-mac" and dev_pw) else "no-authenticate"
        if outcome == "connected":
            ctx.count("handshakes_completed_to_authenticate")
            for kind in spec["during_auth"]:
                ev = event(kind)
                if ev:
                    judge(kind, ev)
                await asyncio.sleep(rng.choice((0, 0.001, 0.5)))
            if spec["auth"] == "none":
                outcome = "no-auth-status"
            else:
                judge("auth-status", [wrapped_event("auth-success" if spec["auth"] == "success" else "auth-failed")])
        try:
            await asyncio.wait_for(task, 15)
        except Exception as exc:  # noqa: BLE001
            model.kinds.append("connect-" + type(exc).__name__)
            ctx.count("connect_raised_" + type(exc).__name__)
        else:
            ctx.count("connects_completed")
            model.kinds.append("connected")
        if outcome == "connected" and spec["auth"] == "success" and session.initialized:
            if spec.get("tx_counter_from_end") is not None:
                session._sequence_number = (1 << 48) - spec["tx_counter_from_end"]
                ctx.count("histories_tx_counter_near_end")
                model.kinds.append(f"txend{spec['tx_counter_from_end']}")
            for kind in spec["main"]:
                if srv.transport.closed:
                    break
                if kind == "client-send":
                    await client_send(session, True)
                elif kind == "status-then-plain":
                    # a genuine fresh wrapped SessionStatus of any code, with plain frames (SessionResponse included) right behind it
                    # in the same TCP segment and later: after authentication no plain frame may reach a callback, whatever the status said
                    code = rng.choice((0, 1, 2, 3, 4, 5, 2, 3, 6, 0xFF))
                    chunk = [wrapped_event(f"status:{code}")]
                    for _ in range(rng.randrange(1, 4)):
                        chunk.append(plain_session_response() if rng.random() < 0.6 else plain_event())
                    ctx.count(f"status_code_{code}_followed_by_plain_frames")
                    judge(f"status-{code}-then-plain-same-segment", chunk)
                    for _ in range(rng.randrange(0, 3)):
                        await asyncio.sleep(rng.choice((0, 0, 0.001)))
                        if srv.transport.closed:
                            break
                        judge(f"plain-after-status-{code}", [plain_session_response() if rng.random() < 0.6 else plain_event()])
                elif kind == "raise-then-replay":
                    ev = [wrapped_event("genuine")]
                    state["raise_next"] = ev[0][1] is not None
                    judge("genuine-consumer-raises", ev)
                    state["raise_next"] = False
                    await asyncio.sleep(rng.choice((0, 0, 0.01)))
                    judge("replay-after-consumer-raised", [(ev[0][0], None, "replayed-after-consumer-callback-raised")])
                    if rng.random() < 0.5:
                        judge("genuine", [wrapped_event("genuine")])
                else:
                    ev = event(kind)
                    if ev:
                        judge(kind, ev)
                await asyncio.sleep(rng.choice((0, 0, 0.001, 0.02, 1.0, 49.0, 51.0)))
            end = spec["end"]
            if not srv.transport.closed and end in ("close", "timeout", "unauthenticated"):
                judge(end, [wrapped_event(end)])
                await asyncio.sleep(0.01)
                # a closed session accepts nothing any more
                if not srv.transport.closed:
                    ctx.count("session_still_open_after_server_close")
            elif end == "lose" and not srv.transport.closed:
                try:
                    srv.transport.lose()
                except Exception as exc:  # noqa: BLE001 - e.g. the close status cannot be sent with an exhausted counter; recorded
                    ctx.count("connection_lost_raised_" + type(exc).__name__)
                await asyncio.sleep(0.01)
        try:
            session.stop()
        except Exception as exc:  # noqa: BLE001 - refusing to send (counter exhausted) is fine; what is on the wire is judged
            ctx.count("stop_raised_" + type(exc).__name__)
            model.kinds.append("stop-" + type(exc).__name__)
        await asyncio.sleep(0.01)
        await client_send(session, False)

    try:
        loop.run(main(), max_vtime=3000)
    except Deadlock:
        ctx.count("history_deadlock")
    except LoopBudget:
        ctx.count("history_budget")
    for e in loop.exceptions:
        ctx.count("loop_handler_" + str(e.get("type")))
    loop.finish()
    tx_oracle(ctx, spec, srv.received, "session")
    ctx.count("histories_session")
    ctx.count("callbacks_seen", len(model.callbacks))
    ctx.distinct(("A", " ".join(model.kinds)))
    return model


# --------------------------------------------------------------------------
# driver B: whole SecureTunnel lives
# --------------------------------------------------------------------------
def run_tunnel_history(ctx, spec):
    rng = random.Random(spec["seed"])
    KEYRNG[0] = random.Random(spec["seed"] ^ 0x5EED)
    user_pw, dev_pw, user_id = CREDENTIALS[spec["cred"]]
    loop = new_loop()
    servers: list[SecureServer] = []

    def on_connection(transport):
        srv = SecureServer(loop, server_private_raw=rng.randbytes(32), device_password=dev_pw, users={user_id: user_pw}, session_id=len(servers) + 1)
        servers.append(srv)
        srv.attach(transport)

    loop.on_connection = on_connection
    cemis: list[bytes] = []
    genuine_cemis: list[bytes] = []
    kinds: list[str] = []

    def ind(r):
        tg = Telegram(destination_address=GroupAddress(r.randrange(1, 65536)), payload=GroupValueWrite(DPTArray((r.randrange(256),))))
        return CEMIFrame(code=CEMIMessageCode.L_DATA_IND, data=CEMILData.init_from_telegram(tg, src_addr=IndividualAddress(r.randrange(1, 65536)))).to_knx()

    async def main():
        xknx = XKNX()
        tunnel = SecureTunnel(
            xknx, cemi_received_callback=cemis.append, gateway_ip="10.0.0.2", gateway_port=3671, user_id=user_id, user_password=user_pw,
            device_authentication_password=dev_pw, auto_reconnect=True, auto_reconnect_wait=3,
        )
        await tunnel.connect()
        kinds.append("connect")
        if spec.get("tx_counter_from_end") is not None:
            tunnel.transport._sequence_number = (1 << 48) - spec["tx_counter_from_end"]
            ctx.count("histories_tx_counter_near_end")
            kinds.append(f"txend{spec['tx_counter_from_end']}")
        for ph in spec["phases"]:
            srv = servers[-1]
            for _ in range(ph["sends"]):
                tg = Telegram(destination_address=GroupAddress(rng.randrange(1, 65536)), payload=GroupValueWrite(DPTArray((rng.randrange(256), rng.randrange(256)))))
                cemi = CEMIFrame(code=CEMIMessageCode.L_DATA_REQ, data=CEMILData.init_from_telegram(tg, src_addr=IndividualAddress("1.1.9")))
                try:
                    await tunnel.send_cemi(cemi)
                    kinds.append("send")
                except Exception as exc:  # noqa: BLE001
                    kinds.append("send-" + type(exc).__name__)
                await asyncio.sleep(rng.choice((0, 0.05, 2.0)))
            for _ in range(ph["server_frames"]):
                if srv.transport.closed:
                    break
                raw_cemi = ind(rng)
                req = KNXIPFrame.init_from_body(TunnellingRequest(communication_channel_id=srv.channel, sequence_counter=srv.tunnel_seq & 0xFF, raw_cemi=raw_cemi)).to_knx()
                srv.tunnel_seq += 1
                genuine_cemis.append(raw_cemi)
                srv.now(srv.wrapped(req), "genuine-ind")
                kinds.append("ind")
                if ph["inject_plain"] and not srv.transport.closed:
                    fake = ind(rng)
                    bad = KNXIPFrame.init_from_body(TunnellingRequest(communication_channel_id=srv.channel, sequence_counter=srv.tunnel_seq & 0xFF, raw_cemi=fake)).to_knx()
                    before = len(cemis)
                    srv.now(bad, "plain-ind")
                    srv.now(srv.wrapped(bad, seq=srv.tx_seq + 7, key=rng.randbytes(16)), "forged-ind")
                    srv.now(srv.sent_log[-3][2], "replayed-ind")
                    ctx.ev(3)
                    ctx.count("tunnel_injected_plain_forged_replayed", 3)
                    kinds.append("junk")
                    if len(cemis) != before:
                        ctx.violation(
                            "tunnel-delivers-cemi-from-plain-forged-or-replayed-frame",
                            {"spec": spec, "delivered": cemis[before:], "plain": bad},
                            "a plain / forged / replayed TunnellingRequest reached cemi_received_callback of the secure tunnel",
                        )
                await asyncio.sleep(rng.choice((0, 0.01)))
            await asyncio.sleep(ph["idle"])
            kinds.append(f"idle{ph['idle']}")
            if ph["end"] in ("server-close", "server-timeout") and not srv.transport.closed:
                srv.now(srv.wrapped(ref.session_status(STATUS_CLOSE if ph["end"] == "server-close" else STATUS_TIMEOUT)), ph["end"])
                kinds.append(ph["end"])
                await asyncio.sleep(10)
            elif ph["end"] == "lose" and not srv.transport.closed:
                try:
                    srv.transport.lose()
                except Exception as exc:  # noqa: BLE001
                    ctx.count("connection_lost_raised_" + type(exc).__name__)
                kinds.append("lose")
                await asyncio.sleep(10)
        await tunnel.disconnect()
        kinds.append("disconnect")

    try:
        loop.run(main(), max_vtime=5000)
    except Deadlock:
        ctx.count("history_deadlock")
        kinds.append("deadlock")
    except LoopBudget:
        ctx.count("history_budget")
    except Exception as exc:  # noqa: BLE001
        kinds.append("raised-" + type(exc).__name__)
        ctx.count("tunnel_history_raised_" + type(exc).__name__)
    for e in loop.exceptions:
        ctx.count("loop_handler_" + str(e.get("type")))
    loop.finish()
    for n, srv in enumerate(servers):
        tx_oracle(ctx, spec, srv.received, f"tunnel-connection-{n}")
        if srv.auth_mac_matches_reference:
            ctx.count("tunnel_authentications_verified_by_reference")
    ctx.count("tunnel_connections", len(servers))
    ctx.count("tunnel_cemi_delivered", len(cemis))
    ctx.ev()
    inds = [c for c in cemis if c and c[0] == 0x29]
    if any(c not in genuine_cemis for c in inds):
        ctx.violation("tunnel-delivers-cemi-never-sent-wrapped", {"spec": spec, "delivered": inds, "genuine": genuine_cemis}, "cemi_received_callback saw an L_Data.ind the server never sent in a genuine wrapper")
    ctx.count("histories_tunnel")
    ctx.distinct(("B", " ".join(kinds)))


def run_spec(ctx, spec):
    if spec["driver"] == "session":
        return run_session_history(ctx, spec)
    return run_tunnel_history(ctx, spec)


def oracle_ok(ctx):
    bad = ref.self_test()
    if bad:
        ctx.inconclusive("reference CCM fails recorded vectors: " + ", ".join(bad))
        return False
    return True


def run(ctx):
    ctx.rule = (
        "history = handshake variant (genuine / forged / missing SessionResponse, auth success / failed / missing) + random event kinds before, "
        "during and after authentication + how it ends; tunnel lives = phases of sends, server indications, idle times around 50/70 s, server close / loss; "
        "distinct = the event-kind string of a history with per-event outcome (+ passed on, - dropped)"
    )
    if not oracle_ok(ctx):
        return
    ctx.require(
        "histories_session", "histories_tunnel", "expected_accept", "callbacks_seen", "tx_wrappers", "tx_plain_session_request", "connects_completed",
        "tx_inner_0954", "tx_inner_0207", "tx_inner_0953", "tunnel_injected_plain_forged_replayed", "client_sends",
        "status_code_2_followed_by_plain_frames", "status_code_3_followed_by_plain_frames", "status_code_5_followed_by_plain_frames", "status_code_4_followed_by_plain_frames",
        "consumer_callback_raised", "event_replayed-after-consumer-callback-raised", "histories_tx_counter_near_end", "tx_wrappers_in_last_6_numbers_of_48_bit_range", "client_send_refused_IPSecureError",
        "genuine_accepted_below_rejected_number", "event_replayed", "event_nested-wrapper", "event_wrong-key", "event_stale-sequence-number",
    )
    n_a = ctx.scale(1200, 200000)
    n_b = ctx.scale(150, 16000)
    with harness_patches():
        for i in range(n_a):
            spec = gen_spec(ctx.rng, i)
            if not ctx.mine(i):
                continue
            model = run_session_history(ctx, spec)
            if i < 2:
                ctx.sample({"spec": spec, "events": " ".join(model.kinds)})
        for i in range(n_b):
            spec = gen_tunnel_spec(ctx.rng, i)
            if not ctx.mine(i):
                continue
            run_tunnel_history(ctx, spec)
            if i < 1:
                ctx.sample({"spec": spec})


def replay(ctx, witness):
    if not oracle_ok(ctx):
        return
    spec = witness["spec"]
    with harness_patches():
        run_spec(ctx, spec)
    ctx.distinct("replay-a")
    ctx.distinct("replay-b")
