#!/bin/bash
# usage: tools/seedcheck.sh <dir containing patch.diff demo.py> <PROP> [tier]
# Validates a seeded change (suite passes, demo fails with / passes without) and runs our check against it.
D=$(readlink -f "$1"); PROP=$2; TIER=${3:-quick}
WT=$(mktemp -d /tmp/seedwt.XXXXXX); rmdir "$WT"
git -C /repo worktree add --detach "$WT" HEAD -q || exit 3
if ! git -C "$WT" apply "$D/patch.diff" 2>/dev/null && ! (cd "$WT" && patch -p1 -s --no-backup-if-mismatch < "$D/patch.diff" >/dev/null); then echo "$PROP: PATCH DOES NOT APPLY"; git -C /repo worktree remove --force "$WT"; exit 3; fi
find "$WT" -name '*.orig' -delete -o -name '*.rej' -delete
SUITE=$(/verif/tools/repotest.sh "$WT" | head -1)
(cd /tmp && PYTHONPATH="$WT" timeout 300 /venv/bin/python "$D/demo.py" >/dev/null 2>&1); DP=$?
(cd /tmp && PYTHONPATH=/repo timeout 300 /venv/bin/python "$D/demo.py" >/dev/null 2>&1); DC=$?
OUTD=$(mktemp -d /tmp/seedout.XXXXXX)
cd /verif && XKNX_SRC="$WT" VERIF_OUT="$OUTD" PYTHONHASHSEED=0 timeout 1800 /venv/bin/python -m vlib.run "$PROP" --tier "$TIER" > "$OUTD/log" 2>&1; RC=$?
MECH=$(grep -B1 '^VIOLATION' "$OUTD/log" | grep -v '^VIOLATION' | grep -v '^--' | cut -c1-140 | head -2 | tr '\n' '|')
echo "$PROP: suite[$SUITE] demo_patched=$DP demo_clean=$DC check_$TIER rc=$RC $MECH"
git -C /repo worktree remove --force "$WT"; rm -rf "$OUTD"
