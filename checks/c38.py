"""C38 eager group-address decoding never changes what devices see (shadow execution)."""

from __future__ import annotations

import dataclasses
import enum
import random
from typing import Any

from vlib.eqv import same
from vlib.vloop import Deadlock, LoopBudget
from vlib.xk_harness import Harness, incoming, virtual_wall_clock
from xknx.devices import (
    BinarySensor,
    Climate,
    ClimateMode,
    Cover,
    DateDevice,
    DateTimeDevice,
    ExposeSensor,
    Fan,
    Light,
    Notification,
    NumericValue,
    RawValue,
    Scene,
    Sensor,
    Switch,
    TimeDevice,
    Weather,
)
from xknx.devices.climate import FanSpeedMode, SetpointShiftMode
from xknx.devices.light import ColorTemperatureType
from xknx.dpt import DPTArray, DPTBase, DPTBinary
from xknx.exceptions import ConversionError, CouldNotParseAddress, CouldNotParseTelegram
from xknx.telegram import GroupAddress, IndividualAddress, Telegram, TelegramDirection
from xknx.telegram.address import parse_device_group_address
from xknx.telegram.apci import GroupValueResponse, GroupValueWrite

LEVEL = "exploration"
TECHNIQUE = (
    "runtime monitor: shadow execution of two real XKNX instances (one with a generated GA->DPT table) fed the same telegram stream through "
    "the real TelegramQueue; state-equality oracle on every remote value / device property + decoded_data oracle on every telegram seen by callbacks"
)
LEVEL_TEXT = (
    "Generated tables (per address: none / the remote value's own DPT written as number, name, dict, int / a sub- or superclass / another DPT of "
    "the same or another payload length / unparsable specs and addresses; replaced mid-stream) x generated streams (right-length, table-length, "
    "wrong-length, 6-bit vs array, write/response/read, incoming and outgoing) against ~280 devices covering every RemoteValue class and, through "
    "Sensor, every registered DPT. Exploration: tables and streams are sampled."
)
LEVEL_NOTE = (
    "Trusted: DPTBase.parse_transcoder / parse_device_group_address to read the table like xknx does, DPT.from_knx as 'the value that type decodes' "
    "(C07/C08 check it). Judged: decoded_data of every telegram seen by a telegram_received_cb equals the table transcoder's decode (None when the "
    "address has no usable entry, the service carries no value, or decoding fails) and is None without a table; after every telegram the "
    "listening devices, and at the end all devices, have identical remote-value values / payloads / last telegrams and identical public state in "
    "both instances (also devices that merely share an address with a listener); the value an earlier telegram carried does not change when later telegrams are processed; the table keeps working across stop()/start() of the same XKNX; the queue of the instance with the table never stalls. Recorded only: number of device callbacks and frames put on the wire."
)
SHARDS = {"quick": 1, "thorough": 16}
TIMEOUT = {"quick": 300, "thorough": 3000}


# ---------------------------------------------------------------------------
# device population (identical in both instances)
# ---------------------------------------------------------------------------


class _Ga:
    def __init__(self) -> None:
        self.n = 0x0800  # 1/0/0

    def __call__(self) -> str:
        self.n += 1
        return str(GroupAddress(self.n))


def build_devices(xknx: Any) -> list[Any]:
    ga = _Ga()
    devs: list[Any] = []
    devs.append(Switch(xknx, "switch", group_address=ga(), group_address_state=ga()))
    devs.append(Switch(xknx, "switch_inv", group_address=ga(), invert=True, reset_after=0.5, respond_to_read=True))
    devs.append(BinarySensor(xknx, "bs", group_address_state=ga()))
    devs.append(BinarySensor(xknx, "bs_ctx", group_address_state=ga(), context_timeout=0.4, invert=True))
    devs.append(BinarySensor(xknx, "bs_reset", group_address_state=ga(), reset_after=0.2, ignore_internal_state=True, always_callback=True))
    devs.append(Light(
        xknx, "light", group_address_switch=ga(), group_address_switch_state=ga(), group_address_brightness=ga(), group_address_brightness_state=ga(),
        group_address_color=ga(), group_address_color_state=ga(), group_address_rgbw=ga(), group_address_rgbw_state=ga(), group_address_hue=ga(),
        group_address_saturation=ga(), group_address_xyy_color=ga(), group_address_tunable_white=ga(), group_address_color_temperature=ga(),
    ))
    devs.append(Light(
        xknx, "light_individual", group_address_switch_red=ga(), group_address_brightness_red=ga(), group_address_switch_green=ga(), group_address_brightness_green=ga(),
        group_address_switch_blue=ga(), group_address_brightness_blue=ga(), group_address_switch_white=ga(), group_address_brightness_white=ga(),
        group_address_color_temperature=ga(), color_temperature_type=ColorTemperatureType.FLOAT_2_BYTE,
    ))
    for inv in (False, True):
        devs.append(Cover(
            xknx, f"cover{inv}", group_address_long=ga(), group_address_short=ga(), group_address_stop=ga(), group_address_position=ga(), group_address_position_state=ga(),
            group_address_angle=ga(), group_address_angle_state=ga(), group_address_locked_state=ga(), travel_time_down=10, travel_time_up=20, invert_updown=inv, invert_position=inv, invert_angle=inv,
        ))
    mode = ClimateMode(
        xknx, "climate_mode", group_address_operation_mode=ga(), group_address_operation_mode_state=ga(), group_address_operation_mode_protection=ga(),
        group_address_operation_mode_economy=ga(), group_address_operation_mode_comfort=ga(), group_address_operation_mode_standby=ga(), group_address_controller_status=ga(),
        group_address_controller_status_state=ga(), group_address_controller_mode=ga(), group_address_controller_mode_state=ga(), group_address_heat_cool=ga(), group_address_heat_cool_state=ga(),
    )
    devs.append(mode)
    for i, (ssm, fsm) in enumerate(((None, FanSpeedMode.PERCENT), (SetpointShiftMode.DPT6010, FanSpeedMode.STEP), (SetpointShiftMode.DPT9002, FanSpeedMode.PERCENT))):
        devs.append(Climate(
            xknx, f"climate{i}", group_address_temperature=ga(), group_address_target_temperature=ga(), group_address_target_temperature_state=ga(), group_address_setpoint_shift=ga(),
            group_address_setpoint_shift_state=ga(), setpoint_shift_mode=ssm, group_address_on_off=ga(), group_address_on_off_state=ga(), group_address_active_state=ga(),
            group_address_command_value_state=ga(), group_address_fan_speed=ga(), group_address_fan_speed_state=ga(), fan_speed_mode=fsm, group_address_humidity_state=ga(),
            group_address_swing=ga(), group_address_horizontal_swing=ga(), mode=mode if i == 0 else None,
        ))
    devs.append(Fan(xknx, "fan_pct", group_address_speed=ga(), group_address_speed_state=ga(), group_address_oscillation=ga(), group_address_switch=ga()))
    devs.append(Fan(xknx, "fan_step", group_address_speed=ga(), group_address_speed_state=ga(), max_step=3))
    devs.append(Weather(
        xknx, "weather", group_address_temperature=ga(), group_address_brightness_south=ga(), group_address_brightness_north=ga(), group_address_brightness_west=ga(),
        group_address_brightness_east=ga(), group_address_wind_speed=ga(), group_address_wind_bearing=ga(), group_address_rain_alarm=ga(), group_address_frost_alarm=ga(),
        group_address_wind_alarm=ga(), group_address_day_night=ga(), group_address_air_pressure=ga(), group_address_humidity=ga(),
    ))
    devs.append(Scene(xknx, "scene", group_address=ga(), scene_number=5))
    devs.append(Notification(xknx, "notification", group_address=ga(), group_address_state=ga(), respond_to_read=True))
    devs.append(Notification(xknx, "notification_latin1", group_address=ga(), value_type="latin_1"))
    devs.append(TimeDevice(xknx, "time", localtime=False, group_address=ga(), group_address_state=ga(), respond_to_read=True))
    devs.append(DateDevice(xknx, "date", localtime=False, group_address=ga(), respond_to_read=True))
    devs.append(DateTimeDevice(xknx, "datetime", localtime=False, group_address=ga(), group_address_state=ga()))
    for n in (0, 1, 2, 4):
        devs.append(RawValue(xknx, f"raw{n}", n, group_address=ga(), group_address_state=ga(), respond_to_read=True, always_callback=n == 1))
    for vt in ("percent", "temperature", "pulse_2byte", "4byte_float", "1byte_signed", "5", "9", "7.600", "14.056", "29.010"):
        devs.append(NumericValue(xknx, f"numeric_{vt}", group_address=ga(), group_address_state=ga(), value_type=vt, respond_to_read=True))
    for vt in ("binary", "percent", "temperature", "string", "hvac_mode", "color_rgb", "scene_control"):
        devs.append(ExposeSensor(xknx, f"expose_{vt}", group_address=ga(), value_type=vt))
    # one Sensor per registered DPT: every transcoder is some remote value's own type
    for dpt in DPTBase.dpt_class_tree():
        devs.append(Sensor(xknx, f"sensor_{dpt.dpt_number_str()}_{dpt.__name__}", group_address_state=ga(), value_type=dpt, always_callback=dpt.dpt_main_number in (1, 5)))
    # two devices with different types on one address, and a passive address
    shared = ga()
    devs.append(Sensor(xknx, "shared_percent", group_address_state=shared, value_type="percent"))
    devs.append(Sensor(xknx, "shared_angle", group_address_state=shared, value_type="angle"))
    devs.append(Sensor(xknx, "shared_raw_ucount", group_address_state=[ga(), shared, ga()], value_type="pulse"))
    # several devices sharing addresses of complex types; one of each group has an extra state / passive address
    s1, s2, s3 = ga(), ga(), ga()
    devs.append(Light(xknx, "xyy_a", group_address_xyy_color=s1))
    devs.append(Light(xknx, "xyy_b", group_address_xyy_color=s1, group_address_xyy_color_state=s2))
    devs.append(Light(xknx, "xyy_c", group_address_xyy_color=[s3, s1], group_address_switch=ga()))
    devs.append(Sensor(xknx, "xyy_sensor", group_address_state=[s1, s2], value_type="color_xyy"))
    s1, s2 = ga(), ga()
    devs.append(Light(xknx, "rgbw_a", group_address_rgbw=s1))
    devs.append(Light(xknx, "rgbw_b", group_address_rgbw=s1, group_address_rgbw_state=s2))
    devs.append(Sensor(xknx, "rgbw_sensor", group_address_state=[s2, s1], value_type="color_rgbw"))
    s1, s2 = ga(), ga()
    devs.append(Light(xknx, "rgb_a", group_address_color=s1))
    devs.append(Light(xknx, "rgb_b", group_address_color=s1, group_address_color_state=s2))
    devs.append(ExposeSensor(xknx, "rgb_expose", group_address=s1, value_type="color_rgb"))
    s1, s2 = ga(), ga()
    devs.append(ClimateMode(xknx, "status_a", group_address_controller_status=s1))
    devs.append(ClimateMode(xknx, "status_b", group_address_controller_status=s1, group_address_controller_status_state=s2))
    devs.append(Sensor(xknx, "status_sensor", group_address_state=[s1, s2], value_type="hvac_status"))
    s1, s2 = ga(), ga()
    devs.append(DateTimeDevice(xknx, "dt_a", localtime=False, group_address=s1))
    devs.append(DateTimeDevice(xknx, "dt_b", localtime=False, group_address=s1, group_address_state=s2))
    devs.append(TimeDevice(xknx, "time_a", localtime=False, group_address=s2))  # another type on the same address
    s1 = ga()
    devs.append(Scene(xknx, "scene_a", group_address=s1, scene_number=1))
    devs.append(Scene(xknx, "scene_b", group_address=s1, scene_number=2))
    devs.append(Sensor(xknx, "scene_sensor", group_address_state=s1, value_type="scene_control"))
    for d in devs:
        xknx.devices.async_add(d)
    return devs


def _neighbours(devs: list[Any]) -> tuple[dict[int, set[int]], list[int]]:
    """device index -> indices of devices sharing an address with it; and the shared addresses (raw)."""
    by_ga: dict[Any, list[int]] = {}
    for i, d in enumerate(devs):
        for a in d.group_addresses():
            by_ga.setdefault(a, []).append(i)
    neigh: dict[int, set[int]] = {}
    members: set[int] = set()
    for idx in by_ga.values():
        if len(idx) > 1:
            members.update(idx)
            for i in idx:
                neigh.setdefault(i, set()).update(idx)
    shared = sorted({a.raw for i in members for a in devs[i].group_addresses() if isinstance(a, GroupAddress)})
    return neigh, shared


def _iter_rvs(dev: Any) -> list[Any]:
    rvs = list(dev._iter_remote_values())
    mode = getattr(dev, "mode", None)
    if isinstance(mode, ClimateMode):
        rvs += list(mode._iter_remote_values())
    return rvs


def _address_info(devs: list[Any]) -> dict[int, list[Any]]:
    """GA raw -> remote values listening (for structure-aware generation)."""
    info: dict[int, list[Any]] = {}
    for d in devs:
        for rv in _iter_rvs(d):
            for a in rv.group_addresses():
                if isinstance(a, GroupAddress):
                    info.setdefault(a.raw, [])
                    if rv not in info[a.raw]:
                        info[a.raw].append(rv)
    return info


def _rv_shape(rv: Any) -> tuple[str, list[int]]:
    """(payload kind, plausible lengths) a remote value expects."""
    dc = getattr(rv, "dpt_class", None)
    if dc is not None:
        return ("binary" if dc.payload_type is DPTBinary else "array", [dc.payload_length])
    name = type(rv).__name__
    if name in ("RemoteValueSwitch", "RemoteValueUpDown", "RemoteValueStep", "RemoteValueBinaryOperationMode", "RemoteValueBinaryHeatCool"):
        return ("binary", [1])
    if name == "RemoteValueRaw":
        return ("binary", [6]) if rv.payload_length == 0 else ("array", [rv.payload_length])
    return ("array", {"RemoteValueScaling": [1], "RemoteValueSetpointShift": [1, 2], "RemoteValueByLength": [2, 4], "RemoteValueColorRGBW": [6]}.get(name, [1, 2]))


# ---------------------------------------------------------------------------
# table and stream generation
# ---------------------------------------------------------------------------


def _spec_for(rng: Any, dpt: Any) -> Any:
    """One of the documented ways to name a DPT."""
    forms: list[Any] = [dpt.dpt_number_str(), f"DPT-{dpt.dpt_number_str()}" if dpt.dpt_sub_number is None else dpt.dpt_number_str(),
                        {"main": dpt.dpt_main_number, "sub": dpt.dpt_sub_number}, {"main": str(dpt.dpt_main_number), "sub": dpt.dpt_sub_number}]
    if dpt.value_type:
        forms += [dpt.value_type, f" {dpt.value_type} "]
    if dpt.dpt_sub_number is None:
        forms.append(dpt.dpt_main_number)
    return rng.choice(forms)


def _make_table(rng: Any, info: dict[int, list[Any]], tree: list[Any], by_shape: dict[Any, list[Any]], shared: Any = None) -> tuple[dict[Any, Any], dict[str, int]]:
    table: dict[Any, Any] = {}
    kinds: dict[str, int] = {}
    density = rng.choice((0.3, 0.7, 1.0))
    shared_matching = rng.random() < 0.75  # addresses shared by several devices: mostly each remote value's own type
    for raw, rvs in sorted(info.items()):
        is_shared = shared is not None and raw in shared
        if rng.random() > density and not (is_shared and shared_matching):
            continue
        rv = rng.choice(rvs)
        own = getattr(rv, "dpt_class", None)
        r = rng.random() * (0.4 if is_shared and shared_matching else 1.0)
        if own is not None and r < 0.35:
            kind, spec = "matching", _spec_for(rng, own)
        elif own is not None and r < 0.55:
            rel = [c for c in tree if c is not own and (issubclass(c, own) or issubclass(own, c))]
            if rel:
                kind, spec = "sub-or-superclass", _spec_for(rng, rng.choice(rel))
            else:
                kind, spec = "same-shape-other-type", _spec_for(rng, rng.choice(by_shape[(own.payload_type, own.payload_length)]))
        elif r < 0.75:
            shape, lens = _rv_shape(rv)
            cands = by_shape.get((DPTBinary if shape == "binary" else DPTArray, lens[0])) or tree
            kind, spec = "same-shape-other-type", _spec_for(rng, rng.choice(cands))
        elif r < 0.9:
            kind, spec = "other-shape", _spec_for(rng, rng.choice(tree))
        else:
            kind, spec = "invalid-spec", rng.choice(("", "nope", "9.999", "999", 0, -1, 4711, None, {"main": None}, {"sub": 1}, {"main": "x"}, {"main": 9, "sub": "y"}, 9.001, "1.2.3", ("9", "001")))
        key = rng.choice((str(GroupAddress(raw)), raw, GroupAddress(raw)))
        table[key] = spec
        kinds[kind] = kinds.get(kind, 0) + 1
    # entries for addresses no device listens on, internal addresses, unparsable addresses
    table["31/7/200"] = "temperature"
    table["i-c38"] = "percent"
    for bad in ("", "99/99/99", "1/2/3/4", "x", -5, 70000):
        table[bad] = "switch"
        kinds["invalid-address"] = kinds.get("invalid-address", 0) + 1
    return table, kinds


def _resolve(table: dict[Any, Any]) -> dict[Any, Any]:
    """GA raw -> transcoder, read the way the GroupAddressDPT documentation describes (later entries win)."""
    out: dict[Any, Any] = {}
    for key, spec in table.items():
        try:
            addr = parse_device_group_address(key)
        except CouldNotParseAddress:
            continue
        try:
            tr = DPTBase.parse_transcoder(spec)
        except Exception:  # noqa: BLE001 - unhashable / odd specs: no transcoder
            tr = None
        if tr is not None:
            out[addr.raw] = tr
    return out


def _payload(rng: Any, kind: str, length: int) -> Any:
    if kind == "binary":
        return DPTBinary(rng.choice((0, 1, 1, 0, 2, 3, 7, 8, 15, 31, 32, 63, rng.randrange(64))))
    return DPTArray(bytes(rng.choice((0, 1, 2, 3, 5, 0x7F, 0x80, 0xFF, rng.randrange(256), rng.randrange(256))) for _ in range(length)))


def _make_stream(rng: Any, info: dict[int, list[Any]], resolved: dict[Any, Any], n: int, shared: list[int] | None = None) -> list[tuple[Telegram, float]]:
    addrs = sorted(info)
    hot = rng.sample(addrs, min(len(addrs), 40))  # repeated addresses: state changes, unchanged values, timers
    out: list[tuple[Telegram, float]] = []
    for _ in range(n):
        r = rng.random()
        on_shared = bool(shared) and r < 0.25  # addresses several devices listen on, incl. the extra address of one of them
        raw = rng.choice(shared) if on_shared else rng.choice(hot) if r < 0.6 else rng.choice(addrs) if r < 0.95 else rng.choice((0x7FC8, 0x0001, 0x7FFF))
        rvs = info.get(raw, [])
        table_tr = resolved.get(raw)
        q = rng.random() * (0.6 if on_shared else 1.0)
        if rvs and q < 0.55:
            kind, lens = _rv_shape(rng.choice(rvs))
            payload = _payload(rng, kind, rng.choice(lens))
        elif table_tr is not None and q < 0.8:
            payload = _payload(rng, "binary" if table_tr.payload_type is DPTBinary else "array", table_tr.payload_length)
        elif q < 0.92:
            payload = _payload(rng, rng.choice(("binary", "array")), rng.choice((1, 2, 3, 4, 6, 8, 14, 15)))
        else:
            payload = None  # GroupValueRead
        t = incoming(GroupAddress(raw), payload, response=rng.random() < 0.25, source=rng.choice(("1.1.200", "1.1.7", "15.15.255")))
        if rng.random() < 0.12:
            t.direction = TelegramDirection.OUTGOING
            t.source_address = IndividualAddress(0)
        out.append((t, rng.choice((0.0, 0.0, 0.0, 0.05, 0.25, 0.6, 2.5))))
    return out


def _clone(t: Telegram) -> Telegram:
    return Telegram(destination_address=t.destination_address, direction=t.direction, payload=t.payload, source_address=t.source_address)


# ---------------------------------------------------------------------------
# state snapshots
# ---------------------------------------------------------------------------

_STATE_METHOD_PREFIXES = ("is_", "current_", "resolve_state", "position_reached", "unit_of_measurement", "ha_device_class", "counter")
_SKIP_ATTRS = {"xknx", "device_updated_cbs", "name"}


def _plain(v: Any, depth: int = 0) -> Any:
    """Project a value on comparable plain data; objects tied to one instance are dropped."""
    if v is None or isinstance(v, bool | int | float | str | bytes):
        return v
    if isinstance(v, enum.Enum):
        return ("enum", type(v).__name__, v.name)
    if isinstance(v, DPTArray | DPTBinary):
        return (type(v).__name__, v.value)
    if depth > 4:
        return "<deep>"
    if isinstance(v, tuple | list):
        return [_plain(x, depth + 1) for x in v]
    if isinstance(v, dict):
        return {str(k): _plain(x, depth + 1) for k, x in v.items()}
    if isinstance(v, Telegram):
        return ("telegram", str(v.destination_address), v.direction.name, type(v.payload).__name__, _plain(getattr(v.payload, "value", None)), str(v.source_address))
    if dataclasses.is_dataclass(v) and not isinstance(v, type):
        return (type(v).__name__, {f.name: _plain(getattr(v, f.name), depth + 1) for f in dataclasses.fields(v)})
    if type(v).__name__ == "TravelCalculator":
        return ("travelcalculator", {n: _plain(getattr(v, n), depth + 1) for n in type(v).__slots__})
    if isinstance(v, type):
        return ("class", v.__name__)
    if type(v).__module__.startswith("datetime"):
        return repr(v)
    return ("<skipped>", type(v).__name__)


def snapshot(dev: Any) -> dict[str, Any]:
    snap: dict[str, Any] = {}
    for i, rv in enumerate(_iter_rvs(dev)):
        tag = f"rv{i}:{type(rv).__name__}:{rv.feature_name}"
        snap[tag + ".value"] = _plain(rv.value)
        snap[tag + ".last_payload"] = _plain(rv.last_payload)
        snap[tag + ".telegram"] = _plain(rv.telegram)
        for extra in ("_internal_dpt_class", "_valid_value"):
            if hasattr(rv, extra):
                snap[tag + "." + extra] = _plain(getattr(rv, extra))
    for k, v in sorted(vars(dev).items()):
        if k in _SKIP_ATTRS:
            continue
        p = _plain(v)
        if not (isinstance(p, tuple) and p and p[0] == "<skipped>"):
            snap["attr:" + k] = p
    cls = type(dev)
    for name in sorted(dir(cls)):
        if name.startswith("_"):
            continue
        member = getattr(cls, name, None)
        try:
            if isinstance(member, property):
                snap["prop:" + name] = _plain(getattr(dev, name))
            elif callable(member) and name.startswith(_STATE_METHOD_PREFIXES):
                snap["call:" + name] = _plain(getattr(dev, name)())
        except Exception as exc:  # noqa: BLE001 - a raising state query is part of the state
            snap["raised:" + name] = type(exc).__name__
    return snap


def _diff(a: dict[str, Any], b: dict[str, Any]) -> list[str]:
    return [k for k in sorted(set(a) | set(b)) if not _eq(a.get(k, "<absent>"), b.get(k, "<absent>"))]


# ---------------------------------------------------------------------------
# one shadow run
# ---------------------------------------------------------------------------


class _Instance:
    def __init__(self, table: dict[Any, Any] | None, current: list[Any]) -> None:
        self.h = Harness()
        current[0] = self.h.loop  # wall-clock shim follows the instance that is running
        self.callbacks: list[str] = []
        self.h.xknx.devices.register_device_updated_cb(lambda d: self.callbacks.append(d.name))
        self.devs = build_devices(self.h.xknx)
        if table is not None:
            self.h.xknx.group_address_dpt.set(table)
        self.h.start()
        self.h.settle(advance=3.0)  # initial state reads time out


def _eq(a: Any, b: Any) -> bool:
    """Fast paths (identity, ==) before the structural comparison (NaN-aware, slot-wise)."""
    if a is b:
        return True
    try:
        if type(a) is type(b) and a == b:
            return True
    except Exception:  # noqa: BLE001
        pass
    return same(a, b)


def _expected_decoded(resolved: dict[Any, Any], t: Telegram) -> Any:
    if not isinstance(t.payload, GroupValueWrite | GroupValueResponse):
        return None
    tr = resolved.get(t.destination_address.raw)
    if tr is None:
        return None
    try:
        return (tr, tr.from_knx(t.payload.value))
    except (ConversionError, CouldNotParseTelegram):
        return None


def _check_decoded(ctx: Any, seen: list[Telegram], start: int, resolved: dict[Any, Any] | None, wit: dict[str, Any]) -> int:
    for t in seen[start:]:
        ctx.count("telegrams_seen_by_callbacks")
        got = t.decoded_data
        exp = _expected_decoded(resolved, t) if resolved is not None else None
        if exp is None:
            if got is not None:
                ctx.violation("decoded-data-present-" + ("without-table" if resolved is None else "where-table-gives-no-value"),
                              {**wit, "telegram": str(t), "decoded": str(got)}, f"{t} carries decoded_data {got} but the table yields none")
            else:
                ctx.count("decoded_data_none_as_expected")
            continue
        tr, val = exp
        if got is None:
            ctx.violation("decoded-data-missing-for-configured-address", {**wit, "telegram": str(t), "transcoder": tr.__name__, "expected": repr(val)[:100]},
                          f"{t}: address is configured as {tr.__name__} which decodes {val!r:.60}, but decoded_data is None")
        elif got.transcoder is not tr or not _eq(got.value, val):
            ctx.violation("decoded-data-differs-from-configured-type", {**wit, "telegram": str(t), "transcoder": tr.__name__, "expected": repr(val)[:100], "got": f"{got.transcoder.__name__}:{got.value!r}"[:160]},
                          f"{t}: configured {tr.__name__} decodes {val!r:.60}, telegram carries {got.transcoder.__name__}:{got.value!r:.60}")
        else:
            ctx.count("decoded_data_correct")
    return len(seen)


def _check_carried(ctx: Any, carried: list[tuple[Telegram, Any, int]], wit: dict[str, Any]) -> None:
    """What an earlier telegram carried must not change when later telegrams are processed."""
    for tb, plain, step in carried:
        ctx.count("earlier_decoded_values_rechecked")
        now = _plain(tb.decoded_data.value) if tb.decoded_data is not None else None
        if not _eq(now, plain):
            ctx.violation("decoded-data-of-earlier-telegram-changes-later", {**wit, "earlier_step": step, "earlier_telegram": str(tb), "carried_then": repr(plain)[:160], "carried_now": repr(now)[:160]},
                          f"{tb} (step {step}) carried {plain!r:.80}; after later telegrams the same object reads {now!r:.80}")
        else:
            ctx.count("earlier_decoded_values_unchanged")


def shadow_run(ctx: Any, case: int, n_telegrams: int) -> None:
    rng = random.Random(f"C38/{ctx.seed}/{case}")  # per case: independent of sharding, replayable
    tree = list(DPTBase.dpt_class_tree())
    by_shape: dict[Any, list[Any]] = {}
    for c in tree:
        by_shape.setdefault((c.payload_type, c.payload_length), []).append(c)
    current: list[Any] = [None]
    with virtual_wall_clock(lambda: current[0]):
        a = b = None
        try:
            probe = Harness()
            probe_devs = build_devices(probe.xknx)
            info = _address_info(probe_devs)
            neigh, shared = _neighbours(probe_devs)
            probe.close()
            table, kinds = _make_table(rng, info, tree, by_shape, shared)
            resolved = _resolve(table)
            for k, v in kinds.items():
                ctx.count(f"table_entries_{k}", v)
            ctx.count("tables")
            stream = _make_stream(rng, info, resolved, n_telegrams, shared)
            restart_at = {rng.randrange(n_telegrams) for _ in range(rng.choice((0, 1, 2)))}
            carried: list[tuple[Telegram, Any, int]] = []  # (telegram seen with the table, plain copy of its decoded value, step)
            n_resolved = len(resolved)
            swap_at = rng.randrange(n_telegrams) if rng.random() < 0.5 else -1
            wit: dict[str, Any] = {"case": case, "seed": ctx.seed, "telegrams": n_telegrams}
            a = _Instance(None, current)
            b = _Instance(table, current)
            ctx.count("devices_per_instance", len(a.devs)) if case == 0 else None
            seen_a = seen_b = 0
            stalled = False
            for step, (t, dt) in enumerate(stream):
                ctx.ev()
                if step == swap_at:
                    table2, _k = _make_table(rng, info, tree, by_shape, shared)
                    if rng.random() < 0.5:
                        b.h.xknx.group_address_dpt.clear()
                        resolved = {}
                    b.h.xknx.group_address_dpt.set(table2)
                    resolved = {**resolved, **_resolve(table2)}
                    ctx.count("table_replaced_mid_stream")
                if step in restart_at:
                    # the user stops and starts the same XKNX object; the table was set once and never cleared
                    for inst in (a, b):
                        current[0] = inst.h.loop
                        inst.h.stop()
                        inst.h.start()
                        inst.h.settle(advance=3.0)
                    ctx.count("stop_start_cycles")
                w = {**wit, "step": step, "telegram": str(t), "table_entry": repr(next((v for k, v in table.items() if _same_addr(k, t.destination_address)), None))[:80],
                     "resolved_transcoder": getattr(resolved.get(t.destination_address.raw), "__name__", None)}
                for inst in (a, b):
                    current[0] = inst.h.loop
                    inst.h.feed([_clone(t)])
                    try:
                        inst.h.settle(advance=dt)
                    except (Deadlock, LoopBudget) as exc:
                        stalled = True
                        ctx.violation("telegram-queue-stalls-" + ("with-table" if inst is b else "without-table"), {**w, "exception": repr(exc), "loop_exceptions": inst.h.loop.exceptions[-3:]},
                                      f"after {t} the telegram queue of the instance {'with' if inst is b else 'without'} the table never finished: {exc!r}; {inst.h.loop.exceptions[-1:]}")
                        break
                if stalled:
                    break
                ctx.count("telegrams_fed")
                seen_a = _check_decoded(ctx, a.h.seen, seen_a, None, w)
                first_new = seen_b
                seen_b = _check_decoded(ctx, b.h.seen, seen_b, resolved, w)
                for tb in b.h.seen[first_new:]:
                    if tb.decoded_data is not None:
                        carried.append((tb, _plain(tb.decoded_data.value), step))
                _check_carried(ctx, carried[-12:-1] if len(carried) > 1 else [], w)
                # listeners of this address and every device sharing an address with one of them
                listeners = {i for i, d in enumerate(a.devs) if d in set(a.h.xknx.devices.devices_by_group_address(t.destination_address))}
                watch = sorted(listeners | {j for i in listeners for j in neigh.get(i, ())})
                ctx.count("neighbour_states_compared", len(watch) - len(listeners))
                la = [a.devs[i] for i in watch]
                lb = [b.devs[i] for i in watch]
                kind = "decoded" if _expected_decoded(resolved, t) is not None else "undecoded"
                for da, db in zip(la, lb, strict=True):
                    ctx.count("device_states_compared")
                    ctx.count(f"device_states_compared_{kind}")
                    d = _diff(snapshot(da), snapshot(db))
                    if d:
                        sa, sb = snapshot(da), snapshot(db)
                        ctx.violation("device-state-differs-with-table", {**w, "device": da.name, "fields": d[:6], "without_table": {k: repr(sa.get(k))[:120] for k in d[:4]}, "with_table": {k: repr(sb.get(k))[:120] for k in d[:4]}},
                                      f"{da.name} after {t} (table: {w['resolved_transcoder']}): {d[0]} is {sa.get(d[0])!r:.70} without and {sb.get(d[0])!r:.70} with the table")
                    else:
                        ctx.count("device_states_equal")
                rvs = info.get(t.destination_address.raw, [])
                own = getattr(rvs[0], "dpt_class", None) if rvs else None
                tr = resolved.get(t.destination_address.raw)
                rel = "no-entry" if tr is None else "same" if tr is own else "related" if own is not None and (issubclass(tr, own) or issubclass(own, tr)) else "unrelated"
                ctx.distinct((type(rvs[0]).__name__ if rvs else "nobody", getattr(own, "dpt_main_number", None), rel, kind, type(t.payload).__name__, t.direction.name))
                ctx.count(f"telegrams_table_{rel}")
            if not stalled:
                _check_carried(ctx, carried, {**wit, "at": "end of stream"})
                # every device, and the side effects
                for da, db in zip(a.devs, b.devs, strict=True):
                    ctx.count("final_device_states_compared")
                    d = _diff(snapshot(da), snapshot(db))
                    if d:
                        sa, sb = snapshot(da), snapshot(db)
                        ctx.violation("device-state-differs-with-table", {**wit, "device": da.name, "fields": d[:6], "at": "end of stream", "without_table": {k: repr(sa.get(k))[:120] for k in d[:4]}, "with_table": {k: repr(sb.get(k))[:120] for k in d[:4]}},
                                      f"{da.name} at the end of the stream: {d[0]} is {sa.get(d[0])!r:.70} without and {sb.get(d[0])!r:.70} with the table")
                if a.callbacks != b.callbacks:
                    ctx.count("recorded_device_callback_sequences_differ")
                else:
                    ctx.count("recorded_device_callback_sequences_equal")
                ctx.count("recorded_device_callbacks", len(a.callbacks))
                if a.h.iface.sent != b.h.iface.sent:
                    ctx.count("recorded_wire_output_differs")
                else:
                    ctx.count("recorded_wire_output_equal")
                ctx.count("recorded_frames_on_wire", len(a.h.iface.sent))
                for inst in (a, b):
                    if inst.h.loop.exceptions:
                        ctx.count("recorded_loop_exceptions", len(inst.h.loop.exceptions))
            if case < 3:
                ctx.sample({"table_entries": len(table), "kinds": kinds, "resolved": n_resolved, "telegrams": len(stream),
                            "example_entry": [repr(k) + " -> " + repr(v) for k, v in list(table.items())[:3]], "example_telegram": str(stream[0][0])})
        finally:
            for inst in (a, b):
                if inst is not None:
                    current[0] = inst.h.loop
                    inst.h.close()
            current[0] = None


def _same_addr(key: Any, addr: Any) -> bool:
    try:
        return parse_device_group_address(key) == addr
    except CouldNotParseAddress:
        return False


def run(ctx: Any) -> None:
    ctx.rule = (
        "case = (generated GA->DPT table, optional mid-stream replacement, generated telegram stream with virtual-time gaps) run on two XKNX instances "
        "with the same ~280 devices; distinct = (listening remote value class, its DPT main number, relation table type vs own type, decoded or not, "
        "service, direction)"
    )
    ctx.require("tables", "telegrams_fed", "telegrams_seen_by_callbacks", "decoded_data_correct", "decoded_data_none_as_expected", "device_states_compared",
                "device_states_compared_decoded", "device_states_equal", "final_device_states_compared", "telegrams_table_same", "telegrams_table_related",
                "telegrams_table_unrelated", "telegrams_table_no-entry", "neighbour_states_compared", "earlier_decoded_values_rechecked", "stop_start_cycles", "table_entries_matching", "table_entries_sub-or-superclass", "table_entries_invalid-spec")
    cases = ctx.scale(20, 480)
    n = ctx.scale(260, 300)
    for case in range(cases):
        if ctx.mine(case):
            shadow_run(ctx, case, n)


def replay(ctx: Any, witness: dict[str, Any]) -> None:
    """Re-execute the recorded case (table and stream are a function of seed and case number)."""
    ctx.rule = "replay of one recorded shadow run"
    ctx.seed = witness.get("seed", ctx.seed)
    shadow_run(ctx, witness["case"], witness.get("telegrams", 260))
