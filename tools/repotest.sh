#!/bin/bash
# Run the repository's own suite (guard off) and compare with BASELINE stable_pass.
# usage: tools/repotest.sh [repo_dir]   (default /repo)
# xdist ordering can flake tests that depend on the global GroupAddress.address_format; anything
# missing after the parallel run is re-run serially (whole file) before it is reported.
R=${1:-/repo}
OUT=$(mktemp /tmp/junit.XXXXXX.xml)
cd "$R" && env -u XKNX_VERIF PYTHONPATH="$R" /venv/bin/python -m pytest -q -p no:cacheprovider --timeout=900 -n 8 --junitxml="$OUT" >/dev/null 2>&1
cat > /tmp/.repotest_cmp.py <<'PY'
import json,sys,xml.etree.ElementTree as ET
sp=set(json.load(open('/root/.vp/BASELINE.json'))['stable_pass'])
ok=set()
for f in sys.argv[2:]:
    try: root=ET.parse(f).getroot()
    except Exception: continue
    for tc in root.iter('testcase'):
        if not any(c.tag in ('failure','error','skipped') for c in tc):
            ok.add(f"{tc.get('classname')}::{tc.get('name')}")
missing=sorted(sp-ok)
if sys.argv[1]=="files":
    print("\n".join(sorted({m.split("::")[0].rsplit(".",1)[0].replace(".","/")+".py" if m.split("::")[0].split(".")[-1][0].isupper() else m.split("::")[0].replace(".","/")+".py" for m in missing})))
    sys.exit(0)
print(f"baseline stable_pass={len(sp)} passing_now={len(sp&ok)} missing={len(missing)}")
for m in missing[:20]: print("  MISSING", m)
sys.exit(1 if missing else 0)
PY
FILES=$(/venv/bin/python /tmp/.repotest_cmp.py files "$OUT")
OUT2=$(mktemp /tmp/junit.XXXXXX.xml)
if [ -n "$FILES" ]; then
  env -u XKNX_VERIF PYTHONPATH="$R" /venv/bin/python -m pytest -q -p no:cacheprovider --timeout=900 -p no:xdist --junitxml="$OUT2" $FILES >/dev/null 2>&1
fi
/venv/bin/python /tmp/.repotest_cmp.py report "$OUT" "$OUT2"
rc=$?
rm -f "$OUT" "$OUT2"
exit $rc
