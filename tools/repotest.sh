#!/bin/bash
# Run the repository's own suite (guard off) and compare with BASELINE stable_pass.
# usage: tools/repotest.sh [repo_dir]   (default /repo)
R=${1:-/repo}
OUT=$(mktemp /tmp/junit.XXXXXX.xml)
cd "$R" && env -u XKNX_VERIF PYTHONPATH="$R" /venv/bin/python -m pytest -q -p no:cacheprovider --timeout=900 -n 8 --junitxml="$OUT" >/dev/null 2>&1
/venv/bin/python - "$OUT" <<'PY'
import json,sys,xml.etree.ElementTree as ET
sp=set(json.load(open('/root/.vp/BASELINE.json'))['stable_pass'])
ok=set()
for tc in ET.parse(sys.argv[1]).getroot().iter('testcase'):
    if not any(c.tag in ('failure','error','skipped') for c in tc):
        ok.add(f"{tc.get('classname')}::{tc.get('name')}")
missing=sorted(sp-ok)
print(f"baseline stable_pass={len(sp)} passing_now={len(sp&ok)} missing={len(missing)}")
for m in missing[:20]: print("  MISSING", m)
sys.exit(1 if missing else 0)
PY
rc=$?
rm -f "$OUT"
exit $rc
