"""C27 routing flow control: busy pauses, 20 ms indication spacing, one local L_Data.con per routed send."""

from __future__ import annotations

import asyncio
import random

from vlib.vloop import Deadlock, LoopBudget, new_loop, patch_multicast
from xknx import XKNX
from xknx.cemi import CEMIFrame, CEMILData, CEMIMessageCode
from xknx.dpt import DPTArray
from xknx.io.routing import Routing
from xknx.knxip import KNXIPFrame, RoutingBusy, RoutingIndication, RoutingLostMessage
from xknx.telegram import GroupAddress, IndividualAddress, Telegram
from xknx.telegram.apci import GroupValueWrite

LEVEL = "exploration"
TECHNIQUE = (
    "runtime monitor: the real Routing/_RoutingFlowControl run on the virtual loop over a stubbed multicast endpoint with random.random scripted; "
    "send instants of RoutingIndications, arrival instants of injected RoutingBusy frames (wire order) and the confirmations handed to the "
    "callback are compared with the statement's pause rule in robust bounds; an exact model of the busy counter (first run as a shadow oracle, now gating) predicts every send instant"
)
LEVEL_TEXT = (
    "Generated histories: 1..14 sequential sends with gaps 0..300 ms interleaved with 0..12 busy frames (wait 0..2000 ms; gaps inside / on / outside "
    "the 10 ms cooldown, bursts in one instant, arrivals exactly at, just before and just after the end of a pause and during the slow-down phase), "
    "incoming indications and lost-message frames, scripted random extension in {0, .5, ~1, random}. Datagrams are also injected in the I/O phase of "
    "the loop iteration k, k+1, k+2.. around the end of a pause (where a real selector would hand them over). Concurrent senders are a separate, reported "
    "sub-case. Histories are sampled on a virtual clock, hence exploration."
)
LEVEL_NOTE = (
    "Trusted: the virtual loop (timers fire within the loop's 1 ns clock resolution), CPython asyncio. Judged (sequential sender): no RoutingIndication leaves "
    "after a busy frame was handed to the protocol and before that frame's arrival + announced wait (extension >= 0, so this holds whichever frame 'set' the pause: "
    "a discarded frame was discarded because the running pause ends later); every send leaves no later than max(call, previous + 20 ms, arrival + wait + "
    "(busy frames so far) x 50 ms) + 20 ms; consecutive indications >= 20 ms apart; exactly one L_Data.con equal to the sent frame per completed send_cemi; "
    "a send that never completes (deadlock on the virtual loop) is a violation. The exact busy-counter model (N incremented by a busy frame arriving > 10 ms after the previous one during a pause, extension random() x N x 50 ms fixed when the pause is set, "
    "N decremented every 5 ms after N x 100 ms) started as a shadow oracle; after 0 disagreements in > 10^6 comparisons it is gating: the send instant must equal the model's within 1 us, except in histories "
    "with an event within 10 ns of a model boundary (not compared). In ~30% of the sequential histories the same Routing object is disconnected and connected again 1-2 times between sends (down 0..300 ms, also inside an announced pause); pause rule, progress bound, "
    "spacing and confirmations are judged across the restart (the exact model is not compared there). Concurrent senders (2-3 send_cemi callers at once, as management acknowledgements beside queue traffic): spacing, the no-send-during-announced-wait rule and the confirmation count are judged; the upper progress bound and the exact busy-counter model are judged for the sequential sender only."
)
SHARDS = {"quick": 1, "thorough": 16}
TIMEOUT = {"quick": 200, "thorough": 1500}

EPS = 1e-6
SPACING = 0.02
PEER = ("10.0.0.9", 3671)
WAITS = (0, 1, 5, 10, 20, 30, 50, 99, 100, 101, 200, 500, 1000, 2000)
BUSY_GAPS = (0.0, 0.0, 0.001, 0.005, 0.0099, 0.01, 0.0101, 0.011, 0.02, 0.03, 0.05, 0.1, 0.25)
SEND_GAPS = (0.0, 0.0, 0.0, 0.001, 0.01, 0.019, 0.02, 0.021, 0.05, 0.2)
RANDS = (0.0, 0.5, 0.999999)


def gen_spec(rng, index):
    mode = rng.choices(("sequential", "io-gap", "concurrent"), (10, 2, 1))[0]
    spec = {"seed": rng.randrange(1 << 30), "mode": mode, "rand": [rng.choice((*RANDS, rng.random())) for _ in range(6)]}
    if mode == "io-gap":
        spec.update(
            first={"t": rng.choice((0.0, 0.003, 0.05)), "wait": rng.choice((1, 20, 50, 100, 500))},
            second_wait=rng.choice((0, 10, 50, 100, 1000)),
            iteration_offset=rng.randrange(0, 5),
            sends=[{"gap": rng.choice((0.0, 0.001, 0.03))} for _ in range(rng.randrange(1, 4))],
        )
        return spec
    sends = [{"gap": rng.choice((*SEND_GAPS, rng.uniform(0, 0.3)))} for _ in range(rng.randrange(1, 15))]
    busy = []
    t = rng.choice((0.0, 0.0005, 0.01, 0.05, rng.uniform(0, 0.3)))
    for _ in range(rng.choice((0, 1, 1, 2, 3, 4, 6, 8, 12))):
        w = rng.choice((*WAITS, rng.randrange(0, 2001)))
        busy.append({"t": round(t, 6), "wait": w})
        prev_end = t + w / 1000
        kind = rng.random()
        if kind < 0.45:
            t += rng.choice(BUSY_GAPS)
        elif kind < 0.7:
            # relative to the end of the pause just announced: at, around, in the slow-down phase
            t = max(t, prev_end + rng.choice((-0.011, -0.001, -1e-7, 0.0, 0.0, 1e-7, 0.001, 0.004, 0.02, 0.049, 0.05, 0.1, 0.104, 0.2)))
        else:
            t += rng.uniform(0, 0.4)
    if mode == "sequential" and rng.random() < 0.3:
        # the same Routing object is stopped and started again (1-2 times) between sends; the statement does not reset on a restart
        for _ in range(rng.choice((1, 1, 2))):
            pos = rng.randrange(0, len(sends) + 1)
            sends.insert(pos, {"gap": rng.choice((0.0, 0.0, 0.001, 0.01, 0.1)), "restart": rng.choice((0.0, 0.0, 0.001, 0.005, 0.05, 0.3))})
            if pos + 1 < len(sends) and rng.random() < 0.6:
                sends[pos + 1] = {"gap": rng.choice((0.0, 0.0, 0.001, 0.01))}
    spec.update(
        sends=sends,
        busy=busy,
        noise=[{"t": round(rng.uniform(0, 1.0), 4), "kind": rng.choice(("indication", "lost"))} for _ in range(rng.choice((0, 0, 1, 3)))],
        senders=1 if mode == "sequential" else rng.choice((2, 3)),
    )
    return spec


def make_cemi(rng):
    tg = Telegram(destination_address=GroupAddress(rng.randrange(1, 65536)), payload=GroupValueWrite(DPTArray((rng.randrange(256), rng.randrange(256)))))
    return CEMIFrame(code=CEMIMessageCode.L_DATA_REQ, data=CEMILData.init_from_telegram(tg, src_addr=IndividualAddress(rng.randrange(1, 65536))))


class Shadow:
    """Exact model of the busy counter (cooldown, slow duration, 5 ms decrement); non-gating."""

    def __init__(self):
        self.n = 0
        self.wait_start = None
        self.wait_ms = 0
        self.last_busy = 0.0
        self.resume_at = None  # pending timer: ready is set at this time
        self.slow_until = None
        self.cleared_at = None
        self.intervals = []  # [clear, set) during which sending is paused
        self.ambiguous = False

    def advance(self, t):
        """Run the resume timer phases that lie before t."""
        if self.resume_at is not None:
            if abs(t - self.resume_at) < 1e-8:
                self.ambiguous = True
            if self.resume_at < t:
                self.intervals.append((self.cleared_at, self.resume_at))
                self.cleared_at = None
                self.wait_start = None
                self.slow_until = self.resume_at + self.slow
                self.resume_at = None
        if self.slow_until is not None and self.resume_at is None:
            # decrement every 5 ms after the slow duration
            k = 0
            while self.n - k > 0 and self.slow_until + (k + 1) * 0.005 < t:
                k += 1
            if self.n - k > 0 and abs(self.slow_until + (k + 1) * 0.005 - t) < 1e-8:
                self.ambiguous = True
            self.n -= k
            self.slow_until += k * 0.005
            if self.n == 0:
                self.slow_until = None

    def busy(self, t, wait, rand_at):
        self.advance(t)
        if self.cleared_at is None:
            self.cleared_at = t
        prev = self.last_busy
        self.last_busy = t
        if self.wait_start is not None:
            if abs((t - prev) - 0.01) < 1e-8:
                self.ambiguous = True
            if (t - prev) > 0.01:
                self.n += 1
            remaining = self.wait_ms - (t - self.wait_start) * 1000
            if abs(remaining - wait) < 1e-6:
                self.ambiguous = True
            if remaining >= wait:
                return
        self.wait_ms = wait
        self.wait_start = t
        r = rand_at(t)
        if r is None:
            self.ambiguous = True
            r = 0.0
        self.resume_at = t + (wait / 1000 + r * self.n * 0.05)
        self.slow = self.n * 0.1
        self.slow_until = None

    def finish(self):
        self.advance(float("inf"))

    def paused_until(self, t):
        """None if sending is allowed at t, else the instant it is allowed again; 'amb' on a boundary."""
        for a, b in self.intervals:
            if abs(t - a) < 1e-8 or abs(t - b) < 1e-8:
                return "amb"
            if a < t < b:
                return b
        return None


def install_io_phase_injector(loop):
    """Run callables exactly where a selector would queue a reader callback: after select(), before the timers of that iteration."""
    pending = []
    orig = loop._process_events

    def hooked(event_list):
        orig(event_list)
        now = loop.time()
        for p in list(pending):
            if now >= p["at"] - 1e-9:
                if p["iterations"] == 0:
                    pending.remove(p)
                    loop.call_soon(p["fn"])
                else:
                    p["iterations"] -= 1

    loop._process_events = hooked
    return pending


def run_history(ctx, spec):
    rng = random.Random(spec["seed"])
    patch_multicast()
    loop = new_loop()
    rand_calls = []

    def scripted_random():
        v = spec["rand"][len(rand_calls) % len(spec["rand"])]
        rand_calls.append((loop.time(), v))
        return v

    cons = []  # (time, bytes) handed to cemi_received_callback
    busy_log = []  # (time, wait, wire position)
    sends = []  # dicts
    kinds = []
    st = {"t0": None}

    def callback(raw):
        cons.append((loop.time(), bytes(raw), len(loop.wire)))

    def listener():
        live = [t for t in loop.datagram_transports if t.kind == "multicast_listener" and not t.closed]
        return live[-1] if live else None

    def deliver(raw):
        tr = listener()
        if tr is not None:
            try:
                tr.deliver(raw, PEER)
            except Exception as exc:  # noqa: BLE001 - recorded; what it does to sending is judged (a stalled send is a violation)
                kinds.append("raised-" + type(exc).__name__)
                ctx.count("delivery_raised_" + type(exc).__name__)

    def deliver_busy(wait):
        if listener() is None:
            ctx.count("busy_frames_while_interface_down_not_received")
            return
        busy_log.append((loop.time(), wait, len(loop.wire)))
        # device state and control field vary: the pause rule of the statement does not depend on them
        control = rng.choice((0, 0, 1, 0xFFFF, rng.randrange(65536)))
        ctx.count("busy_frames_control_field_" + ("zero" if control == 0 else "nonzero"))
        deliver(KNXIPFrame.init_from_body(RoutingBusy(device_state=rng.choice((0, 0, 1, 3)), wait_time=wait, control_field=control)).to_knx())
        kinds.append(f"B{wait}")

    async def sender(routing, plan, name):
        for item in plan:
            if item["gap"]:
                await asyncio.sleep(item["gap"])
            if "restart" in item:
                await routing.disconnect()
                if item["restart"]:
                    await asyncio.sleep(item["restart"])
                await routing.connect()
                kinds.append("restart")
                ctx.count("restarts_of_the_same_routing_object")
                continue
            cemi = make_cemi(rng)
            rec = {"sender": name, "call": loop.time(), "wire_at_call": len(loop.wire), "cons_at_call": len(cons), "returned": None}
            sends.append(rec)
            expected = bytes((0x2E,)) + cemi.to_knx()[1:]  # the frame that was sent, as L_Data.con
            await routing.send_cemi(cemi)
            rec["returned"] = loop.time()
            rec["cons_during"] = [c for c in cons[rec["cons_at_call"]:] if c[1][:1] == b"\x2e"]
            rec["expected_con"] = expected

    async def injector():
        t0 = st["t0"]
        events = [(b["t"], "busy", b["wait"]) for b in spec.get("busy", [])] + [(n["t"], n["kind"], None) for n in spec.get("noise", [])]
        for t, kind, arg in sorted(events, key=lambda e: e[0]):
            delay = t0 + t - loop.time()
            if delay > 0:
                await asyncio.sleep(delay)
            if kind == "busy":
                deliver_busy(arg)
            elif kind == "indication":
                ind = make_cemi(rng)
                ind.code = CEMIMessageCode.L_DATA_IND
                deliver(KNXIPFrame.init_from_body(RoutingIndication(raw_cemi=ind.to_knx())).to_knx())
            else:
                deliver(KNXIPFrame.init_from_body(RoutingLostMessage(lost_messages=3)).to_knx())

    async def main():
        xknx = XKNX()
        routing = Routing(xknx, individual_address=None, cemi_received_callback=callback, local_ip="10.0.0.1")
        await routing.connect()
        await asyncio.sleep(0.1)
        st["t0"] = loop.time()
        tasks = []
        if spec["mode"] == "io-gap":
            pending = install_io_phase_injector(loop)
            first = spec["first"]

            async def first_busy():
                await asyncio.sleep(first["t"])
                deliver_busy(first["wait"])
                # the pause ends at (start of the resume task = now) + wait; N = 0, so no random extension
                pending.append({"at": loop.time() + first["wait"] / 1000, "iterations": spec["iteration_offset"], "fn": lambda: deliver_busy(spec["second_wait"])})

            tasks.append(asyncio.create_task(first_busy()))
            plan = [{"gap": first["t"] + 0.0005 + spec["sends"][0]["gap"]}, *spec["sends"][1:]]
            tasks.append(asyncio.create_task(sender(routing, plan, "s0")))
        else:
            tasks.append(asyncio.create_task(injector()))
            n = spec["senders"]
            for i in range(n):
                tasks.append(asyncio.create_task(sender(routing, spec["sends"][i::n], f"s{i}")))
        await asyncio.gather(*tasks)
        await asyncio.sleep(0.05)
        await routing.disconnect()

    saved = random.random
    random.random = scripted_random
    outcome = "done"
    try:
        loop.run(main(), max_vtime=600)
    except Deadlock:
        outcome = "deadlock"
    except LoopBudget:
        outcome = "budget"
    finally:
        random.random = saved
    exceptions = list(loop.exceptions)
    loop.finish()

    # ---- observations --------------------------------------------------------
    tx = []  # (time, wire position, cemi bytes)
    for pos, (t, d, data, addr, tr) in enumerate(loop.wire):
        if d == "tx" and data[2:4] == b"\x05\x30":
            tx.append((t, pos, data[6:]))
    sequential = spec["mode"] != "concurrent"
    base = {"spec": spec, "t0": st["t0"], "busy": [(round(t - st["t0"], 9), w) for t, w, _ in busy_log], "tx": [round(t - st["t0"], 9) for t, _, _ in tx],
            "sends": [{"call": round(s["call"] - st["t0"], 9), "returned": None if s["returned"] is None else round(s["returned"] - st["t0"], 9), "sender": s["sender"]} for s in sends],
            "random_calls": [(round(t - st["t0"], 9), v) for t, v in rand_calls]}
    ctx.count("histories_" + spec["mode"])
    ctx.count("busy_frames", len(busy_log))
    ctx.count("routing_indications", len(tx))
    ctx.count("random_extension_draws", len(rand_calls))
    for e in exceptions:
        ctx.count("loop_handler_" + str(e.get("type")))

    # every send completes (bounded progress)
    ctx.ev()
    unfinished = [s for s in sends if s["returned"] is None]
    if outcome != "done" or unfinished:
        ctx.violation(
            "send-never-completes-after-pause" if busy_log else "send-never-completes", dict(base, outcome=outcome),
            f"{len(unfinished)} send_cemi call(s) never returned ({outcome} on the virtual loop)",
        )
        ctx.distinct((spec["mode"], outcome, " ".join(kinds)))
        return kinds

    # exactly one confirmation per routed send
    con_frames = [c for c in cons if c[1][:1] == b"\x2e"]
    ctx.count("confirmations", len(con_frames))
    ctx.ev()
    if len(con_frames) != len(sends) or len(tx) != len(sends):
        ctx.violation(
            "confirmation-count-differs-from-sends", dict(base, confirmations=len(con_frames), indications=len(tx)),
            f"{len(sends)} routed sends produced {len(con_frames)} L_Data.con and {len(tx)} RoutingIndications",
        )
    else:
        want = sorted(s["expected_con"] for s in sends)
        if sorted(c[1] for c in con_frames) != want:
            ctx.violation("confirmation-is-not-the-sent-frame", dict(base, confirmations=[c[1] for c in con_frames], expected=want), "the local L_Data.con frames are not the frames that were sent")
        if sequential:
            for s in sends:
                if len(s["cons_during"]) != 1:
                    ctx.violation(
                        "confirmation-not-delivered-within-its-send", dict(base, send=s["call"] - st["t0"], count=len(s["cons_during"])),
                        f"send_cemi returned with {len(s['cons_during'])} L_Data.con delivered during the call",
                    )

    # spacing
    for (a, _, _), (b, _, _) in zip(tx, tx[1:], strict=False):
        ctx.ev()
        if b - a < SPACING - EPS:
            # judged for concurrent senders too (management acknowledgements are sent beside queue traffic):
            # the statement says "consecutive routing indications", whoever sends them
            mech = "indications-closer-than-20ms" if sequential else "indications-of-concurrent-senders-closer-than-20ms"
            ctx.violation(mech, dict(base, first=a - st["t0"], second=b - st["t0"]), f"two RoutingIndications {1000 * (b - a):.3f} ms apart ({spec['mode']} senders)")
        else:
            ctx.count("spacing_ok" if sequential else "concurrent_spacing_ok")

    # the pause rule, robust bounds
    order = sorted(range(len(sends)), key=lambda i: sends[i]["call"])
    for k, (s_t, s_pos, _) in enumerate(tx):
        ctx.ev()
        hi = s_t  # upper bound under construction
        bound = max(sends[order[k]]["call"] if sequential and k < len(order) else 0.0, (tx[k - 1][0] + SPACING) if k else 0.0)
        seen = sum(1 for b in busy_log if b[2] < s_pos)  # the extension is at most (busy frames seen) x 50 ms, whenever it is drawn
        for b_t, wait, b_pos in busy_log:
            if b_pos >= s_pos:
                continue  # handed to the protocol after this indication left
            end = b_t + wait / 1000
            bound = max(bound, end + seen * 0.05 + 0.001)  # + 1 ms: a pause resumed after a restart may be rounded up to whole ms
            if s_t < end - EPS:
                same = abs(s_t - b_t) < 1e-9
                mech = "indication-sent-in-same-instant-after-busy-frame" if same else "indication-sent-during-announced-wait"
                if not sequential:
                    mech += "-concurrent-senders"
                ctx.violation(
                    mech, dict(base, busy_at=b_t - st["t0"], wait_ms=wait, sent_at=s_t - st["t0"], iteration_offset=spec.get("iteration_offset")),
                    f"RoutingIndication left {1000 * (s_t - b_t):.3f} ms after a busy frame announcing {wait} ms was received",
                )
                break
        else:
            ctx.count("sent_outside_every_announced_wait")
        if sequential and hi > bound + SPACING + EPS:
            ctx.violation(
                "indication-later-than-pause-plus-extension-bound", dict(base, sent_at=s_t - st["t0"], bound=bound - st["t0"]),
                f"RoutingIndication left {1000 * (hi - bound):.1f} ms after the latest instant the pause rule allows",
            )

    # shadow: exact busy-counter model
    if sequential:
        sh = Shadow()

        def rand_at(t):
            hits = [v for (ct, v) in rand_calls if abs(ct - t) < 1e-9]
            return hits[-1] if hits else None

        for b_t, wait, _ in busy_log:
            sh.busy(b_t, wait, rand_at)
        sh.finish()
        if spec["mode"] == "io-gap" or any("restart" in i for i in spec["sends"]):
            sh.ambiguous = True  # the model does not describe a restarted interface; pause rule, bounds and spacing are judged across the restart
        prev = None
        for k, (s_t, _, _) in enumerate(tx):
            call = sends[order[k]]["call"]
            t1 = call if prev is None or call - prev >= SPACING else prev + SPACING
            p = sh.paused_until(t1)
            prev = s_t
            if sh.ambiguous or p == "amb":
                ctx.count("shadow_not_compared_boundary_case")
                continue
            pred = t1 if p is None else p
            if abs(pred - s_t) > 1e-6:
                # promoted to gating after 0 disagreements in > 10^6 comparisons on the unchanged and the repaired tree (quick seeds 0..7, thorough 0..1)
                ctx.count("shadow_disagreements")
                how = "earlier" if s_t < pred else "later"
                ctx.violation(
                    f"indication-{how}-than-wait-plus-random-extension-of-busy-counter-model",
                    dict(base, predicted=pred - st["t0"], observed=s_t - st["t0"]),
                    f"RoutingIndication left {1000 * abs(s_t - pred):.3f} ms {how} than wait + random() x N x 50 ms of the busy-frame counter model (N: +1 per busy frame > 10 ms after the previous one while pausing, -1 every 5 ms after N x 100 ms)",
                )
            else:
                ctx.count("shadow_agreements")
    kinds_s = " ".join(kinds)
    ctx.distinct((spec["mode"], len(sends), kinds_s, tuple(round((t - st["t0"]) * 1000) for t, _, _ in tx)[:6]))
    return kinds


def run(ctx):
    ctx.rule = (
        "history = send plan (1..14 sends, gaps) x busy plan (0..12 frames: waits 0..2000 ms, gaps around the 10 ms cooldown, arrivals around the end of the announced pause "
        "and in the slow-down phase) x scripted random extension; io-gap: second busy frame queued in the I/O phase of iteration k+j after the pause end; "
        "distinct = (mode, number of sends, busy waits in arrival order, first send instants in ms)"
    )
    ctx.require("busy_frames_control_field_zero", "busy_frames_control_field_nonzero", "restarts_of_the_same_routing_object", "histories_sequential", "histories_io-gap", "histories_concurrent", "concurrent_spacing_ok", "busy_frames", "routing_indications", "confirmations", "spacing_ok",
                "sent_outside_every_announced_wait", "random_extension_draws", "shadow_agreements")
    n = ctx.scale(1500, 400000)
    for i in range(n):
        spec = gen_spec(ctx.rng, i)
        if not ctx.mine(i):
            continue
        kinds = run_history(ctx, spec)
        if i < 3:
            ctx.sample({"spec": spec, "busy_events": " ".join(kinds)})


def replay(ctx, witness):
    run_history(ctx, witness["spec"])
    ctx.distinct("replay-a")
    ctx.distinct("replay-b")
