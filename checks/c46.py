"""C46 automatic connection never downgrades a secured gateway; GatewayScanFilter.match predicate."""

from __future__ import annotations

import asyncio
import itertools

from xknx import XKNX
from xknx.exceptions import CommunicationError, InvalidSecureConfiguration
from xknx.io import ConnectionConfig, GatewayScanFilter, SecureConfig
from xknx.io.gateway_scanner import GatewayDescriptor, GatewayScanner
from xknx.io.knxip_interface import KNXIPInterface
from xknx.knxip import HPAI, DIBServiceFamily, KNXIPFrame, SearchResponse, SearchResponseExtended
from xknx.knxip.dib import DIBDeviceInformation, DIBGeneric, DIBSecuredServiceFamilies, DIBSuppSVCFamilies
from xknx.knxip.knxip_enum import DIBTypeCode
from xknx.secure.keyring import InterfaceType, Keyring, XMLInterface
from xknx.telegram import IndividualAddress
from xknx.telegram.address import GroupAddress, GroupAddressType

LEVEL = "exploration"
TECHNIQUE = (
    "runtime monitor: the real KNXIPInterface.start/_start_automatic driven over every announced-capability x scan-filter x keyring "
    "combination (search responses serialised, re-parsed and passed through the real GatewayScanner._response_rec_callback), with the "
    "_start_* methods replaced by recording stubs; decided by the stub call log against the announced secured families, and "
    "GatewayScanFilter.match against the predicate of the statement"
)
LEVEL_TEXT = (
    "Exhaustive product of announced capabilities (core version none/1/2, tunnelling none/v1/v2, routing, security family, secured-families "
    "DIB absent/empty/{tunnelling}/{routing}/both, device address present/absent, extended or plain search response) x all 32 scan-filter "
    "flag sets (+ None-valued and name filters) x 7 keyring situations, each run through the real automatic start; Core-V2 gateways "
    "additionally answer both search requests (legacy answer without secured-families DIB before the extended one, and after it with the "
    "secure attempt failing for lack of credentials); the capability sets announcing a secured service are also answered with every arrangement of their DIBs (all permutations, duplicated "
    "DIBs, a foreign DIB in between) and with other version octets in the family entries (supported DIB 255 / 0, secured DIB 0 / 2 / 255); plus generated sequences of 2-4 gateways (single or double answers, rearranged DIBs) with failing "
    "connection attempts. The single-gateway product is completed (exhaustive); sequences are sampled."
)
LEVEL_NOTE = (
    "Trusted: CPython, asyncio. GatewayScanner.async_scan is replaced (class level, restored) by a generator that feeds real parsed "
    "SearchResponse(Extended) frames to the real _response_rec_callback and yields what it queued; no socket is opened. Ground truth for "
    "'announces the service as secured' is the generated secured-families DIB (of the extended answer; the set of DIBs, whatever their order, repetition or neighbours), not the parsed descriptor. Judged: any _start_tunnelling_udp/"
    "_start_tunnelling_tcp call for a gateway announcing secured tunnelling, any _start_routing call for a gateway announcing secured "
    "routing; GatewayScanFilter.match against the predicate '(no name configured or it equals the device name) and an enabled method is supported "
    "and its security requirement agrees'; a family listed in the secured-families DIB is secured whatever its version octet. Not judged (recorded): a gateway that passes the filter but for which no start method exists (reported as connected without "
    "interface), which gateway wins, keyring skipping, whether a family listed with version octet 0 in the supported-families DIB is "
    "supported, the cell where 'secure tunnelling supported' is ambiguous "
    "(tunnelling v1 only + secured tunnelling)."
)

SHARDS = {"quick": 1, "thorough": 8}
TIMEOUT = {"quick": 300, "thorough": 3000}

GW_IA = "1.0.0"
START_METHODS = ("_start_tunnelling_udp", "_start_tunnelling_tcp", "_start_secure_tunnelling_tcp", "_start_routing", "_start_secure_routing")


# ---------------------------------------------------------------- capabilities
class Caps:
    """Generated ground truth of what one gateway announces."""

    __slots__ = ("core", "extended", "has_ia", "index", "routing", "sec_ver", "secured", "security", "tunnelling", "zero_versions")

    def __init__(self, core, tunnelling, routing, security, secured, has_ia, extended, index=0, sec_ver=1, zero_versions=False):
        self.sec_ver = sec_ver        # version octet written for the tunnelling/routing entries of the secured-families DIB
        self.zero_versions = zero_versions  # tunnelling/routing entries of the supported-families DIB carry version octet 0
        self.core = core              # 0 = family absent, else version
        self.tunnelling = tunnelling  # 0 / 1 / 2
        self.routing = routing        # 0 / 1
        self.security = security      # 0 / 1
        self.secured = secured        # None (DIB absent) or frozenset of "T", "R"
        self.has_ia = has_ia
        self.extended = extended
        self.index = index

    def key(self):
        return (self.core, self.tunnelling, self.routing, self.security,
                None if self.secured is None else "".join(sorted(self.secured)), self.has_ia, self.extended, self.sec_ver, self.zero_versions)

    def as_dict(self):
        return {"core_version": self.core, "tunnelling_version": self.tunnelling, "routing_version": self.routing,
                "security_version": self.security, "secured_families_dib": None if self.secured is None else sorted(self.secured),
                "device_info_dib": self.has_ia, "extended_response": self.extended,
                "secured_entry_version_octet": self.sec_ver, "supported_entry_version_octet_zero": self.zero_versions}

    def version_variants(self):
        """The same announcement with other version octets in the family entries (supported DIB: 255 / 0; secured DIB: 0, 2, 255).

        A family listed in the secured-families DIB is announced as secured whatever its version octet says."""
        if not self.extended:
            return []
        out = {}
        for supp in (None, 255, "zero"):
            if supp is not None and not (self.tunnelling or self.routing):
                continue
            for sec_ver in (1, 0, 2, 255):
                if sec_ver != 1 and not (self.t_secured or self.r_secured):
                    continue
                if supp is None and sec_ver == 1:
                    continue
                c = Caps(self.core, 255 if supp == 255 and self.tunnelling else self.tunnelling,
                         255 if supp == 255 and self.routing else self.routing, self.security, self.secured, self.has_ia, True,
                         index=self.index, sec_ver=sec_ver, zero_versions=(supp == "zero"))
                out[c.key()] = c
        return list(out.values())

    def variant_class(self):
        parts = []
        if self.sec_ver != 1:
            parts.append(f"secured-family-version-octet-{self.sec_ver}")
        if self.zero_versions:
            parts.append("supported-family-version-octet-0")
        if 255 in (self.tunnelling, self.routing):
            parts.append("supported-family-version-octet-255")
        return "+".join(parts) or "usual-version-octets"

    @property
    def t_secured(self):
        return self.secured is not None and "T" in self.secured

    @property
    def r_secured(self):
        return self.secured is not None and "R" in self.secured

    def modes(self):
        """Response multisets this gateway can show. A Core-V2 device answers both search requests xknx sends; the legacy answer
        carries no secured-families DIB. Dual answers are only generated for Core-V2 (Core-V1 devices know neither the extended
        search nor secure services)."""
        if not self.extended:
            return ("legacy",)
        if self.core >= 2:
            return ("ext", "legacy+ext", "ext+legacy")
        return ("ext",)

    def frames(self, ip: str, mode: str, layout=None):
        """[(kind, parsed frame)] in arrival order for a response mode (layout applies to the extended answer)."""
        return [(kind, self.frame(ip, extended=(kind == "ext"), layout=layout if kind == "ext" else None)) for kind in mode.split("+")]

    def dib_names(self, extended=None):
        """Names of the DIBs this gateway's answer consists of (default order)."""
        extended = self.extended if extended is None else extended
        names = (["dev"] if self.has_ia else []) + ["supp"]
        if self.secured is not None and extended:
            names.append("sec")
        return tuple(names)

    def layouts(self):
        """DIB arrangements of the extended answer: every permutation, duplicated DIBs, a foreign DIB in between.

        What the gateway announces is the set of DIBs; their order, repetition or neighbours do not change it."""
        names = self.dib_names(True)
        out = list(itertools.permutations(names))
        if "sec" in names:
            out += [("supp", "sec", "supp") + (("dev",) if self.has_ia else ()),
                    ("sec", "supp", "sec") + (("dev",) if self.has_ia else ()),
                    ("sec", "sec", "supp", "supp") + (("dev",) if self.has_ia else ()),
                    tuple(n for x in names for n in (x, "other"))[:-1],
                    ("sec", "other", "supp") + (("dev",) if self.has_ia else ())]
        else:
            out += [names + ("supp",), tuple(n for x in names for n in (x, "other"))]
        return [lay for lay in dict.fromkeys(out) if lay != names]

    def frame(self, ip: str, extended=None, layout=None):
        extended = self.extended if extended is None else extended
        body = (SearchResponseExtended if extended else SearchResponse)(control_endpoint=HPAI(ip, 3671))
        dibs = []
        if self.has_ia:
            dev = DIBDeviceInformation()
            dev.individual_address = IndividualAddress(GW_IA)
            dev.name = "gw"
            dev.serial_number = "00:01:02:03:04:05"
            dev.mac_address = "00:01:02:03:04:05"
            dibs.append(dev)
        supp = DIBSuppSVCFamilies()
        fam = DIBSuppSVCFamilies.Family
        if self.core:
            supp.families.append(fam(DIBServiceFamily.CORE, self.core))
        supp.families.append(fam(DIBServiceFamily.DEVICE_MANAGEMENT, 1))
        if self.tunnelling:
            supp.families.append(fam(DIBServiceFamily.TUNNELING, 0 if self.zero_versions else self.tunnelling))
        if self.routing:
            supp.families.append(fam(DIBServiceFamily.ROUTING, 0 if self.zero_versions else self.routing))
        if self.security:
            supp.families.append(fam(DIBServiceFamily.SECURITY, self.security))
        dibs.append(supp)
        if self.secured is not None and extended:
            sec = DIBSecuredServiceFamilies()
            sec.families.append(DIBSecuredServiceFamilies.Family(DIBServiceFamily.DEVICE_MANAGEMENT, 1))
            if "T" in self.secured:
                sec.families.append(DIBSecuredServiceFamilies.Family(DIBServiceFamily.TUNNELING, self.sec_ver))
            if "R" in self.secured:
                sec.families.append(DIBSecuredServiceFamilies.Family(DIBServiceFamily.ROUTING, self.sec_ver))
            dibs.append(sec)
        if layout is not None:
            by_name = dict(zip(self.dib_names(extended), dibs, strict=True))
            other = DIBGeneric()
            other.dtc = DIBTypeCode.MFR_DATA
            other.data = b"\x00\xc5\x01\x04"
            by_name["other"] = other
            dibs = [by_name[n] for n in layout]
        body.dibs = dibs
        raw = KNXIPFrame.init_from_body(body).to_knx()
        parsed, _rest = KNXIPFrame.from_knx(raw)   # through the real serialiser and parser
        return parsed


def layout_class(layout) -> str:
    """Coarse, stable name of a DIB arrangement (for mechanism strings)."""
    if layout is None:
        return "default-dib-order"
    parts = []
    if "sec" in layout and "supp" in layout and layout.index("sec") < layout.index("supp"):
        parts.append("secured-families-dib-before-supported-families-dib")
    if len(set(layout)) < len(layout):
        parts.append("duplicated-dib")
    if "other" in layout:
        parts.append("foreign-dib-in-between")
    return "+".join(parts) or "permuted-dib-order"


def all_caps():
    out = []
    secured_opts = (None, frozenset(), frozenset("T"), frozenset("R"), frozenset("TR"))
    for core, tun, rout, sec, secured, has_ia in itertools.product((0, 1, 2), (0, 1, 2), (0, 1), (0, 1), secured_opts, (True, False)):
        out.append(Caps(core, tun, rout, sec, secured, has_ia, True))
        if secured is None:
            out.append(Caps(core, tun, rout, sec, secured, has_ia, False))
    for i, c in enumerate(out):
        c.index = i
    return out


# ---------------------------------------------------------------- predicate of the statement
def ref_name_ok(name, caps: Caps) -> bool:
    """The device name the generated gateways carry is 'gw' (device-info DIB present); without that DIB there is no such name."""
    return name is None or (caps.has_ia and name == "gw")


def ref_filter_match(flags, caps: Caps):
    """(strict, lenient) reading of 'one of its enabled methods is supported and its security requirement agrees'.

    flags = (tunnelling, tunnelling_tcp, routing, secure_tunnelling, secure_routing), truthiness = enabled.
    The two readings differ only in whether secure tunnelling counts as supported by a tunnelling-v1-only device.
    """
    tun, tcp, rout, stun, srout = (bool(f) for f in flags)
    has_udp = caps.tunnelling >= 1
    has_tcp = caps.tunnelling >= 2
    has_routing = caps.routing >= 1
    base = (
        (tun and has_udp and not caps.t_secured)
        or (tcp and has_tcp and not caps.t_secured)
        or (rout and has_routing and not caps.r_secured)
        or (srout and has_routing and caps.r_secured)
    )
    strict = base or (stun and has_tcp and caps.t_secured)
    lenient = base or (stun and has_udp and caps.t_secured)
    return strict, lenient


# ---------------------------------------------------------------- harness around the real code
class Scenario:
    """What the fake network offers during one automatic start."""

    def __init__(self):
        self.gateways: list[tuple] = []     # (caps, ip, [(kind, parsed frame)] in arrival order, DIB layout of the extended answer | None)
        self.outcomes: dict[str, str] = {}                   # ip -> "ok" | "comm" | "secure"
        self.log: list[tuple] = []
        self.current: int | None = None


SCN = Scenario()


class _FakeUDP:
    local_addr = ("10.0.0.1", 0)


async def fake_async_scan(self):
    """Replacement of GatewayScanner.async_scan: real response handling and filtering, no network."""
    queue: asyncio.Queue = asyncio.Queue()
    # all answers are received (in the scripted order) while the consumer is busy with the first one, as on a real network
    arrivals = []
    for pos, (_caps, ip, frames, _layout) in enumerate(SCN.gateways):
        for kind, frame in frames:
            self._response_rec_callback(frame, HPAI(ip, 3671), _FakeUDP, interface="veth0", queue=queue)
            if queue.empty():
                SCN.log.append(("not_offered", pos, kind))
            while not queue.empty():
                arrivals.append((pos, kind, queue.get_nowait()))
    for pos, kind, gateway in arrivals:
        SCN.current = pos
        SCN.log.append(("offered", pos, kind))
        yield gateway


def _make_stub(name):
    async def stub(self, *args, **kwargs):
        ip = kwargs.get("gateway_ip")
        SCN.log.append(("start", name, SCN.current, ip))
        key = ip if ip is not None else (SCN.gateways[SCN.current][1] if SCN.current is not None else None)
        outcome = SCN.outcomes.get(key, "ok")
        if outcome == "comm":
            raise CommunicationError("scripted")
        if outcome == "secure" or (outcome == "nosec" and "secure" in name):
            raise InvalidSecureConfiguration("scripted")
    stub.__name__ = name
    return stub


class Patched:
    """Class-level replacement of the scan and the _start_* methods; restored on exit."""

    def __enter__(self):
        self.saved_scan = GatewayScanner.__dict__["async_scan"]
        self.saved = {n: KNXIPInterface.__dict__[n] for n in START_METHODS}
        GatewayScanner.async_scan = fake_async_scan
        for n in START_METHODS:
            setattr(KNXIPInterface, n, _make_stub(n))
        return self

    def __exit__(self, *exc):
        GatewayScanner.async_scan = self.saved_scan
        for n, f in self.saved.items():
            setattr(KNXIPInterface, n, f)
        return False


_KEYRING_CACHE: dict = {}
_XKNX: list = []


def make_keyring(kind: str):
    """Keyring situations (built once, never modified by the code under test). Returns (keyring | None, configured address | None)."""
    if kind not in _KEYRING_CACHE:
        _KEYRING_CACHE[kind] = _make_keyring(kind)
    return _KEYRING_CACHE[kind]


def _make_keyring(kind: str):
    if kind == "none":
        return None, None
    keyring = Keyring()

    def add(iface_type, ia, host, user_id):
        itf = XMLInterface()
        itf.type = iface_type
        itf.individual_address = IndividualAddress(ia)
        itf.host = IndividualAddress(host) if host else None
        itf.user_id = user_id
        itf.group_addresses = {}
        keyring.interfaces.append(itf)

    if kind in ("host_listed", "ia_slot_of_gateway", "ia_slot_of_other", "ia_unknown"):
        add(InterfaceType.TUNNELING, "1.0.5", GW_IA, 2)
        add(InterfaceType.TUNNELING, "9.9.5", "9.9.9", 3)
        add(InterfaceType.USB, "1.0.9", None, None)
    elif kind == "host_not_listed":
        add(InterfaceType.TUNNELING, "9.9.5", "9.9.9", 3)
    elif kind == "no_tunnel_interfaces":
        add(InterfaceType.USB, "1.0.9", None, None)
    ia = {"ia_slot_of_gateway": "1.0.5", "ia_slot_of_other": "9.9.5", "ia_unknown": "5.5.5"}.get(kind)
    return keyring, ia


KEYRINGS = ("none", "host_listed", "host_not_listed", "no_tunnel_interfaces", "ia_slot_of_gateway", "ia_slot_of_other", "ia_unknown")


def filter_variants():
    """(flags tuple, name) for the scan filter. All 32 boolean flag sets, then None-valued and named ones."""
    out = [(flags, None) for flags in itertools.product((True, False), repeat=5)]
    out += [((None, None, None, None, None), None), ((None, True, None, True, None), None), ((True, None, True, None, True), None)]
    out += [((True, True, True, True, True), "gw"), ((True, True, True, True, True), "other")]
    return out


def named_extra_variants():
    """A name that fits, methods that may not: the name never replaces the method / security rule."""
    return [((False, False, False, True, False), "gw"), ((True, True, True, False, False), "gw"), ((False, False, False, False, True), "gw"),
            ((False, False, False, False, False), "gw"), ((False, True, False, False, False), "other")]


def make_filter(flags, name):
    return GatewayScanFilter(name=name, tunnelling=flags[0], tunnelling_tcp=flags[1], routing=flags[2],
                             secure_tunnelling=flags[3], secure_routing=flags[4])


async def run_start(gateways, outcomes, flags, name, keyring_kind, use_default_filter=False):
    """One automatic start. Returns (result string, log)."""
    SCN.gateways = gateways
    SCN.outcomes = outcomes
    SCN.log = []
    SCN.current = None
    keyring, ia = make_keyring(keyring_kind)
    config = ConnectionConfig(
        individual_address=ia,
        scan_filter=None if use_default_filter else make_filter(flags, name),
        secure_config=SecureConfig(keyring=keyring) if keyring is not None else None,
    )
    if not _XKNX:
        _XKNX.append(XKNX())   # one instance: the start only uses its cemi_handler.data_secure_init and multicast settings
    interface = KNXIPInterface(_XKNX[0], config)
    try:
        await interface.start()
        result = "connected"
    except CommunicationError:
        result = "CommunicationError"
    except InvalidSecureConfiguration:
        result = "InvalidSecureConfiguration"
    except BaseException as exc:  # noqa: BLE001
        result = "unexpected:" + type(exc).__name__ + ":" + str(exc)[:120]
    return result, SCN.log


def offending_starts(log, gateways):
    """Methods of the unsecured starts in a log that the statement forbids (no recording)."""
    out = set()
    for entry in log:
        if entry[0] == "start" and entry[2] is not None:
            caps = gateways[entry[2]][0]
            if (entry[1] in ("_start_tunnelling_udp", "_start_tunnelling_tcp") and caps.t_secured) or (entry[1] == "_start_routing" and caps.r_secured):
                out.add(entry[1])
    return out


def judge_log(ctx, log, gateways, flags, name, keyring_kind, outcomes, result, layout_specific=False, variant_specific=False):
    """The statement: no unsecured start for a gateway that announces that service as secured."""
    starts = []
    last_kind = None
    for entry in log:
        if entry[0] == "offered":
            last_kind = entry[2]
        if entry[0] != "start":
            continue
        _s, method, pos, ip = entry
        ctx.count("start_calls")
        ctx.count("start_calls" + method)
        if pos is None:
            ctx.inconclusive("a start method was called before any gateway was offered")
            continue
        caps, gw_ip, _frames, layout = gateways[pos]
        if ip is not None and ip != gw_ip:
            ctx.violation("start-called-with-address-of-another-gateway",
                          {"method": method, "gateway_ip_used": ip, "gateway_offered": gw_ip},
                          f"{method} was called with {ip} while handling the gateway at {gw_ip}")
            continue
        starts.append((method, pos))
        wit = {"gateways": [g[0].as_dict() for g in gateways], "gateway_position": pos, "method": method,
               "filter_flags(tunnelling,tunnelling_tcp,routing,secure_tunnelling,secure_routing)": list(flags), "filter_name": name,
               "keyring": keyring_kind, "outcomes": [outcomes.get(g[1], "ok") for g in gateways], "result": result,
               "responses": ["+".join(k for k, _f in g[2]) for g in gateways],
               "dib_layouts": [None if g[3] is None else list(g[3]) for g in gateways],
               "descriptor_from": last_kind,
               "caps_key": list(caps.key())}
        detail = f"tunnellingv{caps.tunnelling}-routing{caps.routing}"
        if last_kind == "legacy" and len(gateways[pos][2]) > 1:
            detail += "-via-legacy-search-response-of-core-v2-device"
        elif layout is not None and layout_specific:
            detail += "-" + layout_class(layout)   # only when the default DIB order of the same gateway does not show it
        elif variant_specific and caps.variant_class() != "usual-version-octets":
            detail += "-" + caps.variant_class()   # only when the usual version octets of the same gateway do not show it
        if method in ("_start_tunnelling_udp", "_start_tunnelling_tcp"):
            ctx.count("unsecured_tunnel_starts_judged")
            if caps.t_secured:
                kind = "udp" if method.endswith("udp") else "tcp"
                ctx.violation(f"unsecured-{kind}-tunnel-to-gateway-announcing-secured-tunnelling-{detail}", wit,
                              f"{method} was called for a gateway whose secured service families include tunnelling: {caps.as_dict()}")
        elif method == "_start_routing":
            ctx.count("unsecured_routing_starts_judged")
            if caps.r_secured:
                ctx.violation(f"unsecured-routing-for-gateway-announcing-secured-routing-{detail}", wit,
                              f"_start_routing was called for a gateway whose secured service families include routing: {caps.as_dict()}")
        else:
            ctx.count("secure_starts_seen")
    return starts


METHOD_NAMES = ("tunnelling", "tunnelling_tcp", "routing", "secure_tunnelling", "secure_routing")


def ref_filter_full(flags, name, caps: Caps):
    """(strict, lenient) of the whole predicate: the name fits (or none is configured) AND the method / security rule."""
    strict, lenient = ref_filter_match(flags, caps)
    ok = ref_name_ok(name, caps)
    return bool(ok and strict), bool(ok and lenient)


def _safe_match(flt, desc):
    try:
        return flt.match(desc)
    except BaseException as exc:  # noqa: BLE001
        return exc


def _judge_filter(ctx, caps, flags, name, how, desc, baseline):
    """One GatewayScanFilter.match evaluation against the predicate. `baseline` = (caps, descriptor) of the plain form of the same
    gateway (default DIB order, usual version octets) used to tell whether a disagreement is specific to the arrangement / octets."""
    ctx.ev()
    got = _safe_match(make_filter(flags, name), desc)
    if isinstance(got, BaseException):
        ctx.violation(f"filter-match-raises-{type(got).__name__}", {"caps": caps.as_dict(), "flags": list(flags), "name": name},
                      f"GatewayScanFilter.match raised {type(got).__name__}")
        return
    if caps.zero_versions:
        ctx.count("filter_match_supported_version_octet_0_not_judged")   # is a family listed with version 0 supported? not defined
        return
    strict, lenient = ref_filter_full(flags, name, caps)
    if strict != lenient:
        ctx.count("filter_match_ambiguous_secure_tunnelling_over_v1_not_judged")
        return
    ctx.count("filter_match_judged")
    if name is not None:
        ctx.count("filter_match_with_name_judged")
        ctx.count("filter_name_equal_methods_do_not_fit" if ref_name_ok(name, caps) and not strict else "filter_name_other_cases")
    ctx.count("filter_expected_match" if strict else "filter_expected_no_match")
    ctx.distinct(("filter", tuple(bool(f) for f in flags), name, caps.tunnelling, caps.routing, caps.t_secured, caps.r_secured, caps.sec_ver, got))
    if got is strict:
        return
    enabled = [n for n, f in zip(METHOD_NAMES, flags, strict=True) if f]
    # reduce to one enabled method reproducing the disagreement (the filter is a disjunction of per-method clauses)
    culprit = None
    for i, f in enumerate(flags):
        if not f:
            continue
        single = tuple(j == i for j in range(5))
        s_strict, s_lenient = ref_filter_full(single, name, caps)
        s_got = _safe_match(make_filter(single, name), desc)
        if s_strict == s_lenient and isinstance(s_got, bool) and s_got is not s_strict:
            culprit = METHOD_NAMES[i]
            break
    direction = "matches-although-no-enabled-method-fits" if got else "rejects-although-an-enabled-method-fits"
    if culprit in ("routing", "secure_routing"):
        about = f"routing{caps.routing}-routing-secured-{caps.r_secured}"
    elif culprit is not None:
        about = f"tunnellingv{caps.tunnelling}-tunnelling-secured-{caps.t_secured}"
    else:
        sec = ("T" if caps.t_secured else "") + ("R" if caps.r_secured else "") or "none"
        about = f"tunnellingv{caps.tunnelling}-routing{caps.routing}-secured-{sec}"
    # qualifiers, each only when the plainer form of the same question is answered correctly
    if name is not None:
        u_strict, u_lenient = ref_filter_match(flags, caps)
        if u_strict != u_lenient or _safe_match(make_filter(flags, None), desc) is bool(u_strict):
            about += "-with-configured-name-" + ("equal-to-the-device-name" if ref_name_ok(name, caps) else "different-from-the-device-name")
    base_caps, base_desc = baseline
    if desc is not base_desc:
        b_strict, b_lenient = ref_filter_full(flags, name, base_caps)
        if b_strict != b_lenient or _safe_match(make_filter(flags, name), base_desc) is b_strict:
            if how.startswith("parsed:"):
                about += "-" + how[len("parsed:"):]
            if caps.variant_class() != "usual-version-octets":
                about += "-" + caps.variant_class()
    ctx.violation(
        f"filter-{direction}-method[{culprit or '+'.join(enabled) or 'none'}]-{about}",
        {"caps": caps.as_dict(), "flags(tunnelling,tunnelling_tcp,routing,secure_tunnelling,secure_routing)": list(flags), "filter_name": name,
         "single_method_reproducing": culprit, "descriptor": how, "got": repr(got), "expected": strict},
        f"GatewayScanFilter({enabled}, name={name!r}).match -> {got!r} for {caps.as_dict()} ({how} descriptor), the statement says {strict}")


def check_filter_predicate(ctx, caps_list, frames):
    """GatewayScanFilter.match against the predicate, on descriptors produced by the real parse_dibs and on hand-set ones."""
    variants = filter_variants() + named_extra_variants()
    for caps in caps_list:
        descriptor = GatewayDescriptor(ip_addr="10.0.0.2", port=3671)
        descriptor.parse_dibs(frames[caps.index].body.dibs)
        # the same capabilities set by hand (constructor / attributes), as user code and tests do
        manual = GatewayDescriptor(ip_addr="10.0.0.2", port=3671, name="gw" if caps.has_ia else "UNKNOWN",
                                   supports_routing=bool(caps.routing), supports_tunnelling=caps.tunnelling >= 1,
                                   supports_tunnelling_tcp=caps.tunnelling >= 2, supports_secure=bool(caps.security))
        if caps.secured is not None:
            manual.tunnelling_requires_secure = caps.t_secured
            manual.routing_requires_secure = caps.r_secured
        described = [(caps, "parsed", descriptor), (caps, "manual", manual)]
        if caps.extended:
            for layout in caps.layouts():
                desc = GatewayDescriptor(ip_addr="10.0.0.2", port=3671)
                desc.parse_dibs(caps.frame("10.0.0.2", layout=layout).body.dibs)
                described.append((caps, "parsed:" + layout_class(layout), desc))
                ctx.count("descriptors_parsed_from_rearranged_dibs")
            for vcaps in caps.version_variants():
                desc = GatewayDescriptor(ip_addr="10.0.0.2", port=3671)
                desc.parse_dibs(vcaps.frame("10.0.0.2").body.dibs)
                described.append((vcaps, "parsed", desc))
                ctx.count("descriptors_parsed_from_other_version_octets")
                if vcaps.sec_ver == 0 and (vcaps.t_secured or vcaps.r_secured):
                    ctx.count("descriptors_with_secured_family_version_octet_0")
        for flags, name in variants:
            for subject, how, desc in described:
                _judge_filter(ctx, subject, flags, name, how, desc, (caps, descriptor))


async def single_gateway_product(ctx, caps_list, frames):
    variants = filter_variants()
    ip = "10.0.0.2"
    for caps in caps_list:
        for mode in caps.modes():
            frame_list = [(k, frames[caps.index]) for k in (mode,)] if "+" not in mode else caps.frames(ip, mode)
            gateways = [(caps, ip, frame_list, None)]
            # both answers: "legacy first" with working attempts; "extended first" with the secure attempt failing (no credentials),
            # so that the automatic start moves on to the next queued descriptor of the same gateway
            outcomes = {ip: "nosec"} if mode == "ext+legacy" else {}
            ctx.count("single_gateway_response_mode_" + mode.replace("+", "_then_"))
            extra = named_extra_variants() if "+" not in mode else []
            for vi, (flags, name) in enumerate(variants + extra):
                for keyring_kind in (KEYRINGS if vi < len(variants) else ("none", "host_listed")):
                    ctx.ev()
                    result, log = await run_start(gateways, outcomes, flags, name, keyring_kind)
                    if result.startswith("unexpected"):
                        ctx.inconclusive(f"automatic start raised {result} for {caps.as_dict()} {mode} {flags} {keyring_kind}")
                        continue
                    ctx.count("automatic_starts")
                    ctx.count("result_" + result)
                    starts = judge_log(ctx, log, gateways, flags, name, keyring_kind, outcomes, result)
                    offered_kinds = [e[2] for e in log if e[0] == "offered"]
                    offered = bool(offered_kinds)
                    ctx.count("gateway_offered" if offered else "gateway_not_offered")
                    if len(offered_kinds) > 1:
                        ctx.count("gateway_offered_twice_not_judged")
                    if "legacy" in offered_kinds and caps.core >= 2:
                        ctx.count("legacy_response_of_core_v2_device_offered_not_judged")
                    if result == "connected" and not starts:
                        ctx.count("connected_without_any_start_call_not_judged")
                    # the scanner's use of the filter equals the predicate (keyring 'ia_unknown' aborts before scanning);
                    # judged on the answer that carries the announcement (single answers only)
                    if keyring_kind != "ia_unknown" and "+" not in mode:
                        strict, lenient = ref_filter_full(flags, name, caps)
                        skipped_core_v2_plain = (not caps.extended) and caps.core >= 2
                        if strict == lenient and not skipped_core_v2_plain and offered is not strict:
                            named = "" if name is None else "-with-configured-name"
                            ctx.violation(("scan-offers-gateway-against-filter" if offered else "scan-withholds-gateway-matching-filter") + named,
                                          {"caps": caps.as_dict(), "flags": list(flags), "filter_name": name, "keyring": keyring_kind},
                                          f"scan with filter {flags} {'offered' if offered else 'withheld'} {caps.as_dict()}")
                    ctx.distinct(("single", mode, caps.tunnelling, caps.routing, caps.t_secured, caps.r_secured, caps.has_ia, keyring_kind,
                                  tuple(bool(f) for f in flags), tuple(m for m, _p in starts), result))
                    if caps.index in (70, 200, 333) and vi == 0 and keyring_kind == "none" and mode in ("ext", "legacy"):
                        ctx.sample({"gateway": caps.as_dict(), "responses": mode, "filter": "all enabled", "keyring": keyring_kind,
                                    "start_calls": [m for m, _p in starts], "result": result})


LAYOUT_FILTERS = ((True, True, True, True, True), (True, True, True, False, False), (False, False, False, True, True),
                  (True, False, False, False, False), (False, True, False, False, False), (False, False, True, False, False))


async def rearranged_dibs_product(ctx, caps_list):
    """Security-relevant capability sets with every DIB arrangement of the extended answer through the real automatic start."""
    ip = "10.0.0.2"
    for caps in caps_list:
        if not caps.extended or not (caps.t_secured or caps.r_secured):
            continue
        default_gw = [(caps, ip, caps.frames(ip, "ext"), None)]
        default_offending = {}
        default_offered = {}
        for flags in LAYOUT_FILTERS:
            for keyring_kind in ("none", "host_listed"):
                _r, dlog = await run_start(default_gw, {}, flags, None, keyring_kind)
                default_offending[(flags, keyring_kind)] = offending_starts(dlog, default_gw)
                default_offered[(flags, keyring_kind)] = any(e[0] == "offered" for e in dlog)
        for layout in caps.layouts():
            gateways = [(caps, ip, caps.frames(ip, "ext", layout), layout)]
            ctx.count("single_gateway_rearranged_dib_answers")
            ctx.count("single_gateway_dib_layout_" + layout_class(layout))
            for flags in LAYOUT_FILTERS:
                for keyring_kind in ("none", "host_listed"):
                    ctx.ev()
                    result, log = await run_start(gateways, {}, flags, None, keyring_kind)
                    if result.startswith("unexpected"):
                        ctx.inconclusive(f"automatic start raised {result} for {caps.as_dict()} layout {layout}")
                        continue
                    ctx.count("automatic_starts")
                    ctx.count("automatic_starts_rearranged_dibs")
                    ctx.count("result_" + result)
                    specific = bool(offending_starts(log, gateways) - default_offending[(flags, keyring_kind)])
                    starts = judge_log(ctx, log, gateways, flags, None, keyring_kind, {}, result, layout_specific=specific)
                    offered = any(e[0] == "offered" for e in log)
                    strict, lenient = ref_filter_match(flags, caps)
                    if strict == lenient and offered is not strict:
                        suffix = "" if default_offered[(flags, keyring_kind)] is offered else "-" + layout_class(layout)
                        ctx.violation(("scan-offers-gateway-against-filter" if offered else "scan-withholds-gateway-matching-filter") + suffix,
                                      {"caps": caps.as_dict(), "flags": list(flags), "keyring": keyring_kind, "dib_layout": list(layout)},
                                      f"scan with filter {flags} {'offered' if offered else 'withheld'} {caps.as_dict()} answering with DIBs {layout}")
                    ctx.distinct(("layout", layout_class(layout), caps.tunnelling, caps.routing, caps.t_secured, caps.r_secured,
                                  keyring_kind, flags, tuple(m for m, _p in starts), result))


async def version_octets_product(ctx, caps_list):
    """Capability sets announcing a secured service with other version octets in the family entries, through the real automatic start."""
    ip = "10.0.0.2"
    for caps in caps_list:
        if not caps.extended or not (caps.t_secured or caps.r_secured):
            continue
        default_gw = [(caps, ip, caps.frames(ip, "ext"), None)]
        default_offending = {}
        for flags in LAYOUT_FILTERS:
            for keyring_kind in ("none", "host_listed"):
                _r, dlog = await run_start(default_gw, {}, flags, None, keyring_kind)
                default_offending[(flags, keyring_kind)] = offending_starts(dlog, default_gw)
        for vcaps in caps.version_variants():
            gateways = [(vcaps, ip, vcaps.frames(ip, "ext"), None)]
            ctx.count("single_gateway_version_octets_" + vcaps.variant_class())
            for flags in LAYOUT_FILTERS:
                for keyring_kind in ("none", "host_listed"):
                    ctx.ev()
                    result, log = await run_start(gateways, {}, flags, None, keyring_kind)
                    if result.startswith("unexpected"):
                        ctx.inconclusive(f"automatic start raised {result} for {vcaps.as_dict()}")
                        continue
                    ctx.count("automatic_starts")
                    ctx.count("automatic_starts_other_version_octets")
                    ctx.count("result_" + result)
                    specific = bool(offending_starts(log, gateways) - default_offending[(flags, keyring_kind)])
                    starts = judge_log(ctx, log, gateways, flags, None, keyring_kind, {}, result, variant_specific=specific)
                    offered = any(e[0] == "offered" for e in log)
                    strict, lenient = ref_filter_match(flags, vcaps)
                    if not vcaps.zero_versions and strict == lenient and offered is not strict:
                        ctx.violation(("scan-offers-gateway-against-filter-" if offered else "scan-withholds-gateway-matching-filter-") + vcaps.variant_class(),
                                      {"caps": vcaps.as_dict(), "flags": list(flags), "keyring": keyring_kind},
                                      f"scan with filter {flags} {'offered' if offered else 'withheld'} {vcaps.as_dict()}")
                    ctx.distinct(("versions", vcaps.variant_class(), vcaps.tunnelling, vcaps.routing, vcaps.t_secured, vcaps.r_secured,
                                  keyring_kind, flags, tuple(m for m, _p in starts), result))


async def gateway_sequences(ctx, caps_list, frames_for):
    rng = ctx.rng
    n = ctx.scale(8000, 640000)
    variants = filter_variants()
    interesting = [c for c in caps_list if c.extended and (c.tunnelling or c.routing)]
    for i in range(n):
        if not ctx.mine(i):
            continue
        k = rng.choice((2, 2, 3, 4))
        gateways = []
        outcomes = {}
        for pos in range(k):
            caps = rng.choice(interesting if rng.random() < 0.85 else caps_list)
            if rng.random() < 0.25 and caps.version_variants():
                caps = rng.choice(caps.version_variants())
                ctx.count("sequence_gateways_with_other_version_octets")
            ip = f"10.0.{pos}.2"
            mode = rng.choice(caps.modes())
            layout = rng.choice(caps.layouts()) if caps.extended and rng.random() < 0.5 else None
            if layout is not None:
                ctx.count("sequence_gateways_with_rearranged_dibs")
            gateways.append((caps, ip, frames_for(caps, ip, mode, layout), layout))
            if "+" in mode:
                ctx.count("sequence_gateways_answering_twice")
            outcomes[ip] = rng.choice(("comm", "comm", "secure", "nosec", "ok")) if pos < k - 1 else rng.choice(("ok", "ok", "nosec", "comm"))
        flags, name = rng.choice(variants) if rng.random() < 0.6 else ((True, True, True, True, True), None)
        keyring_kind = rng.choice(KEYRINGS[:4]) if rng.random() < 0.8 else rng.choice(KEYRINGS)
        # nothing in the statement depends on the configured group address notation: vary it, the oracle stays the same
        fmt = rng.choice((GroupAddressType.LONG, GroupAddressType.SHORT, GroupAddressType.FREE))
        GroupAddress.address_format = fmt
        ctx.count("sequences_under_notation_" + fmt.name)
        ctx.ev()
        result, log = await run_start(gateways, outcomes, flags, name, keyring_kind, use_default_filter=(i % 7 == 0 and name is None and all(flags)))
        if result.startswith("unexpected"):
            ctx.inconclusive(f"automatic start raised {result} in a gateway sequence")
            continue
        ctx.count("automatic_starts_sequences")
        ctx.count("result_" + result)
        starts = judge_log(ctx, log, gateways, flags, name, keyring_kind, outcomes, result)
        if len({p for _m, p in starts}) > 1:
            ctx.count("sequences_with_attempts_on_several_gateways")
        ctx.distinct(("seq", tuple((m, gateways[p][0].t_secured, gateways[p][0].r_secured) for m, p in starts), result))
        if i < 2:
            ctx.sample({"gateways": [g[0].as_dict() for g in gateways], "outcomes": [outcomes[g[1]] for g in gateways],
                        "responses": ["+".join(k for k, _f in g[2]) for g in gateways],
                        "start_calls": [[m, p] for m, p in starts], "result": result})


def run(ctx):
    ctx.rule = ("exhaustive: 432 announced-capability sets x 37 scan filters x 7 keyring situations through the real automatic start "
                "(single gateway; Core-V2 sets also with legacy+extended and extended+legacy answers), the same capability sets x filters "
                "through GatewayScanFilter.match; sampled: sequences of 2-4 gateways "
                "with scripted connection failures; distinct = (capabilities relevant to the statement, keyring, filter flags, start calls, result)")
    ctx.require("automatic_starts", "start_calls", "unsecured_tunnel_starts_judged", "unsecured_routing_starts_judged", "secure_starts_seen",
                "filter_match_judged", "filter_expected_match", "filter_expected_no_match", "gateway_offered", "gateway_not_offered",
                "automatic_starts_sequences", "sequences_with_attempts_on_several_gateways",
                "single_gateway_response_mode_legacy_then_ext", "single_gateway_response_mode_ext_then_legacy",
                "sequence_gateways_answering_twice", "sequences_under_notation_SHORT", "sequences_under_notation_FREE",
                "descriptors_parsed_from_rearranged_dibs", "automatic_starts_rearranged_dibs",
                "descriptors_parsed_from_other_version_octets", "descriptors_with_secured_family_version_octet_0", "automatic_starts_other_version_octets",
                "filter_match_with_name_judged", "filter_name_equal_methods_do_not_fit",
                "single_gateway_dib_layout_secured-families-dib-before-supported-families-dib", "sequence_gateways_with_rearranged_dibs")
    caps_list = all_caps()
    frames = {c.index: c.frame("10.0.0.2") for c in caps_list}
    frame_cache: dict = {}

    def frames_for(caps, ip, mode, layout=None):
        key = (caps.index, ip, mode, layout)
        if key not in frame_cache:
            frame_cache[key] = caps.frames(ip, mode, layout)
        return frame_cache[key]

    # ground-truth self test: the generated sets contain what the oracle relies on
    if not any(c.t_secured and c.tunnelling == 1 for c in caps_list) or not any(c.r_secured and c.routing for c in caps_list):
        ctx.inconclusive("capability enumeration lacks the secured cases")
        return
    ctx.count("capability_sets", len(caps_list))
    ctx.count("scan_filters", len(filter_variants()))
    ctx.count("keyring_situations", len(KEYRINGS))

    check_filter_predicate(ctx, caps_list, frames)

    loop = asyncio.new_event_loop()
    saved_format = GroupAddress.address_format
    try:
        with Patched():
            if ctx.shard == 0:
                loop.run_until_complete(single_gateway_product(ctx, caps_list, frames))
                loop.run_until_complete(rearranged_dibs_product(ctx, caps_list))
                loop.run_until_complete(version_octets_product(ctx, caps_list))
                ctx.exhaustive = True
                ctx.extra["exhaustive_part"] = "432 capability sets (the 120 Core-V2 ones in 3 answer modes: extended, legacy+extended, extended+legacy with failing secure attempt) x 37 filters x 7 keyring situations (single gateway); the 216 capability sets announcing a secured service x every DIB arrangement of the answer (permutations, duplicated DIBs, a foreign DIB in between) x 6 filters x 2 keyring situations; filter predicate on the same sets and all DIB arrangements"
            loop.run_until_complete(gateway_sequences(ctx, caps_list, frames_for))
    finally:
        GroupAddress.address_format = saved_format
        loop.run_until_complete(loop.shutdown_asyncgens())
        loop.close()
    if GatewayScanner.async_scan is fake_async_scan:
        ctx.inconclusive("harness failed to restore GatewayScanner.async_scan")


def replay(ctx, witness):
    """Re-run the recorded scenario (single start)."""
    if "gateways" not in witness:
        run(ctx)
        return
    keymap = ("core_version", "tunnelling_version", "routing_version", "security_version", "secured_families_dib", "device_info_dib", "extended_response")
    gateways = []
    for pos, g in enumerate(witness["gateways"]):
        vals = [g[k] for k in keymap]
        caps = Caps(vals[0], vals[1], vals[2], vals[3], None if vals[4] is None else frozenset(vals[4]), vals[5], vals[6],
                    sec_ver=g.get("secured_entry_version_octet", 1), zero_versions=g.get("supported_entry_version_octet_zero", False))
        ip = f"10.0.{pos}.2"
        mode = (witness.get("responses") or [None] * (pos + 1))[pos] or ("ext" if caps.extended else "legacy")
        lay = (witness.get("dib_layouts") or [None] * (pos + 1))[pos]
        lay = None if lay is None else tuple(lay)
        gateways.append((caps, ip, caps.frames(ip, mode, lay), lay))
    outcomes = {g[1]: o for g, o in zip(gateways, witness["outcomes"], strict=True)}
    flags = tuple(witness["filter_flags(tunnelling,tunnelling_tcp,routing,secure_tunnelling,secure_routing)"])
    loop = asyncio.new_event_loop()
    try:
        with Patched():
            result, log = loop.run_until_complete(run_start(gateways, outcomes, flags, witness["filter_name"], witness["keyring"]))
    finally:
        loop.close()
    ctx.ev()
    ctx.distinct(("replay", 1))
    ctx.distinct(("replay", 2))
    print("replay log:", [e[:4] if e[0] == "start" else e[:3] for e in log], result)
    judge_log(ctx, log, gateways, flags, witness["filter_name"], witness["keyring"], outcomes, result)
