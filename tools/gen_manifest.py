#!/venv/bin/python
"""Regenerate MANIFEST.json from the check modules' own metadata."""
import importlib, json, os, subprocess, sys
VERIF = os.path.dirname(os.path.dirname(os.path.abspath(__file__)))
sys.path.insert(0, VERIF); sys.path.insert(0, os.environ.get("XKNX_SRC", "/repo"))
props = [json.loads(l) for l in open(os.path.join(VERIF, "properties.jsonl"))]
checks, na = [], []
cf = os.path.join(VERIF, "tools", "claimed.txt")
CLAIMED = set(open(cf).read().split()) if os.path.exists(cf) else None
PY = "PYTHONHASHSEED=0 /venv/bin/python -m vlib.run"
hook_commits = [l.split()[0] for l in subprocess.run(["git", "-C", "/repo", "log", "--format=%h %s"], capture_output=True, text=True).stdout.splitlines() if " verif-hook:" in l]
engines = {}
for p in props:
    pid = p["id"]
    path = os.path.join(VERIF, "checks", pid.lower() + ".py")
    if not os.path.exists(path) or (CLAIMED is not None and pid not in CLAIMED):
        na.append({"property_id": pid, "reason": "check not built yet in this session (planned in DESIGN.md section 4); not claimed until it passes the section 3.6 gate"})
        continue
    m = importlib.import_module("checks." + pid.lower())
    if getattr(m, "NOT_CLAIMED", None):
        na.append({"property_id": pid, "reason": m.NOT_CLAIMED}); continue
    src = open(path).read()
    eng = getattr(m, "ENGINE", "vloop" if ("vloop" in src or "_harness" in src or "peers_" in src) else "vlib")
    engines.setdefault(eng, []).append(pid)
    if "refcrypto" in src or "peers_secure" in src or "ds_harness" in src:
        engines.setdefault("refcrypto", []).append(pid)
    checks.append({
        "property_id": pid,
        "quick_cmd": f"{PY} {pid} --tier quick",
        "thorough_cmd": f"{PY} {pid} --tier thorough",
        "evidence_file": f"/verif/evidence/{pid}.json",
        "replay_cmd_template": f"{PY} {pid} --replay {{path}}",
        "engine": eng,
        "level_claimed": {"category": m.LEVEL, "text": m.LEVEL_TEXT, "design_ref": f"DESIGN.md section 4, {pid}"},
        "level_note": m.LEVEL_NOTE,
        "technique": m.TECHNIQUE,
    })
ENG = {
 "vlib": ("vlib/run.py", "harness: tiers, seeds, shards, three-valued verdicts, evidence, replay, known-finding classification; pure input/output oracles on the real codecs"),
 "vloop": ("vlib/vloop.py", "virtual-time asyncio loop with in-memory datagram/stream endpoints; the real xknx connection and core classes run on it against scripted peers; definite-deadlock detection"),
 "refcrypto": ("vlib/refcrypto_ds.py + vlib/refcrypto_ip.py", "independent KNX Data Secure / IP Secure CCM written from the specification on single-block AES only"),
}
manifest = {
 "version": 1,
 "setup_cmd": "true",
 "hooks": {"guard": "XKNX_VERIF", "enable": "checks set XKNX_VERIF=1 and import xknx from /repo's working tree in a fresh interpreter (pure Python: no build step); no guarded hook exists in the source at present, observers are installed from the harness",
           "baseline_off_cmd": "cd /repo && env -u XKNX_VERIF /venv/bin/python -m pytest -ra -q -p no:cacheprovider --timeout=900 --continue-on-collection-errors",
           "source_commits": hook_commits, "add_only": True},
 "engines": [{"name": k, "path": ENG.get(k, (f"vlib/{k}.py", ""))[0], "serves_properties": v, "kind_free_text": ENG.get(k, ("", k))[1]} for k, v in sorted(engines.items())],
 "checks": checks,
 "not_applicable": na,
 "notes": "Runtime monitoring family. exit 0 held / 1 violated / 2 inconclusive. known_findings.json lists recorded and fixed defects by mechanism. See DESIGN.md.",
}
json.dump(manifest, open(os.path.join(VERIF, "MANIFEST.json"), "w"), indent=1)
print(f"claimed={len(checks)} not_claimed={len(na)}")
