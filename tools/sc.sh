#!/bin/bash
# usage: sc.sh <seeded dir> ; derives PROP from dir name, labels output with dir basename
b=$(basename $1); /verif/tools/seedcheck.sh $1 ${b%%-*} quick | sed "s#^[^:]*:#$b:#"
