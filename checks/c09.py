"""C09 numeric DPTs: in-range accepted within one resolution step, out-of-range -> ConversionError.

Statement: every value between the declared value_min and value_max is accepted,
encodes to a payload of the declared type and length, and decodes to a value that
differs from the input by less than one resolution step of the nearest representable
value; values outside the declared range are rejected with a conversion error.

"Resolution step" is measured from the decoder, never read from the `resolution`
attribute: r = from_knx(to_knx(v)) is within one step of v iff no other value of the
decode image lies between r and v (v inclusive).  For types of <= 2 octets the decode
image is enumerated completely; for longer types the neighbours of r are found by
decoding the raw payload +-k.  All comparisons are exact (Python int/float comparison
is exact; differences are formed as Fractions), so float rounding in the oracle itself
cannot raise an alarm.
"""

from __future__ import annotations

import bisect
from fractions import Fraction
import math

from vlib import dpt_gen as G
from xknx.dpt import DPTArray
from xknx.dpt.dpt import DPTNumeric
from xknx.exceptions import ConversionError

LEVEL = "exploration"
TECHNIQUE = (
    "runtime monitor: range/accuracy oracle on the real to_knx/from_knx of every DPTNumeric class; the resolution step is measured from the "
    "decode image (enumerated for <= 2-octet types, raw-neighbour walk beyond), comparisons exact"
)
LEVEL_TEXT = (
    "All DPTNumeric classes. In range: value_min, value_max, every integer of the declared range when it has <= 70,000 points (quick: complete for one "
    "class per behaviour signature, every 16th integer for its siblings), a stratified integer sample otherwise, 3,000 (200,000; 600 (40,000) for classes sharing code and parameters with an earlier one) random floats (uniform "
    "and log-uniform), and for sampled decode-image points x: x, nextafter(x, +-inf), the midpoint to the next image point and its two float "
    "neighbours. Out of range: nextafter(bound) and fractions of a step beyond each finite bound, one step, 1.5, 2, 10 steps, bound+-1, x2, +-2^31, "
    "+-2^63, +-(2^64+1), +-1e300, +-inf, +-10^400, +-10^4300, +-10^5000, +-10^6000 (ints beyond CPython's decimal conversion limit) and random distances. Sampled, hence exploration."
)
LEVEL_NOTE = (
    "Trusted: CPython int/float/Fraction/struct. Judged: in-range => to_knx returns (any exception is a violation), payload is a DPTArray of the declared "
    "length with octets 0..255, from_knx accepts it, no other decodable value lies between the result and the input; out-of-range => ConversionError "
    "(acceptance or any other exception is a violation). A value less than one step outside a bound that is truncated onto the bound is reported under "
    "its own mechanism (…-fraction-beyond-declared-bound-accepted). Not judged: NaN, non-numeric input, bool. The `resolution` attribute is never used. "
    "A child interpreter started with `python -O` (assert statements compiled away) repeats a fixed out-of-range set (bound+-1, +-2, +-10, +-73, +-1000, x2, "
    "+-2^31, +-2^63, +-(2^64+1), +-10^400) for every numeric class; its verdicts are folded in with the mechanism suffix -under-python-O (replay of those "
    "witnesses runs in the normal interpreter and will not reproduce an assert-only defect)."
)
SHARDS = {"quick": 1, "thorough": 16}
TIMEOUT = {"quick": 300, "thorough": 3000}

INT_EXHAUSTIVE_LIMIT = 70_000
WALK = 48


def _finite(x):
    return isinstance(x, int) or (isinstance(x, float) and math.isfinite(x))


def _frac(x):
    return Fraction(x)


def _own(cls):
    return G.owner(cls, "to_knx")


class Model:
    """What was measured about one class (decode image, gaps at the bounds)."""

    def __init__(self, cls, rng):
        self.cls = cls
        self.lo = cls.value_min
        self.hi = cls.value_max
        self.small = G.space_size(cls) <= G.EXHAUSTIVE_LIMIT
        self.image = None
        if self.small:
            vals = set()
            for i in range(G.space_size(cls)):
                status, v = G.try_decode(cls, G.mk(cls, i))
                if status == "ok" and _finite(v):
                    vals.add(v)
            self.image = sorted(vals)
        self.rng = rng
        self._bound_value = {}
        self.limit = {}  # side -> measured magnitude beyond which the encoder refuses although the declared bound is infinite

    # -- neighbours of a decoded value in the decode image -----------------
    def neighbours(self, r, payload):
        """(largest image value < r, smallest image value > r); None where there is none."""
        if self.image is not None:
            i = bisect.bisect_left(self.image, r)
            below = self.image[i - 1] if i > 0 else None
            j = bisect.bisect_right(self.image, r)
            above = self.image[j] if j < len(self.image) else None
            return below, above
        n = G.payload_int(payload)
        size = G.space_size(self.cls)
        found = []
        for direction in (1, -1):
            for k in range(1, WALK + 1):
                m = n + direction * k
                if not 0 <= m < size:
                    break
                status, v = G.try_decode(self.cls, G.mk(self.cls, m))
                if status != "ok" or not _finite(v):
                    continue
                if v != r:
                    found.append(v)
                    break
        below = max((v for v in found if v < r), default=None)
        above = min((v for v in found if v > r), default=None)
        return below, above

    def within_one_step(self, v, r, payload):
        """True iff |r - v| < one resolution step (exact)."""
        if r == v:
            return True
        if not _finite(r):
            return False
        below, above = self.neighbours(r, payload)
        if r < v:
            if above is not None:
                return above > v
            gap = None if below is None else _frac(r) - _frac(below)
            return gap is not None and _frac(v) - _frac(r) < gap
        if below is not None:
            return below < v
        gap = None if above is None else _frac(above) - _frac(r)
        return gap is not None and _frac(r) - _frac(v) < gap

    def gap_at(self, bound, side):
        """Measured step at a declared bound (fallback 1 when the bound itself cannot be encoded)."""
        try:
            p = self.cls.to_knx(bound)
            r = self.cls.from_knx(p)
            below, above = self.neighbours(r, p)
        except BaseException:  # noqa: BLE001
            return Fraction(1)
        nb = below if side == "hi" else above
        if nb is None:
            nb = above if side == "hi" else below
        if nb is None or not _finite(r):
            return Fraction(1)
        return abs(_frac(r) - _frac(nb)) or Fraction(1)

    def bound_value(self, side):
        """What the declared bound itself encodes/decodes to (None if it does not)."""
        if side not in self._bound_value:
            try:
                bound = self.hi if side == "hi" else self.lo
                self._bound_value[side] = self.cls.from_knx(self.cls.to_knx(bound))
            except BaseException:  # noqa: BLE001
                self._bound_value[side] = None
        return self._bound_value[side]

    def measure_limit(self, side):
        """Largest magnitude the encoder takes on a side whose declared bound is infinite (bisection on the real encoder)."""
        sign = 1.0 if side == "hi" else -1.0

        def accepts(x):
            try:
                self.cls.to_knx(sign * x)
                return True
            except BaseException:  # noqa: BLE001
                return False

        if not accepts(1.0) or accepts(1.7e308):
            return None
        ok, bad = 1.0, 1.7e308
        for _ in range(200):
            mid = math.sqrt(ok) * math.sqrt(bad)
            if mid in (ok, bad):
                break
            if accepts(mid):
                ok = mid
            else:
                bad = mid
        return ok


def _valid_payload(cls, payload):
    return (
        isinstance(payload, DPTArray)
        and len(payload.value) == cls.payload_length
        and all(isinstance(b, int) and not isinstance(b, bool) and 0 <= b <= 255 for b in payload.value)
    )


def _vrepr(v):
    # huge ints are written in hex: decimal conversion of > 4300 digits raises ValueError in CPython
    return repr(v) if not (isinstance(v, int) and abs(v) > 10**30) else f"inthex:{hex(v)}"


def _srepr(obj, limit=200):
    """repr() that cannot fail (an exception carrying a 5000-digit int cannot be rendered)."""
    try:
        return repr(obj)[:limit]
    except BaseException as exc:  # noqa: BLE001
        return f"<unprintable {type(obj).__name__}: {type(exc).__name__}>"


def _parse(text):
    if text.startswith("inthex:"):
        return int(text[7:], 16)
    if text.startswith("int:"):
        return int(text[4:])
    try:
        return int(text)
    except ValueError:
        return float(text)


def _witness(cls, v, **more):
    return {"cls": cls.__name__, "value": _vrepr(v), "value_type": type(v).__name__,
            "declared_min": repr(cls.value_min), "declared_max": repr(cls.value_max), **more}


def judge_in_range(ctx, m, v, tag=""):
    cls = m.cls
    own = _own(cls)
    ctx.ev()
    try:
        payload = cls.to_knx(v)
    except ConversionError as exc:
        how = "in-range-rejected"
        if m.image and (v > m.image[-1] or v < m.image[0]):
            how = "declared-range-exceeds-decodable-range-value-rejected"
        elif (v > 0 and m.hi == math.inf) or (v < 0 and m.lo == -math.inf):
            side = "hi" if v > 0 else "lo"
            if side not in m.limit:
                m.limit[side] = m.measure_limit(side)
            lim = m.limit[side]
            if lim is not None and abs(v) > lim:
                how = "declares-infinite-range-but-rejects-beyond-finite-limit"
        elif v == m.lo or v == m.hi:
            how = "in-range-rejected-at-declared-bound"
        ctx.violation(f"{own}-{how}", _witness(cls, v, exception=_srepr(exc), measured_limit=repr(m.limit)),
                      f"{cls.__name__}.to_knx({_vrepr(v)[:60]}) raised ConversionError although {cls.value_min} <= value <= {cls.value_max}"[:300])
        ctx.count("in_range_rejected")
        return
    except BaseException as exc:  # noqa: BLE001
        ctx.violation(f"{own}-in-range-raises-{type(exc).__name__}", _witness(cls, v, exception=_srepr(exc)),
                      f"{cls.__name__}.to_knx({_vrepr(v)[:60]}) raised {type(exc).__name__} for a value inside the declared range"[:300])
        ctx.count("in_range_crashed")
        return
    if not _valid_payload(cls, payload):
        ctx.violation(f"{own}-in-range-payload-wrong-type-or-length", _witness(cls, v, payload=G.describe(payload)),
                      f"{cls.__name__}.to_knx({_vrepr(v)[:60]}) returned {payload!r}, not a DPTArray of {cls.payload_length} octets 0..255"[:300])
        return
    status, r = G.try_decode(cls, payload)
    if status != "ok":
        how = "in-range-value-encodes-to-payload-own-decoder-rejects"
        if m.image and (v > m.image[-1] or v < m.image[0]):
            how = "value-beyond-largest-decodable-encodes-to-payload-own-decoder-rejects"
        ctx.violation(f"{own}-{how}", _witness(cls, v, payload=G.describe(payload), exception=_srepr(r)),
                      f"{cls.__name__}.to_knx({_vrepr(v)[:60]}) = {payload!r}, which {cls.__name__}.from_knx rejects ({type(r).__name__})"[:300])
        ctx.count("in_range_undecodable")
        return
    ctx.count("in_range_accepted")
    if r == v:
        ctx.count("in_range_exact")
    elif not (_finite(v) and m.within_one_step(v, r, payload)):
        # (an infinite declared bound must come back as itself, which is the r == v case above)
        below, above = m.neighbours(r, payload) if _finite(r) else (None, None)
        ctx.violation(f"{own}-error-not-less-than-one-step",
                      _witness(cls, v, payload=G.describe(payload), decoded=_srepr(r), image_below=repr(below), image_above=repr(above)),
                      f"{cls.__name__}: {_vrepr(v)[:60]} encodes to {payload!r} = {r!r}; the decode image has {above if (_finite(r) and r < v) else below!r} "
                      f"between/at the input, i.e. the error is one step or more"[:400])
    else:
        ctx.count("in_range_within_one_step")
    return r


def judge_out_of_range(ctx, m, v, fractional, side):
    cls = m.cls
    own = _own(cls)
    ctx.ev()
    try:
        payload = cls.to_knx(v)
    except ConversionError:
        ctx.count("out_of_range_rejected")
        return
    except BaseException as exc:  # noqa: BLE001
        ctx.violation(f"{own}-out-of-range-raises-{type(exc).__name__}", _witness(cls, v, exception=_srepr(exc)),
                      f"{cls.__name__}.to_knx({_vrepr(v)[:60]}) raised {type(exc).__name__} instead of ConversionError (declared range {cls.value_min}..{cls.value_max})"[:300])
        ctx.count("out_of_range_crashed")
        return
    ctx.count("out_of_range_accepted")
    where = "above-declared-max" if side == "hi" else "below-declared-min"
    status, r = G.try_decode(cls, payload) if _valid_payload(cls, payload) else ("invalid", None)
    if status == "ok" and fractional and m.bound_value(side) is not None and r == m.bound_value(side):
        # less than one step outside and sent as the bound itself (int() truncation); anything else
        # that happens to a fractional overshoot falls through to the general classes below
        how = f"fraction-beyond-declared-bound-accepted-{where}"
    elif status == "ok" and _finite(v) and m.within_one_step(v, r, payload):
        how = f"decodable-range-exceeds-declared-range-value-accepted-{where}"
    elif status == "ok":
        how = f"out-of-range-accepted-wrapped-{where}"
    elif status == "invalid":
        how = f"out-of-range-accepted-with-invalid-payload-{where}"
    else:
        how = f"out-of-range-accepted-payload-own-decoder-rejects-{where}"
    ctx.violation(f"{own}-{how}", _witness(cls, v, payload=G.describe(payload), decoded=_srepr(r), fractional=fractional),
                  f"{cls.__name__}.to_knx({_vrepr(v)[:60]}) accepted ({payload!r} = {r!r}) although the declared range is {cls.value_min}..{cls.value_max}"[:300])


# -- generators ------------------------------------------------------------

def _in_range_values(ctx, m, full_ints, n_float):
    rng, lo, hi = m.rng, m.lo, m.hi
    out = []
    for b in (lo, hi):
        out.append(b)
    flo = lo if math.isfinite(lo) else -1.7e308
    fhi = hi if math.isfinite(hi) else 1.7e308
    ilo, ihi = math.ceil(flo) if math.isfinite(lo) else -(2**1000), math.floor(fhi) if math.isfinite(hi) else 2**1000
    n_ints = ihi - ilo + 1
    if n_ints <= INT_EXHAUSTIVE_LIMIT:
        step = 1 if full_ints else 16
        out.extend(range(ilo, ihi + 1, step))
        if step > 1:
            out.extend(range(ilo, min(ihi, ilo + 40) + 1))
            out.extend(range(max(ilo, ihi - 40), ihi + 1))
            out.extend(range(max(ilo, -20), min(ihi, 20) + 1))
    else:
        for base in (ilo, ihi, 0):
            out.extend(x for x in range(base - 150, base + 151) if ilo <= x <= ihi)
        for bit in range(1, 70):
            for x in (2**bit - 1, 2**bit, 2**bit + 1):
                out.extend(y for y in (x, -x) if ilo <= y <= ihi)
        lim_lo, lim_hi = max(ilo, -(2**70)), min(ihi, 2**70)
        for _ in range(ctx.scale(1500, 60000)):
            out.append(rng.randint(lim_lo, lim_hi))
        for _ in range(ctx.scale(500, 5000)):
            x = int(math.copysign(2 ** rng.uniform(0, 70), rng.random() - 0.5))
            if ilo <= x <= ihi:
                out.append(x)
    # floats
    top = max(abs(flo), abs(fhi), 1.0)
    log_top = math.log2(top) if top < 1.7e308 else 1023.99
    for _ in range(n_float // 2):
        if math.isfinite(lo) and math.isfinite(hi):
            out.append(rng.uniform(lo, hi))
        else:
            out.append(math.copysign(2 ** rng.uniform(-20, 140), rng.random() - 0.5))
    for _ in range(n_float - n_float // 2):
        x = math.copysign(2 ** rng.uniform(-40 if top > 1e6 else -12, log_top), rng.random() - 0.5)
        out.append(x)
    for b in (lo, hi):
        if math.isfinite(b):
            out += [math.nextafter(float(b), math.inf), math.nextafter(float(b), -math.inf)]
    for mag in (5e-324, 1e-310, 1.2e-38, 1e-30, 1e-20, 1e-12, 1e-9, 1e-7, 1e-5, 0.001, 0.004, 0.005, 0.0051, 0.5, 0.9999999):
        out += [mag, -mag]
    if not math.isfinite(hi):
        out += [3.4028234663852886e38, 3.4028235e38, 3.5e38, 1e39, 1e100, 1e300, 1.7976931348623157e308, 2**200, 10**300]
    if not math.isfinite(lo):
        out += [-3.4028234663852886e38, -3.4028235e38, -3.5e38, -1e39, -1e100, -1e300, -1.7976931348623157e308, -(2**200), -(10**300)]
    # around decode-image points
    pts = []
    if m.image is not None:
        k = ctx.scale(400, 20000)
        idx = range(len(m.image)) if len(m.image) <= k else sorted(rng.sample(range(len(m.image)), k))
        for i in idx:
            pts.append((m.image[i], m.image[i + 1] if i + 1 < len(m.image) else None))
        pts.append((m.image[0], m.image[1] if len(m.image) > 1 else None))
        if len(m.image) > 1:
            pts.append((m.image[-2], m.image[-1]))
        # points where the measured step changes (binade / exponent boundaries): always probed
        img = m.image
        changes = []
        for i in range(1, len(img) - 1):
            g1, g2 = img[i] - img[i - 1], img[i + 1] - img[i]
            if abs(g2 - g1) > 0.01 * max(g1, g2):
                changes.append(i)
        cap = ctx.scale(600, 6000)
        if len(changes) > cap:
            changes = sorted(rng.sample(changes, cap))
        for i in changes:
            pts.append((img[i - 1], img[i]))
            pts.append((img[i], img[i + 1]))
        ctx.count("step_change_points_probed", len(changes))
    else:
        size = G.space_size(m.cls)
        for _ in range(ctx.scale(300, 10000)):
            n = rng.randrange(size - 1)
            s1, x = G.try_decode(m.cls, G.mk(m.cls, n))
            s2, y = G.try_decode(m.cls, G.mk(m.cls, n + 1))
            if s1 == "ok" and _finite(x):
                pts.append((x, y if s2 == "ok" and _finite(y) else None))
    for x, y in pts:
        fx = float(x)
        out += [x, math.nextafter(fx, math.inf), math.nextafter(fx, -math.inf)]
        if y is not None and abs(x) < 1e300 and abs(y) < 1e300:
            mid = (float(x) + float(y)) / 2
            out += [mid, math.nextafter(mid, math.inf), math.nextafter(mid, -math.inf)]
    return [v for v in out if not (isinstance(v, float) and math.isnan(v)) and lo <= v <= hi]


def _out_of_range_values(ctx, m):
    """[(value, fractional?, side)] strictly outside the declared range."""
    rng = m.rng
    out = []
    for side, bound, sign in (("hi", m.hi, 1), ("lo", m.lo, -1)):
        if not math.isfinite(bound):
            continue
        gap = m.gap_at(bound, side)
        g = float(gap)
        fb = _frac(bound)
        cands = [math.nextafter(float(bound), sign * math.inf)]
        for f in (Fraction(1, 1000), Fraction(1, 4), Fraction(1, 2), Fraction(999, 1000), 1, Fraction(3, 2), 2, 3, 10, 1000):
            x = fb + sign * gap * f
            cands.append(int(x) if x.denominator == 1 else float(x))
        cands += [bound + sign, bound + sign * 0.5, bound * 2, bound * 10, bound + sign * 2**31, bound + sign * 2**32,
                  sign * 2**63, sign * (2**63 - 1), sign * (2**64 + 1), sign * 1e300, sign * math.inf, sign * 10**400,
                  sign * 10**4300, sign * 10**5000, sign * 10**6000, sign * (10**4299 + 7),
                  sign * 255, sign * 256, sign * 65535, sign * 65536, sign * 2**31, sign * 2**32, float(sign * 2**31)]
        for _ in range(ctx.scale(60, 1500)):
            d = g * 2 ** rng.uniform(0, 40)
            cands.append(float(fb) + sign * d)
            cands.append(int(float(fb) + sign * d))
        for v in cands:
            if isinstance(v, float) and math.isnan(v):
                continue
            outside = v > bound if side == "hi" else v < bound
            if not outside:
                continue
            if _finite(v):
                fractional = abs(_frac(v) - fb) < gap
            else:
                fractional = False
            out.append((v, fractional, side))
    return out


def _bucket(v):
    if isinstance(v, int):
        return ("i", v.bit_length() // 4, v < 0)
    if not math.isfinite(v):
        return ("f", "inf", v < 0)
    return ("f", 0 if v == 0 else math.frexp(v)[1] // 4, v < 0, v == int(v) if abs(v) < 1e300 else True)


_O_CHILD = r"""
import json, math, sys
sys.path.insert(0, sys.argv[1])
from xknx.dpt.dpt import DPTBase, DPTNumeric
from xknx.exceptions import ConversionError
assert_active = False
try:
    assert False
except AssertionError:
    assert_active = True
out = {"assert_active": assert_active, "optimize": sys.flags.optimize, "cases": []}
seen = set()
for cls in DPTBase.dpt_class_tree():
    if not issubclass(cls, DPTNumeric) or cls in seen:
        continue
    seen.add(cls)
    for bound, sign in ((cls.value_max, 1), (cls.value_min, -1)):
        if not math.isfinite(bound):
            continue
        for v in (bound + sign, bound + 2 * sign, bound + 10 * sign, bound + 73 * sign, bound + 1000 * sign, bound * 2 + sign,
                  bound + sign * 2**31, sign * 2**63, sign * (2**64 + 1), sign * 200, sign * 256, sign * 65536, sign * 10**400):
            if (v > bound) if sign > 0 else (v < bound):
                try:
                    p = cls.to_knx(v)
                    res = "accepted:" + repr(p)
                except ConversionError:
                    res = "ConversionError"
                except BaseException as exc:
                    res = "raises:" + type(exc).__name__
                out["cases"].append([cls.__name__, hex(v) if isinstance(v, int) else repr(v), res])
print(json.dumps(out))
"""


def _python_o_pass(ctx):
    """Out-of-range part once more in a child interpreter started with -O (assert statements compiled away)."""
    import json
    import os
    import subprocess
    import sys

    src = os.environ.get("XKNX_SRC", "/repo")
    try:
        proc = subprocess.run([sys.executable, "-O", "-c", _O_CHILD, src], capture_output=True, text=True, timeout=120, check=False)
        data = json.loads(proc.stdout)
    except BaseException as exc:  # noqa: BLE001
        ctx.inconclusive(f"python -O child failed: {type(exc).__name__}")
        return
    if data.get("assert_active") or not data.get("optimize"):
        ctx.inconclusive("python -O child did not run optimised")
        return
    owners = {c.__name__: _own(c) for c in G.concrete_dpt_classes()}
    for name, value, res in data["cases"]:
        ctx.ev()
        if res == "ConversionError":
            ctx.count("python_O_out_of_range_rejected")
            continue
        own = owners.get(name, name)
        how = "out-of-range-accepted" if res.startswith("accepted:") else f"out-of-range-raises-{res.split(':', 1)[1]}"
        ctx.count("python_O_out_of_range_not_rejected")
        ctx.violation(
            f"{own}-{how}-under-python-O",
            {"cls": name, "value": "inthex:" + value if value.startswith(("0x", "-0x")) else value, "value_type": "int" if "0x" in value else "float",
             "result": res[:120], "interpreter": "python -O"},
            f"under python -O {name}.to_knx({value[:40]}) -> {res[:80]} instead of ConversionError"[:300],
        )
    ctx.distinct(("python-O", len(data["cases"]) > 0))


def run(ctx):
    ctx.rule = (
        "per DPTNumeric class: in-range values (bounds, integers of the range, random floats, floats hugging decode-image points and midpoints) judged "
        "accepted/type/length/decodable/within one measured step; out-of-range values (fractions of a step .. 10^400 beyond each finite bound) judged "
        "ConversionError; distinct = (class, in/out, magnitude bucket, int/float)"
    )
    ctx.require("in_range_accepted", "in_range_exact", "in_range_within_one_step", "out_of_range_rejected", "classes_with_enumerated_image", "classes_with_walked_neighbours", "python_O_out_of_range_rejected")
    classes = [c for c in G.concrete_dpt_classes() if issubclass(c, DPTNumeric)]
    ctx.extra["numeric_classes"] = len(classes)
    if len(classes) < 100:
        ctx.inconclusive(f"only {len(classes)} numeric DPT classes discovered")
    reps = G.representatives(classes)
    ctx.extra["behaviour_signatures"] = len(reps)
    affected = {}
    for i, cls in enumerate(classes):
        if not ctx.mine(i):
            continue
        m = Model(cls, ctx.rng)
        ctx.count("classes_run")
        ctx.count("classes_with_enumerated_image" if m.image is not None else "classes_with_walked_neighbours")
        if m.image is not None:
            ctx.count("image_points_enumerated", len(m.image))
        if not (isinstance(m.lo, (int, float)) and isinstance(m.hi, (int, float)) and m.lo <= m.hi):
            ctx.inconclusive(f"{cls.__name__}: no usable declared range ({m.lo!r}, {m.hi!r})")
            continue
        full = (not ctx.quick) or cls in reps
        n_float = ctx.scale(3000 if cls in reps else 600, 200000 if cls in reps else 40000)
        before = dict(ctx.violation_counts)
        buckets = set()
        for v in _in_range_values(ctx, m, full, n_float):
            judge_in_range(ctx, m, v)
            buckets.add(("in", *_bucket(v)))
        for v, fractional, side in _out_of_range_values(ctx, m):
            judge_out_of_range(ctx, m, v, fractional, side)
            buckets.add(("out", *_bucket(v)))
        for b in sorted(buckets, key=repr):
            ctx.distinct((cls.__name__, *b))
        for mech, n in ctx.violation_counts.items():
            if n != before.get(mech, 0):
                affected.setdefault(mech, []).append(cls.__name__)
        if i % 30 == 0:
            ctx.sample({"cls": cls.__name__, "declared": [repr(m.lo), repr(m.hi)],
                        "image_points": None if m.image is None else len(m.image),
                        "image_min_max": None if not m.image else [repr(m.image[0]), repr(m.image[-1])]})
    if ctx.shard == 0:
        _python_o_pass(ctx)
    if affected:
        ctx.extra["classes_per_mechanism"] = {k: sorted(v) for k, v in sorted(affected.items())}


def replay(ctx, witness):
    cls = G.class_by_name(witness["cls"])
    v = _parse(witness["value"])
    if witness.get("value_type") == "float":
        v = float(v)
    m = Model(cls, ctx.rng)
    if m.lo <= v <= m.hi:
        judge_in_range(ctx, m, v)
    else:
        side = "hi" if v > m.hi else "lo"
        bound = m.hi if side == "hi" else m.lo
        fractional = _finite(v) and abs(_frac(v) - _frac(bound)) < m.gap_at(bound, side)
        judge_out_of_range(ctx, m, v, fractional, side)
    ctx.distinct(("replay", cls.__name__))
    ctx.distinct(("replay", witness["value"]))
