"""C26 heartbeat: gives up exactly after four consecutive failures (virtual time, exhaustive outcome strings)."""

from __future__ import annotations

import asyncio
import itertools

from vlib.peers_tunnel import Gateway
from vlib.vloop import Deadlock, LoopBudget, new_loop
from xknx import XKNX
from xknx.core import XknxConnectionState
from xknx.exceptions import CommunicationError
from xknx.io.const import CONNECTIONSTATE_REQUEST_TIMEOUT, HEARTBEAT_RATE
from xknx.io.data_connection import ConnectionHeartbeat
from xknx.io.device_management_connection import UDPDeviceManagementConnection
from xknx.io.tunnel import UDPTunnel
from xknx.knxip import ErrorCode

LEVEL = "fault_enumeration"
TECHNIQUE = ("runtime monitor: online reference automaton of the heartbeat (period / 3 repetitions / give up once after the 4th "
             "consecutive failure or a raise / quiet end) over the observed (virtual call time, outcome) history and on_failure calls")
LEVEL_TEXT = (
    "Every outcome string over {success, failure status, no answer within 10 s, raises CommunicationError, returns None} up to the "
    "stated length is fed call by call to the real ConnectionHeartbeat on the virtual clock (a string is run once per distinct "
    "consumed prefix: the unconsumed tail of a script cannot influence the run); each string also with stop() at every call index, "
    "with a redundant start() at every call index, with on_failure restarting the heartbeat inline, and with stop() / start() "
    "after such an inline restart (object reuse). The same automaton then judges a real UDPTunnel whose ConnectionStateRequests "
    "are answered / refused / ignored by a scripted gateway for every string up to a shorter bound, on a fresh tunnel object and "
    "on one that went through user disconnect()/connect() cycles before (auto-reconnect on and off). Bounded exhaustive fault "
    "enumeration: the bound is the string length."
)
LEVEL_NOTE = (
    "Trusted: asyncio timers on the virtual clock, the scripted gateway. Judged: number and order of calls, that a repetition "
    "follows a failure without a heartbeat period in between, that the next round's first request comes one HEARTBEAT_RATE after the END of the previous (successful) round "
    "- also when that round consumed time for lost answers, timeouts and repetitions (a start-anchored / fixed-rate timer that "
    "shortens the pause after a slow round fails) -, exactly one on_failure "
    "after the 4th consecutive failure or a raise and none otherwise, no call after the end / after stop(), never two requests at "
    "once. Recorded only: exact equality of the period with round end + 70 s, on_failure time."
)
SHARDS = {"quick": 1, "thorough": 16}
TIMEOUT = {"quick": 300, "thorough": 3000}

EPS = 1e-6
ALPHABET = "SFNRX"
FAIL_STATUS = "E_CONNECTION_ID"


class Monitor:
    """Reference automaton, driven by observed times (so that only what the statement fixes is judged)."""

    def __init__(self, t_start):
        self.last_round_duration = 0.0
        self.periods_after_slow_round = 0
        self.restart(t_start)
        self.failures_declared = 0
        self.problem = None  # (mechanism, detail)
        self.exact_period = 0
        self.inexact_period = 0


    def restart(self, t):
        self.state = "idle"  # idle | retry | ended
        self.anchor_lo = self.anchor_hi = t
        self.fails = 0
        self.round_start = None
        self.last_end = None
        self.expect_failure = False
        self.in_call = False

    def flag(self, mech, **detail):
        if self.problem is None:
            self.problem = (mech, detail)

    def call_start(self, t):
        if self.in_call:
            self.flag("two-connectionstate-requests-at-once", t=t)
        self.in_call = True
        if self.state == "ended":
            self.flag("request-after-heartbeat-ended", t=t)
        elif self.state == "idle":
            lo, hi = self.anchor_lo + HEARTBEAT_RATE, self.anchor_hi + HEARTBEAT_RATE
            if t < lo - EPS:
                self.flag("request-before-heartbeat-period-elapsed", t=t, earliest=lo)
            elif t > hi + EPS:
                self.flag("request-later-than-heartbeat-period", t=t, latest=hi)
            if abs(t - hi) <= EPS:
                self.exact_period += 1
            else:
                self.inexact_period += 1
            if self.last_round_duration >= CONNECTIONSTATE_REQUEST_TIMEOUT - EPS:
                self.periods_after_slow_round += 1  # the earlier round lost answers: timeouts, repetitions, then success
            self.last_round_duration = 0.0
            self.round_start = t
        else:  # retry
            if t < self.last_end - EPS:
                self.flag("repetition-before-previous-request-ended", t=t)
            elif t >= self.last_end + HEARTBEAT_RATE - EPS:
                self.flag("repetition-delayed-by-a-heartbeat-period", t=t, previous_end=self.last_end)

    def call_end(self, t, outcome):
        """outcome: S | F | N (both failures) | R | X"""
        self.in_call = False
        self.last_end = t
        if self.state == "ended":
            return
        if outcome == "S":
            self.fails = 0
            self.state = "idle"
            # the next period starts when this round is over: time spent waiting for answers and repeating is not
            # part of the period ("sent every heartbeat period" = one period between a finished round and the next request)
            self.anchor_lo = self.anchor_hi = t
            self.last_round_duration = t - self.round_start
        elif outcome in "FN":
            self.fails += 1
            if self.fails == 4:
                self.state = "ended"
                self.expect_failure = True
            else:
                self.state = "retry"
        elif outcome == "R":
            self.state = "ended"
            self.expect_failure = True
        else:  # X: connection already gone
            self.state = "ended"
            self.expect_failure = False

    def on_failure(self, t):
        self.failures_declared += 1
        if self.state != "ended":
            self.flag(f"declared-lost-after-{self.fails}-consecutive-failures", t=t)
        elif not self.expect_failure:
            self.flag("declared-lost-after-quiet-end" if self.failures_declared == 1 else "declared-lost-more-than-once", t=t)
        else:
            self.expect_failure = False  # exactly once
            if self.last_end is not None and t < self.last_end - EPS:
                self.flag("declared-lost-before-last-request-ended", t=t)

    def finish(self, stopped=False):
        if stopped:
            return
        if self.state != "ended":
            self.flag(f"heartbeat-went-silent-in-state-{self.state}-after-{self.fails}-failures")
        elif self.expect_failure:
            self.flag("loss-not-declared-after-four-failures-or-raise")


# ---------------------------------------------------------------------------
# part 1: the real ConnectionHeartbeat with a scripted send_connectionstate


def run_script(loop, script, stop_at=None, restart=False, start_at=None):
    """Run one outcome string; returns (monitor, history, stopped, leftover tasks)."""
    hist = []
    state = {"i": 0, "stopped": False}
    done = asyncio.Event()
    holder = {}

    async def send_connectionstate():
        i = state["i"]
        state["i"] += 1
        o = script[i] if i < len(script) else "X"
        t = loop.time()
        mon.call_start(t)
        hist.append((round(t - t0, 6), o))
        if stop_at is not None and i == stop_at:
            loop.call_soon(_stop)
        if start_at is not None and i == start_at:
            state["aborted"] = i
            loop.call_soon(_start_again)
        try:
            if o == "X":
                if start_at is None or state.get("restarted_externally"):
                    done.set()
                return None
            if o == "S":
                await asyncio.sleep(0.01)
                return True, None
            if o == "F":
                await asyncio.sleep(0.01)
                return False, FAIL_STATUS
            if o == "N":
                await asyncio.sleep(CONNECTIONSTATE_REQUEST_TIMEOUT)
                return False, None
            await asyncio.sleep(0.01)
            raise CommunicationError("scripted")
        finally:
            if state["stopped"]:
                mon.in_call = False
            elif state.get("aborted") == i and state.get("restarted_externally"):
                pass  # this call belonged to the heartbeat that start() has just replaced
            else:
                mon.call_end(loop.time(), o)

    def _start_again():
        # the owner starts the heartbeat again (e.g. a fresh connection on the same object): exactly one loop may run
        state["restarted_externally"] = True
        hist.append((round(loop.time() - t0, 6), "start()"))
        holder["hb"].start()
        mon.restart(loop.time())

    def _stop():
        state["stopped"] = True
        state["n_at_stop"] = len(hist)
        state["fail_at_stop"] = mon.failures_declared
        holder["hb"].stop()
        done.set()

    async def on_failure():
        t = loop.time()
        hist.append((round(t - t0, 6), "on_failure"))
        mon.on_failure(t)
        if restart and state["i"] < len(script):
            hb = holder["hb"]
            hb.stop()
            hb.start()
            mon.restart(loop.time())
        elif start_at is None or state.get("restarted_externally"):
            done.set()

    async def main():
        hb = ConnectionHeartbeat(name="verif", send_connectionstate=send_connectionstate, on_failure=on_failure)
        holder["hb"] = hb
        hb.start()
        budget = (len(script) + 2) * (HEARTBEAT_RATE + 4 * CONNECTIONSTATE_REQUEST_TIMEOUT + 1)
        try:
            async with asyncio.timeout(budget):
                await done.wait()
        except TimeoutError:
            pass
        n_before = len(hist)
        await asyncio.sleep(3 * HEARTBEAT_RATE)  # quiet afterwards?
        late = hist[state.get("n_at_stop", n_before):]
        others = [t for t in asyncio.all_tasks() if t is not asyncio.current_task() and not t.done()]
        hb.stop()
        return late, len(others)

    t0 = loop.time()
    mon = Monitor(t0)
    loop.iterations = 0  # the loop is reused: the iteration budget is per script
    late, leftover = loop.run(main(), max_vtime=1e6)
    if state["stopped"]:
        if late:
            mon.flag("request-or-failure-after-stop", events=late)
    elif late and mon.problem is None:
        mon.flag("request-after-heartbeat-ended", events=late)
    mon.finish(stopped=state["stopped"])
    if state["stopped"] and mon.failures_declared > state.get("fail_at_stop", 0):
        mon.flag("declared-lost-after-stop")
    return mon, hist, state["stopped"], leftover


def consumed_len(script):
    """How many outcomes of `script` the reference consumes (statement semantics), with restart or not irrelevant."""
    fails = 0
    for i, o in enumerate(script):
        if o == "S":
            fails = 0
        elif o in "FN":
            fails += 1
            if fails == 4:
                return i + 1
        else:
            return i + 1
    return len(script)


def scripts_exact(n):
    """All strings of length n that are consumed completely (one representative per distinct consumed prefix)."""
    # depth-first over prefixes that have not ended yet: (string, consecutive failures)
    stack = [("", 0)]
    while stack:
        s, fails = stack.pop()
        if len(s) == n:
            yield s
            continue
        last = len(s) == n - 1
        for o in reversed(ALPHABET):
            if o == "S":
                stack.append((s + o, 0))
            elif o in "FN" and fails + 1 < 4:
                stack.append((s + o, fails + 1))
            elif last:
                yield s + o  # ends the heartbeat: nothing after it is consumed


def scripts_upto(n):
    """Shortest first, so that the first witness of a break is a short one."""
    for length in range(n + 1):
        yield from scripts_exact(length)


def represented(n):
    """Number of strings of length <= n over the alphabet (all are covered through their consumed prefix)."""
    return sum(len(ALPHABET) ** k for k in range(n + 1))


def judge_script(ctx, loop, script, stop_at=None, restart=False, start_at=None):
    ctx.ev()
    try:
        mon, hist, stopped, leftover = run_script(loop, script, stop_at, restart, start_at)
    except (Deadlock, LoopBudget) as exc:
        ctx.inconclusive(f"heartbeat script {script!r} stop_at={stop_at} restart={restart}: driver did not finish: {exc!r}")
        return
    calls = sum(1 for _, o in hist if o != "on_failure")
    ctx.count("connectionstate_calls", calls)
    ctx.count("on_failure_calls", mon.failures_declared)
    ctx.count("period_exact_end_plus_70", mon.exact_period)
    ctx.count("period_other_within_window", mon.inexact_period)
    ctx.count("periods_judged_after_a_round_with_timeouts", mon.periods_after_slow_round)
    if leftover:
        ctx.count("tasks_alive_after_end_recorded", leftover)
    if stopped:
        ctx.count("stopped_runs")
    kind = ("restart+stop" if restart and stop_at is not None else "restart+start" if restart and start_at is not None
            else "start" if start_at is not None else "stop" if stop_at is not None else "restart" if restart else "plain")
    ctx.count(f"runs_{kind}")
    ctx.distinct((kind, script, stop_at, start_at))
    if len(script) in (3, 5) and script.count("F") + script.count("N") >= 3:
        ctx.sample({"script": script, "variant": kind, "stop_at": stop_at, "history": hist[:14]}, cap=5)
    if mon.problem is not None:
        mech, detail = mon.problem
        ctx.violation(f"heartbeat-{mech}",
                      {"part": "heartbeat", "script": script, "stop_at": stop_at, "restart": restart, "start_at": start_at,
                       "history": hist, "detail": detail},
                      f"ConnectionHeartbeat with outcomes {script!r} ({kind}"
                      f"{'' if stop_at is None else ' stop() at call ' + str(stop_at)}"
                      f"{'' if start_at is None else ' start() at call ' + str(start_at)}): {mech}; history {hist[:12]}")


# ---------------------------------------------------------------------------
# part 2: a real UDPTunnel, heartbeats answered by the scripted gateway


def run_tunnel(script, reuse=0, auto=True, kind="tunnel"):
    """script over o(k) / e(rror status) / s(ilent); returns (monitor, history, losses, requests, late requests)."""
    loop = new_loop()
    gw = Gateway(loop)
    hist = []
    box = {"losses": 0}

    def hb_policy(n, body):
        n -= box.get("offset", 10 ** 9)
        o = script[n] if 0 <= n < len(script) else "o"
        # r: a ConnectionStateResponse whose status octet (0x30) is outside ErrorCode, as raw bytes: not a positive answer
        return {"o": "ok", "e": ErrorCode.E_CONNECTION_ID, "s": "silent", "r": 0x30}[o]

    gw.hb_policy = hb_policy
    devconn = kind == "devconn"

    def close_silent(mon, t):
        if box.get("pending") == "s":
            box.pop("pending")
            mon.call_end(t, "N")

    def listener(t, kind, info):
        mon = box.get("mon")
        if mon is None:
            return
        typ = info.get("type")
        if kind == "tx" and typ == "ConnectionStateRequest":
            close_silent(mon, box.get("silent_deadline", t))
            n = gw.n_hb - box.get("offset", 10 ** 9)  # index of this request (the gateway counts it after the note)
            o = script[n] if 0 <= n < len(script) else "o"
            if box.get("user_disconnect"):
                box["late"] = box.get("late", 0) + 1
            mon.call_start(t)
            hist.append((round(t - box["t0"], 6), o))
            box["pending"] = "s" if o == "r" else o  # an unparsable answer is no answer: the request times out
            box["silent_deadline"] = t + CONNECTIONSTATE_REQUEST_TIMEOUT
        elif kind == "rx" and typ == "ConnectionStateResponse":
            box["raw_answer"] = str(info.get("status", "")).startswith("RAW_")
        elif kind == "rx_done" and typ == "ConnectionStateResponse" and box.get("raw_answer"):
            box["raw_answers"] = box.get("raw_answers", 0) + 1
        elif kind == "rx_done" and typ == "ConnectionStateResponse":
            o = box.pop("pending", None)
            if o is not None:
                mon.call_end(t, "S" if o == "o" else "F")
        elif kind == "tx" and typ == "DisconnectRequest" and devconn and not box.get("user_disconnect"):
            # the device-management connection closes itself when the heartbeat gives up (no connection manager there)
            hist.append((round(t - box["t0"], 6), "DISCONNECTED"))
            close_silent(mon, t)
            mon.on_failure(t)
            box["losses"] += 1

    gw.listeners.append(listener)

    def state_cb(state):
        t = loop.time()
        mon = box.get("mon")
        hist.append((round(t - box.get("t0", t), 6), state.name))
        if mon is None:
            return
        if state is XknxConnectionState.CONNECTED:
            mon.restart(t)
            box.pop("pending", None)
        elif state is XknxConnectionState.DISCONNECTED and not box.get("user_disconnect"):
            # the tunnel gave the connection up
            close_silent(mon, t)
            mon.on_failure(t)
            box["losses"] += 1

    async def main():
        xknx = XKNX()
        xknx.connection_manager.register_connection_state_changed_cb(state_cb)
        if devconn:
            tunnel = UDPDeviceManagementConnection(gateway_ip="10.0.0.2", gateway_port=3671, local_ip="10.0.0.1")
        else:
            tunnel = UDPTunnel(xknx, cemi_received_callback=lambda raw: None, gateway_ip="10.0.0.2", gateway_port=3671,
                               local_ip="10.0.0.1", auto_reconnect=auto, auto_reconnect_wait=3)
        box["t0"] = loop.time()
        await tunnel.connect()
        for n in range(reuse):  # object reuse: the user closes and re-opens the connection on the same tunnel object
            await asyncio.sleep(1 + 80 * (n % 2))
            box["user_disconnect"] = True
            await tunnel.disconnect()
            await asyncio.sleep(2)
            box["user_disconnect"] = False
            await tunnel.connect()
        script_offset = gw.n_hb
        box["offset"] = script_offset
        mon = Monitor(loop.time())
        box["mon"] = mon
        # until the whole script was consumed and one healthy heartbeat followed
        end = loop.time() + (len(script) + 3) * (HEARTBEAT_RATE + 4 * CONNECTIONSTATE_REQUEST_TIMEOUT + 5)
        while loop.time() < end and gw.n_hb - script_offset <= len(script) and (auto or not box["losses"]):
            await asyncio.sleep(5)
        await asyncio.sleep(1)
        box["user_disconnect"] = True
        await tunnel.disconnect()
        await asyncio.sleep(3 * HEARTBEAT_RATE)
        return mon

    try:
        mon = loop.run(main(), max_vtime=1e6)
    finally:
        loop.finish()
    if box.get("raw_answers"):
        hist.append(("raw_status_answers", box["raw_answers"]))
    if gw.receive_path_exceptions:
        hist.append(("receive_path_exceptions_recorded", [e[2] for e in gw.receive_path_exceptions]))
    return mon, hist, box["losses"], gw.n_hb - box.get("offset", 0), box.get("late", 0)


def expected_losses(script):
    fails = 0
    losses = 0
    for o in script:
        if o == "o":
            fails = 0
        else:
            fails += 1
            if fails == 4:
                losses += 1
                fails = 0
    return losses


def judge_tunnel(ctx, script, reuse=0, auto=True, kind="tunnel"):
    ctx.ev()
    if kind == "devconn":
        auto = False  # a device-management connection closes for good when its heartbeat gives up
    try:
        mon, hist, losses, n_hb, late = run_tunnel(script, reuse, auto, kind)
    except (Deadlock, LoopBudget) as exc:
        ctx.inconclusive(f"tunnel heartbeat script {script!r}: driver did not finish: {exc!r}")
        return
    ctx.count("tunnel_runs" if kind == "tunnel" else "devmgmt_runs")
    if kind == "devconn":
        ctx.count("devmgmt_periods_judged_after_a_round_with_timeouts", mon.periods_after_slow_round)
    if reuse:
        ctx.count("tunnel_runs_reused_object" if auto else "tunnel_runs_reused_object_noauto")
    if hist and hist[-1][0] == "receive_path_exceptions_recorded":
        ctx.count("receive_path_exceptions_recorded", len(hist[-1][1]))
    ctx.count("tunnel_connectionstate_requests", n_hb)
    ctx.count("tunnel_periods_judged_after_a_round_with_timeouts", mon.periods_after_slow_round)
    ctx.count("tunnel_raw_status_answers", sum(v for k, v in hist if k == "raw_status_answers"))
    ctx.count("tunnel_losses_declared", losses)
    ctx.distinct((kind, script, reuse, auto))
    if script in ("ssss", "eseo", "sseso"):
        ctx.sample({"tunnel_script": script, "history": hist[:20]}, cap=8)
    problem = mon.problem
    want = expected_losses(script) if auto else min(1, expected_losses(script))
    if problem is None and losses != want:
        problem = ("loss-count-differs", {"expected": want, "observed": losses})
    if problem is None and n_hb <= len(script) and (auto or not losses):
        problem = ("stopped-early", {"requests": n_hb})
    if problem is None and late:
        problem = ("request-after-user-disconnect", {"late_requests": late})
    if problem is not None:
        mech, detail = problem
        ctx.violation(f"{'tunnel' if kind == 'tunnel' else 'devmgmt-connection'}-heartbeat-{mech}",
                      {"part": "tunnel", "kind": kind, "script": script, "reuse": reuse, "auto": auto,
                                                    "history": hist, "detail": detail},
                      f"{'UDPTunnel' if kind == 'tunnel' else 'UDPDeviceManagementConnection'} (auto_reconnect={auto}, {reuse} disconnect()/connect() cycles on the same object before) with "
                      f"heartbeat answers {script!r} (o=ok e=error status s=silent r=raw status octet 0x30): {mech}; history {hist[-14:]}")


# ---------------------------------------------------------------------------


def run(ctx):
    n = ctx.scale(8, 12)
    n_stop = ctx.scale(5, 7)
    n_restart = ctx.scale(5, 8)
    n_tunnel = ctx.scale(5, 8)
    ctx.rule = (f"all outcome strings over {{S,F,N,R,X}} of length <= {n} (one run per distinct consumed prefix), each string of "
                f"length <= {n_stop} also with stop() at every call index, each of length <= {n_restart} that reaches on_failure also "
                f"with on_failure restarting the heartbeat; real UDPTunnel with gateway answers over {{ok,error,silent}} (+ raw status octet outside ErrorCode up to length max(4, bound-2)) of length <= "
                f"{n_tunnel}; distinct = (variant, string, stop index)")
    ctx.require("connectionstate_calls", "on_failure_calls", "runs_plain", "runs_stop", "runs_restart", "runs_restart+stop", "runs_restart+start", "runs_start",
                "tunnel_runs_reused_object", "tunnel_runs_reused_object_noauto", "tunnel_raw_status_answers", "periods_judged_after_a_round_with_timeouts",
                "tunnel_periods_judged_after_a_round_with_timeouts", "devmgmt_periods_judged_after_a_round_with_timeouts",
                "devmgmt_runs", "tunnel_runs",
                "tunnel_losses_declared", "stopped_runs")
    loop = new_loop()
    idx = 0
    done_here = 0
    try:
        for script in scripts_upto(n):
            idx += 1
            if not ctx.mine(idx):
                continue
            done_here += 1
            if done_here % 2000 == 0:
                # keep the virtual clock small: at ~1e8 s a 10 ms timer is below float resolution of the clock
                leaked = loop.finish()
                if leaked:
                    ctx.count("tasks_cancelled_at_loop_end_recorded", len(leaked))
                loop = new_loop()
            judge_script(ctx, loop, script)
            if len(script) <= n_stop:
                for k in range(len(script) + 1):
                    judge_script(ctx, loop, script, stop_at=k)
            if len(script) <= n_restart and consumed_len(script) == len(script) and script and (
                    script[-1] == "R" or (len(script) >= 4 and all(c in "FN" for c in script[-4:]))):
                # the string ends in a declared loss: append every continuation of length <= 2 after the restart
                for tail in ("", "S", "F", "X", "R", "FFFF", "NS", "FFFN", "SFFFF"):
                    judge_script(ctx, loop, script + tail, restart=True)
                # object reuse: after on_failure restarted the heartbeat inline, stop() must still end it and a
                # further start() must leave exactly one loop
                for tail in ("SS", "FS", "NSS"):
                    for k in range(len(script), len(script) + len(tail) + 1):
                        judge_script(ctx, loop, script + tail, restart=True, stop_at=k)
                        judge_script(ctx, loop, script + tail + "S", restart=True, start_at=k)
            if len(script) <= n_stop:
                for k in range(len(script) + 1):  # redundant start() while running
                    judge_script(ctx, loop, script + "SS", start_at=k)
    finally:
        leaked = loop.finish()
        if leaked:
            ctx.count("tasks_cancelled_at_loop_end_recorded", len(leaked))
    ctx.extra["strings_represented"] = represented(n)
    ctx.extra["bound"] = {"heartbeat_string_length": n, "stop_length": n_stop, "restart_length": n_restart, "tunnel_length": n_tunnel}

    idx = 0
    for length in range(1, n_tunnel + 1):
        for tup in itertools.product("oesr" if length <= max(4, n_tunnel - 2) else "oes", repeat=length):
            idx += 1
            if not ctx.mine(idx):
                continue
            judge_tunnel(ctx, "".join(tup))
            judge_tunnel(ctx, "".join(tup), reuse=1 + (idx % 2))  # the same tunnel object after disconnect() + connect()
            if length <= 4:
                judge_tunnel(ctx, "".join(tup), reuse=1, auto=False)
                judge_tunnel(ctx, "".join(tup), reuse=idx % 2, kind="devconn")
    ctx.exhaustive = True


def replay(ctx, witness):
    ctx.rule = "replay of one recorded script"
    if witness.get("part") == "tunnel":
        judge_tunnel(ctx, witness["script"], witness.get("reuse", 0), witness.get("auto", True), witness.get("kind", "tunnel"))
        ctx.distinct("replay")
        ctx.distinct("replay2")
        return
    loop = new_loop()
    try:
        judge_script(ctx, loop, witness["script"], witness.get("stop_at"), bool(witness.get("restart")), witness.get("start_at"))
    finally:
        loop.finish()
    ctx.distinct("replay")
    ctx.distinct("replay2")
