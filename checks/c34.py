"""C34 telegram callbacks: exactly the subscribed telegrams, once; raising callbacks isolate."""

from __future__ import annotations

import random

from xknx.dpt import DPTArray, DPTBinary
from xknx.exceptions import CommunicationError, ConversionError, CouldNotParseTelegram
from xknx.telegram import AddressFilter, Telegram, TelegramDirection
from xknx.telegram.address import GroupAddress, GroupAddressType, IndividualAddress, InternalGroupAddress
from xknx.telegram.apci import DeviceDescriptorRead, DeviceDescriptorResponse
from xknx.telegram.tpci import TDataConnected, TDataIndividual
from xknx.telegram.apci import GroupValueRead, GroupValueResponse, GroupValueWrite

import asyncio

from xknx.core import ValueReader

from vlib.core_harness import (
    ProbeDevice,
    bounded,
    inject_incoming,
    make_xknx,
    queue_outgoing,
    run_case,
    watch_device_process,
)

LEVEL = "exploration"
TECHNIQUE = (
    "runtime monitor: generated callback registrations x telegram streams through the real TelegramQueue; observed call multiset "
    "per (callback, telegram) compared with an independent reference matcher written from the C02/C34 statements"
)
LEVEL_TEXT = (
    "Per case 3-9 registrations (match-all / address list / address filters / both, outgoing flag, raising or not, one optionally through "
    "the XKNX constructor) over a pool of group and internal addresses in each of the three notations, 20-120 incoming/outgoing telegrams "
    "processed by the real queue in bursts, registrations added/removed between bursts; in a third of the bursts xknx's own registrants "
    "take part: 1-3 pending ValueReader.read() calls (same or different addresses, answered by a response/write inside the burst or timing "
    "out) with a user callback registered after them; point-to-point telegrams (IndividualAddress destination, T_Data_Individual / "
    "T_Data_Connected, incoming and outgoing) are mixed in: match-all callbacks must see them, filters / address lists never. "
    "Exploration: registrations and streams are sampled."
)
LEVEL_NOTE = (
    "Trusted: the reference matcher (ranges per level, open ends, reversed ranges, '*', 'i-' globs with * and ?), kept inside the documented "
    "grammar and the matching notation (C02's corner cases are C02's). Judged: per processed telegram each registered matching callback is "
    "called exactly once, non-matching / outgoing-not-requested never; a raising callback changes nothing for later callbacks or for "
    "Device.process. Call order is recorded, not judged. Empty lists (address_filters=[] / group_addresses=[]) and callbacks that "
    "unregister a callback from inside a USER callback are exercised and recorded, not judged (statement silent); what xknx's own "
    "ValueReader callbacks do to the list is not excused: the user callbacks are judged for every processed telegram, including the "
    "GroupValueReads the readers queue."
)
SHARDS = {"quick": 1, "thorough": 16}
TIMEOUT = {"quick": 300, "thorough": 3000}

EXC = {
    "ValueError": lambda: ValueError("cb"),
    "KeyError": lambda: KeyError("cb"),
    "CouldNotParseTelegram": lambda: CouldNotParseTelegram("cb"),
    "ConversionError": lambda: ConversionError("cb"),
    "CommunicationError": lambda: CommunicationError("cb"),
    "ZeroDivisionError": lambda: ZeroDivisionError("cb"),
    "AssertionError": lambda: AssertionError("cb"),
}
LEVEL_MAX = {"LONG": (31, 7, 255), "SHORT": (31, 2047), "FREE": (65535,)}
IBODIES = ["alpha", "alpha1", "beta", "b", "a.b", "x_y", "alp", "alphabet", "Alpha", "ALPHA", "Beta", "B", "aLp"]  # letter case distinguishes internal addresses


# --------------------------------------------------------------------------
# reference matcher (written from the statements, not from address_filter.py)
# --------------------------------------------------------------------------


def ref_levels(raw: int, notation: str) -> tuple[int, ...]:
    if notation == "LONG":
        return ((raw >> 11) & 0x1F, (raw >> 8) & 0x07, raw & 0xFF)
    if notation == "SHORT":
        return ((raw >> 11) & 0x1F, raw & 0x7FF)
    return (raw,)


def ref_level_match(level_text: str, value: int) -> bool:
    for part in level_text.split(","):
        if part == "*":
            lo, hi = 0, 65535
        elif "-" in part:
            a, b = part.split("-")
            lo = int(a) if a else 0
            hi = int(b) if b else 65535
            if lo > hi:
                lo, hi = hi, lo
        else:
            lo = hi = int(part)
        if lo <= value <= hi:
            return True
    return False


def ref_glob(pat: str, text: str) -> bool:
    """Glob with * and ? only."""
    if not pat:
        return not text
    if pat[0] == "*":
        return any(ref_glob(pat[1:], text[i:]) for i in range(len(text) + 1))
    if not text:
        return False
    if pat[0] == "?" or pat[0] == text[0]:
        return ref_glob(pat[1:], text[1:])
    return False


def ref_filter_match(pattern: str, addr: str, notation: str) -> bool:
    """addr: 'i-xxx' or decimal raw group address."""
    if pattern.startswith("i-"):
        return addr.startswith("i-") and ref_glob(pattern, addr)
    if addr.startswith("i-"):
        return False
    levels = pattern.split("/")
    values = ref_levels(int(addr), notation)
    assert len(levels) == len(values)
    return all(ref_level_match(lt, v) for lt, v in zip(levels, values))


def ref_cb_matches(spec: dict, addr: str, outgoing: bool, notation: str) -> tuple[bool, str]:
    if outgoing and not spec["outgoing"]:
        return False, "outgoing-not-requested"
    if spec["filters"] is None and spec["addrs"] is None:
        return True, "all-individual-destination" if addr.startswith("ia:") else "all"
    if addr.startswith("ia:"):
        return False, "no-match-individual-destination"  # filters and address lists denote group addresses only
    for f in spec["filters"] or ():
        if ref_filter_match(f, addr, notation):
            return True, "internal-filter" if f.startswith("i-") else "filter"
    for a in spec["addrs"] or ():
        if a == addr:
            return True, "address"
    return False, "no-match"


# --------------------------------------------------------------------------
# generation
# --------------------------------------------------------------------------


def gen_level(rng: random.Random, maxv: int, around: int | None) -> str:
    parts = []
    for _ in range(rng.choice((1, 1, 1, 2, 3))):
        def num():
            if around is not None and rng.random() < 0.6:
                return max(0, min(65535, around + rng.choice((-2, -1, 0, 0, 1, 2))))
            if rng.random() < 0.1:
                return rng.randint(maxv, min(65535, maxv * 2 + 5))
            return rng.randint(0, maxv)
        k = rng.random()
        if k < 0.2:
            parts.append("*")
        elif k < 0.5:
            parts.append(str(num()))
        elif k < 0.75:
            parts.append(f"{num()}-{num()}")  # possibly reversed
        elif k < 0.88:
            parts.append(f"-{num()}")
        else:
            parts.append(f"{num()}-")
    return ",".join(parts)


def gen_pattern(rng: random.Random, notation: str, pool_raw: list[int]) -> str:
    if rng.random() < 0.15:
        body = rng.choice(IBODIES)
        k = rng.random()
        if k < 0.3:
            return "i-" + body
        if k < 0.5:
            return "i-*"
        if k < 0.7:
            return "i-" + body[: max(1, len(body) // 2)] + "*"
        if k < 0.85 and len(body) > 1:
            i = rng.randrange(len(body))
            return "i-" + body[:i] + "?" + body[i + 1:]
        return "i-*" + body[-1]
    around = ref_levels(rng.choice(pool_raw), notation) if rng.random() < 0.7 else None
    return "/".join(
        gen_level(rng, m, None if around is None else around[i])
        for i, m in enumerate(LEVEL_MAX[notation])
    )


def gen_case(rng: random.Random) -> dict:
    notation = rng.choice(("LONG", "LONG", "SHORT", "FREE"))
    base = rng.randint(1, 65535)
    pool_raw = sorted({rng.choice((rng.randint(1, 65535), max(1, min(65535, base + rng.randint(-300, 300))))) for _ in range(rng.randint(4, 12))})
    pool_int = ["i-" + b for b in rng.sample(IBODIES, rng.randint(1, 4))]
    pool = [str(r) for r in pool_raw] + pool_int

    def gen_cb(allow_ctor: bool) -> dict:
        mode = rng.choice(("all", "addrs", "filters", "filters", "both", "empty"))
        spec = {"filters": None, "addrs": None, "outgoing": rng.random() < 0.5,
                "raises": rng.choice((None, None, None) + tuple(sorted(EXC))), "ctor": False, "judged": True}
        if mode in ("filters", "both"):
            spec["filters"] = [gen_pattern(rng, notation, pool_raw) for _ in range(rng.randint(1, 3))]
        if mode in ("addrs", "both"):
            spec["addrs"] = [rng.choice(pool + [str(rng.randint(1, 65535))]) for _ in range(rng.randint(1, 4))]
        if mode == "empty":
            spec["filters"] = [] if rng.random() < 0.7 else None
            spec["addrs"] = [] if spec["filters"] is None or rng.random() < 0.5 else None
            spec["judged"] = False
        if mode == "all" and allow_ctor and rng.random() < 0.3:
            spec["ctor"] = True
            spec["outgoing"] = False
        return spec

    cbs = [gen_cb(i == 0) for i in range(rng.randint(3, 9))]
    devices = [a for a in pool if rng.random() < 0.6]
    bursts = []
    total = rng.randint(20, 120)
    while total > 0:
        n = min(total, rng.randint(1, 12))
        total -= n
        tgs = [(rng.random() < 0.5, rng.choice(pool), rng.choice(("write", "writeb", "response", "read"))) for _ in range(n)]
        # point-to-point telegrams (IndividualAddress destination) put on xknx.telegrams by user code / tools
        for _ in range(rng.choice((0, 0, 1, 2))):
            tgs.insert(rng.randrange(len(tgs) + 1),
                       (rng.random() < 0.5, "ia:" + rng.choice(("1.1.1", "1.1.250", "15.15.255", "0.0.1")), rng.choice(("p2p_ind", "p2p_con"))))
        change = None
        k = rng.random()
        if k < 0.25:
            change = ("unregister", rng.randrange(64))
        elif k < 0.5:
            change = ("register", gen_cb(False))
        readers = None
        if rng.random() < 0.35:
            # xknx's own registrants: pending ValueReader.read() calls (sync / read_state / read tools), some answered, some not
            raddrs = [rng.choice(pool) for _ in range(rng.choice((1, 1, 2, 3)))]
            if rng.random() < 0.4:
                raddrs = [raddrs[0]] * len(raddrs)  # concurrent readers on one address
            late = None
            if rng.random() < 0.8:
                late = gen_cb(False)
                if rng.random() < 0.5:
                    late.update(filters=None, addrs=None, judged=True)
            readers = {"addrs": raddrs, "timeout": rng.choice((0.5, 2.0)), "late_register": late,
                       "answers": [rng.choice(("response", "write", None)) for _ in raddrs]}
            for a, ans in zip(raddrs, readers["answers"]):
                if ans:
                    tgs.insert(rng.randrange(len(tgs) + 1), (False, a, ans))
        bursts.append({"telegrams": tgs, "change": change, "readers": readers})
    selfunreg = rng.random() < 0.15
    return {"notation": notation, "pool": pool, "cbs": cbs, "devices": devices, "bursts": bursts, "selfunreg": selfunreg}


def _addr(a: str):
    if a.startswith("ia:"):
        return IndividualAddress(a[3:])
    return InternalGroupAddress(a) if a.startswith("i-") else GroupAddress(int(a))


def _payload(kind: str, seq: int):
    if kind == "write":
        return GroupValueWrite(DPTArray((seq & 0xFF, (seq >> 8) & 0xFF)))
    if kind == "writeb":
        return GroupValueWrite(DPTBinary(seq & 1))
    if kind == "response":
        return GroupValueResponse(DPTArray((seq & 0xFF,)))
    return GroupValueRead()


# --------------------------------------------------------------------------
# execution + oracle
# --------------------------------------------------------------------------


def run_one(ctx, case_seed: str) -> None:
    rng = random.Random(case_seed)
    case = gen_case(rng)
    notation = case["notation"]
    saved_format = GroupAddress.address_format
    calls: list[tuple[int, int]] = []  # (cb id, telegram seq) in call order
    keyof: dict[int, int] = {}
    keep = []
    tg_info: dict[int, tuple[bool, str, list[int]]] = {}  # seq -> (outgoing, addr, active cb ids at processing)
    specs: dict[int, dict] = {}
    state = {"stalled": False, "selfunreg_skips": 0}

    async def main(loop):
        ctor_spec = next((s for s in case["cbs"] if s["ctor"]), None)
        handles: dict[int, object] = {}
        next_id = [0]

        def make_fn(cid: int, spec: dict):
            def fn(telegram):
                calls.append((cid, keyof.get(id(telegram.payload), -1)))
                if spec["raises"]:
                    raise EXC[spec["raises"]]()
            return fn

        kw = {}
        if ctor_spec is not None:
            specs[0] = ctor_spec
            next_id[0] = 1
            kw["telegram_received_cb"] = make_fn(0, ctor_spec)
        xknx = make_xknx(address_format=GroupAddressType[notation], **kw)
        if ctor_spec is not None:
            handles[0] = xknx.telegram_queue.telegram_received_cbs[0]

        def register(spec: dict) -> None:
            cid = next_id[0]
            next_id[0] += 1
            specs[cid] = spec
            handles[cid] = xknx.telegram_queue.register_telegram_received_cb(
                make_fn(cid, spec),
                address_filters=None if spec["filters"] is None else [AddressFilter(p) for p in spec["filters"]],
                group_addresses=None if spec["addrs"] is None else [_addr(a) for a in spec["addrs"]],
                match_for_outgoing=spec["outgoing"],
            )

        for spec in case["cbs"]:
            if not spec["ctor"]:
                register(spec)
        devs = {}
        for i, a in enumerate(case["devices"]):
            d = ProbeDevice(xknx, f"d{i}", [_addr(a)])
            xknx.devices.async_add(d)
            devs.setdefault(a, []).append(d)
        state["devs"] = devs
        class NotingQueue(asyncio.Queue):
            """xknx.telegrams (public slot): gives the GroupValueReads queued by ValueReaders a number, so that the user callbacks
            are judged for them like for any other processed telegram."""

            def put_nowait(self, item) -> None:  # type: ignore[override]
                if item is not None and isinstance(item.payload, GroupValueRead) and id(item.payload) not in keyof:
                    seqbox[0] += 1
                    keyof[id(item.payload)] = seqbox[0]
                    keep.append(item)
                    da = item.destination_address
                    tg_info[seqbox[0]] = (True, da.raw if isinstance(da, InternalGroupAddress) else str(da.raw), sorted(handles))
                    ctx.count("reads_queued_by_value_readers")
                super().put_nowait(item)

        seqbox = [0]
        xknx.telegrams = NotingQueue()
        await xknx.start()
        pending_reads: list = []
        for burst in case["bursts"]:
            rd = burst.get("readers")
            if rd:
                for a in rd["addrs"]:
                    pending_reads.append(asyncio.ensure_future(ValueReader(xknx, _addr(a), timeout_in_seconds=rd["timeout"]).read()))
                    ctx.count("value_readers_started")
                for _ in range(3):
                    await asyncio.sleep(0)  # the readers register their callbacks and queue their reads
                ok, _ = await bounded(xknx.join(), 1000.0)
                if rd["late_register"] is not None:
                    register(rd["late_register"])  # a user callback registered after xknx's own
                    ctx.count("user_callbacks_registered_after_a_pending_reader")
            active = sorted(handles)
            for outgoing, a, pk in burst["telegrams"]:
                seqbox[0] += 1
                seq = seqbox[0]
                if pk.startswith("p2p"):
                    p = DeviceDescriptorRead(descriptor=0) if seq % 2 else DeviceDescriptorResponse(descriptor=0, value=seq & 0xFFFF)
                    tpci = TDataIndividual() if pk == "p2p_ind" else TDataConnected(sequence_number=seq % 16)
                    t = Telegram(destination_address=_addr(a), payload=p, tpci=tpci)
                    ctx.count("individual_destination_telegrams")
                else:
                    p = _payload(pk, seq)
                    t = Telegram(destination_address=_addr(a), payload=p)
                keyof[id(p)] = seq
                keep.append(t)
                tg_info[seq] = (outgoing, a, active)
                if outgoing:
                    queue_outgoing(xknx, t)
                elif pk.startswith("p2p"):
                    # the cEMI layer hands such frames to management; user code / tools put them on the queue directly
                    t.direction = TelegramDirection.INCOMING
                    xknx.telegrams.put_nowait(t)
                else:
                    inject_incoming(xknx, t)
            ok, _ = await bounded(xknx.join(), 1000.0)
            if not ok:
                state["stalled"] = True
                return
            if rd:
                await asyncio.sleep(rd["timeout"] + 0.1)  # unanswered readers time out and unregister
                for fut in pending_reads:
                    if fut.done() and not fut.cancelled() and fut.exception() is None:
                        ctx.count("value_readers_answered" if fut.result() is not None else "value_readers_timed_out")
                pending_reads = [f for f in pending_reads if not f.done()]
            ch = burst["change"]
            if ch is not None:
                if ch[0] == "unregister" and handles:
                    cid = sorted(handles)[ch[1] % len(handles)]
                    xknx.telegram_queue.unregister_telegram_received_cb(handles.pop(cid))
                    ctx.count("unregistered_between_bursts")
                elif ch[0] == "register":
                    register(ch[1])
                    ctx.count("registered_between_bursts")
        if case["selfunreg"]:
            # recorded only: a one-shot callback unregisters itself from inside its call
            tq = xknx.telegram_queue
            for cid in sorted(handles):
                tq.unregister_telegram_received_cb(handles.pop(cid))
            hits = []
            holder = {}

            def one_shot(_t):
                hits.append("one_shot")
                tq.unregister_telegram_received_cb(holder["h"])

            holder["h"] = tq.register_telegram_received_cb(one_shot)
            tq.register_telegram_received_cb(lambda _t: hits.append("sibling"))
            inject_incoming(xknx, Telegram(destination_address=GroupAddress(1), payload=GroupValueRead()))
            await bounded(xknx.join(), 1000.0)
            ctx.count("selfunregister_scenarios_recorded")
            if hits.count("sibling") != 1:
                ctx.count("selfunregister_sibling_skipped_recorded")
        ok, _ = await bounded(xknx.stop(), 1000.0)
        if not ok:
            state["stalled"] = True

    try:
        with watch_device_process() as plog:
            res = run_case(main, max_vtime=1e6)
    finally:
        GroupAddress.address_format = saved_format
    wit = {"case_seed": case_seed, "notation": notation}
    if res.error or res.deadlock or res.budget or state["stalled"]:
        ctx.violation("stream-not-processed", dict(wit, error=res.error, deadlock=res.deadlock, budget=res.budget),
                      f"the queue did not process the stream: error={res.error} deadlock={res.deadlock}")
        return

    # observed multiset
    got: dict[tuple[int, int], int] = {}
    order_by_tg: dict[int, list[int]] = {}
    for cid, s in calls:
        got[(cid, s)] = got.get((cid, s), 0) + 1
        order_by_tg.setdefault(s, []).append(cid)
    dev_seen: dict[int, list] = {}
    for (_t, d, t, _exc) in plog.calls:
        dev_seen.setdefault(keyof.get(id(t.payload), -1), []).append(d)

    for s, (outgoing, a, active) in tg_info.items():
        raised_before = False
        exp_order = []
        # dispatch stopped at a raising callback <=> nothing at all was called after the first raising one
        first_raiser = next((k for k, cid in enumerate(active) if got.get((cid, s)) and specs[cid]["raises"]), None)
        stopped_at_raiser = first_raiser is not None and not any(got.get((cid, s)) for cid in active[first_raiser + 1:])
        for cid in active:
            spec = specs[cid]
            exp, how = ref_cb_matches(spec, a, outgoing, notation)
            n = got.get((cid, s), 0)
            ctx.ev()
            if not spec["judged"]:
                ctx.count("empty_list_registration_recorded")
                if n:
                    ctx.count("empty_list_registration_called_recorded")
                    raised_before = raised_before or bool(spec["raises"])
                continue
            ctx.count("expect_" + how)
            w = dict(wit, telegram={"seq": s, "addr": a, "outgoing": outgoing}, callback=spec, calls=n, reason=how)
            if exp:
                exp_order.append(cid)
                if n == 0:
                    mech = ("callback-skipped-after-raising-callback" if raised_before and stopped_at_raiser
                            else f"callback-missed-matching-telegram-{how}-{'outgoing' if outgoing else 'incoming'}")
                    ctx.violation(mech, w, f"callback {cid} ({how}) not called for {'outgoing' if outgoing else 'incoming'} telegram to {a}")
                elif n > 1:
                    ctx.violation("callback-called-more-than-once", w, f"callback {cid} called {n}x for one telegram to {a}")
                else:
                    ctx.count("called_once_as_expected")
                    if raised_before:
                        ctx.count("called_after_a_raising_callback")
                if n and spec["raises"]:
                    raised_before = True
                    ctx.count("raising_callback_called")
            elif n:
                mech = ("callback-called-for-outgoing-telegram-not-requested" if how == "outgoing-not-requested"
                        else "callback-called-for-non-matching-telegram")
                ctx.violation(mech, w, f"callback {cid} called {n}x for {'outgoing' if outgoing else 'incoming'} telegram to {a} it did not subscribe to")
            else:
                ctx.count("not_called_as_expected")
        if order_by_tg.get(s, []) != exp_order and sorted(order_by_tg.get(s, [])) == sorted(exp_order):
            ctx.count("call_order_differs_from_registration_order_recorded")
        # calls from callbacks that were not registered when the telegram was processed
        for cid in set(order_by_tg.get(s, [])) - set(active):
            ctx.violation("unregistered-callback-called", dict(wit, seq=s, cid=cid), f"callback {cid} called although not registered")
        # device processing
        exp_devs = state["devs"].get(a, [])
        seen = dev_seen.get(s, [])
        if [id(d) for d in seen] != [id(d) for d in exp_devs]:
            mech = "device-processing-skipped-after-raising-callback" if raised_before and not seen else "device-processing-differs"
            ctx.violation(mech, dict(wit, seq=s, addr=a, expected=[d.name for d in exp_devs], got=[d.name for d in seen]),
                          f"telegram to {a}: devices {[d.name for d in seen]} processed it, expected {[d.name for d in exp_devs]}")
        elif exp_devs:
            ctx.count("device_processing_checked")
            if raised_before:
                ctx.count("device_processed_after_raising_callback")
    ctx.count("telegrams", len(tg_info))
    shape = tuple(sorted((("all" if s["filters"] is None and s["addrs"] is None else
                           ("f" if s["filters"] else "") + ("a" if s["addrs"] else "")), s["outgoing"], bool(s["raises"]))
                         for s in case["cbs"]))
    ctx.distinct((notation, shape, len(tg_info) // 10))
    ctx.sample({"notation": notation, "callbacks": [{k: v for k, v in s.items() if k != "judged"} for s in case["cbs"][:3]],
                "telegrams": len(tg_info), "calls": len(calls)}, cap=4)


def selftest(ctx) -> None:
    """The reference matcher against hand-computed facts from the statement's grammar."""
    facts = [
        ("1/*/2-5", 0x0803, "LONG", True), ("1/*/2-5", 0x0806, "LONG", False), ("1/1-3,4,5/*", 0x0D10, "LONG", True),
        ("1/2/-10", 0x0A0A, "LONG", True), ("1/2/-10", 0x0A0B, "LONG", False), ("1/2/250-", 0x0AFF, "LONG", True),
        ("1/2/7-3", 0x0A05, "LONG", True), ("*/2-5", 0x0802, "SHORT", True), ("2/-10", 0x100B, "SHORT", False),
        ("2-5", 4, "FREE", True), ("1-3,4,5", 6, "FREE", False), ("60000-", 65535, "FREE", True),
    ]
    for pat, raw, notation, want in facts:
        if ref_filter_match(pat, str(raw), notation) is not want:
            ctx.inconclusive(f"reference matcher self-test failed on {pat} {raw:#x} {notation}")
    for pat, text, want in (("i-t?st", "i-test", True), ("i-t*t", "i-tt", True), ("i-t*t", "i-tes", False), ("i-*", "i-x", True),
                            ("i-test", "i-test1", False)):
        if ref_glob(pat, text) is not want:
            ctx.inconclusive(f"reference glob self-test failed on {pat} {text}")


def run(ctx):
    ctx.rule = ("case = (notation, address pool, 3-9 registrations {all|addresses|filters|both} x outgoing flag x raising, devices, bursts of "
                "incoming/outgoing telegrams with (un)registrations between bursts); distinct = (notation, multiset of registration shapes, "
                "stream length / 10)")
    ctx.require("called_once_as_expected", "not_called_as_expected", "expect_all", "expect_filter", "expect_internal-filter",
                "expect_address", "expect_outgoing-not-requested", "expect_no-match", "raising_callback_called",
                "called_after_a_raising_callback", "device_processed_after_raising_callback", "unregistered_between_bursts",
                "registered_between_bursts", "value_readers_started", "value_readers_answered", "value_readers_timed_out",
                "user_callbacks_registered_after_a_pending_reader", "reads_queued_by_value_readers",
                "individual_destination_telegrams", "expect_all-individual-destination", "expect_no-match-individual-destination")
    selftest(ctx)
    n = ctx.scale(1500, 96000)
    for i in range(n):
        if ctx.mine(i):
            run_one(ctx, f"C34/{ctx.seed}/{i}")


def replay(ctx, witness):
    ctx.rule = "replay of one recorded case"
    run_one(ctx, witness["case_seed"])
    ctx.distinct("replay-a")
    ctx.distinct("replay-b")
