#!/bin/bash
# usage: tools/stage.sh <round> <seedN...> -- copy /tmp/seedN/out/Cxx/{patch.diff,demo.py,meta.json} to seeded/Cxx-<round>
# (give-ups, i.e. meta.json with "failed" or no patch, go to seeded/_failed_round<round>/seedN-Cxx.json)
R=$1; shift
for s in "$@"; do for d in /tmp/$s/out/C*; do [ -d "$d" ] || continue; p=$(basename $d)
  if [ -s "$d/patch.diff" ] && [ -f "$d/demo.py" ] && ! grep -q '"failed"' "$d/meta.json" 2>/dev/null; then
    t=/verif/seeded/$p-$R; mkdir -p $t; cp $d/patch.diff $d/demo.py $d/meta.json $t/; echo "staged $t"
  else mkdir -p /verif/seeded/_failed_round$R; cp $d/meta.json /verif/seeded/_failed_round$R/$s-$p.json 2>/dev/null; echo "give-up $s $p"; fi
done; done
