"""C05 decode -> encode: same octets modulo reserved bits, same length, calculated_length, equal object."""

from __future__ import annotations

from enum import Enum

from vlib import apci_gen as G
from vlib import apci_masks as M
from vlib.eqv import same
from xknx.cemi.cemi_frame import CEMILData
from xknx.exceptions import ConversionError
from xknx.telegram import apci as apci_mod
from xknx.telegram.address import GroupAddress, IndividualAddress
from xknx.telegram.apci import APCI
from xknx.telegram.tpci import TDataConnected, TDataGroup, TDataIndividual, TDataTagGroup

LEVEL = "exploration"
TECHNIQUE = (
    "runtime monitor: decode->encode->decode on the real service classes, compared bit-wise under an independent "
    "reserved-bit mask table (vlib/apci_masks.py) and by structural equality"
)
LEVEL_TEXT = (
    "Every APDU the real decoder accepts in the C04 input space (thorough: all APDUs of 0..3 octets exhaustively; per 10-bit code 37 "
    "lengths x fills; every octet value in every position of a hand-written valid frame of every service; truncations; mixtures) is "
    "re-encoded and re-decoded. Exploration: the accepted set beyond 3 octets is sampled, but every service class must have been accepted at least once."
)
LEVEL_NOTE = (
    "Trusted: the mask table written from the specification citations in the class docstrings (octet 0 TPCI bits; low six APCI bits of "
    "the tolerant 10-bit services and of >6-bit group values; the reserved fields listed in vlib/apci_masks.py). Judged: length, every "
    "unmasked bit, calculated_length() == len-1, re-decode equal (eqv.same). Not judged: an encoder refusing a decoded object (allowed by "
    "the statement; counted per class), how often tolerant code bits were normalised (counted). Encoder state is driven: every returned "
    "bytearray is overwritten by the harness (as CEMILData.to_knx() does with the TPCI bits) and the same and an equal fresh object are encoded "
    "again; a sample (all valid frames x T_Data_Connected seq 1..15, every 29th accepted input x 2 sequence numbers) is encoded inside "
    "T_Data_Connected / T_Data_Tag_Group / T_Data_Individual frames, then bare, then as T_Data_Group, each compared with the received octets. Decoder state: a second decoded object of the same octets is deep-mutated "
    "(every attribute rebound, nested DPTBinary/DPTArray/address/SCF/SecureData/list/bytearray changed in place) and the octets are "
    "decoded a third time; the value snapshot must equal the first decode."
)
SHARDS = {"quick": 1, "thorough": 16}
TIMEOUT = {"quick": 240, "thorough": 1500}


_SLOT_CACHE = {}


def _attrs(obj):
    cls = type(obj)
    names = _SLOT_CACHE.get(cls)
    if names is None:
        names = []
        for klass in cls.__mro__:
            slots = klass.__dict__.get("__slots__", ())
            names.extend(n for n in ((slots,) if isinstance(slots, str) else slots) if n not in ("__weakref__", "__dict__"))
        _SLOT_CACHE[cls] = names = tuple(names)
    return names


_ATOMS = (int, str, bytes, float, type(None), Enum)


def freeze(obj, depth=0):
    """Value snapshot of a decoded object that shares nothing with it."""
    if isinstance(obj, _ATOMS):
        return obj
    if isinstance(obj, bytearray):
        return bytes(obj)
    if isinstance(obj, (list, tuple)):
        return tuple(freeze(x, depth + 1) for x in obj)
    if depth > 6:
        return repr(obj)
    return (type(obj).__name__, tuple(freeze(getattr(obj, n, None), depth + 1) for n in _attrs(obj)))


def scribble(obj, depth=0):
    """Deep-mutate a decoded object: rebind every attribute, change every nested mutable object in place.

    A consumer owns what the decoder returned; whatever it does to it must not be visible in a later decode.
    """
    for name in _attrs(obj):
        try:
            value = getattr(obj, name)
        except AttributeError:
            continue
        if isinstance(value, bool):
            new = not value
        elif isinstance(value, Enum):
            members = list(type(value))
            new = members[(members.index(value) + 1) % len(members)]
        elif isinstance(value, int):
            new = value ^ 0x15
        elif isinstance(value, bytes):
            new = b"\xee" + value[::-1]
        elif isinstance(value, tuple):
            new = (0xEE, *value[::-1])
        elif value is None:
            new = 0xEE
        elif isinstance(value, bytearray):
            value.reverse()
            value.append(0xEE)
            continue
        elif isinstance(value, list):
            for item in value:
                if not isinstance(item, _ATOMS) and depth < 4:
                    scribble(item, depth + 1)
            value.reverse()
            value.append(value[0] if value else 0xEE)
            continue
        else:
            if depth < 4:
                scribble(value, depth + 1)  # nested object (DPTBinary, DPTArray, address, SCF, SecureData): in place
            continue
        try:
            setattr(obj, name, new)
        except Exception:  # noqa: BLE001 - read-only attribute
            pass


def live_service_classes():
    """Concrete service classes defined by the module (dataclass(slots=True) leaves stale twins behind)."""

    def walk(cls):
        for sub in cls.__subclasses__():
            yield sub
            yield from walk(sub)

    out = {}
    for cls in walk(APCI):
        if getattr(apci_mod, cls.__name__, None) is cls and cls.__name__ != "APCIRequest":
            out[cls.__name__] = cls
    return out


class Judge:
    def __init__(self, ctx):
        self.ctx = ctx
        self.accepted = {}
        self.refused = {}
        self.masked_only = {}
        self.tolerant = {}
        self.refusal_types = set()
        self.fps = set()
        self.n = 0
        self.unknown_classes = set()
        self.restart_flag_bits = 0
        self.repeat_checked = 0
        self.scribbled = 0
        self.framed = 0
        self.frame_refused = 0

    def one(self, raw):
        """Returns True if the decoder accepted `raw`."""
        try:
            obj = APCI.from_knx(raw)
        except ConversionError:
            return False
        except BaseException:  # noqa: BLE001 - C04's business
            self.ctx.count("decoder_raised_undeclared_exception(C04)")
            return False
        ctx = self.ctx
        self.n += 1
        cname = type(obj).__name__
        pristine = freeze(obj)
        self.accepted[cname] = self.accepted.get(cname, 0) + 1
        ln = len(raw)
        wit = {"apdu": raw.hex(), "class": cname, "decoded": str(obj)[:300]}
        try:
            enc = obj.to_knx()
        except Exception as exc:  # noqa: BLE001 - "whenever it can be encoded again": a refusal is allowed
            self.refused[cname] = self.refused.get(cname, 0) + 1
            self.refusal_types.add(f"{cname}:{type(exc).__name__}")
            self.fps.add((cname, "refused", min(ln, 24)))
            return True
        returned = enc
        enc = bytes(enc)
        wit["reencoded"] = enc.hex()
        # State: to_knx() hands out a mutable bytearray that CEMILData.to_knx() writes the TPCI bits into. A relay encodes
        # the same service many times, so what a caller does to one returned buffer must not show up in a later encoding.
        if isinstance(returned, bytearray) and returned:
            returned[0] |= 0xFC
            returned[-1] ^= 0xFF
        twin_obj = None
        try:
            again = bytes(obj.to_knx())
            twin_obj = APCI.from_knx(raw)
            twin = bytes(twin_obj.to_knx())
        except Exception as exc:  # noqa: BLE001
            again = twin = None
            ctx.violation(
                f"{cname}-second-encoding-raises-{type(exc).__name__}", wit,
                f"{cname}: encoding {raw[:20].hex()} a second time raised {exc!r:.120} (the first gave {enc[:20].hex()})",
            )
        if again is not None and (again != enc or twin != enc):
            wit["second_encoding"] = again.hex()
            wit["encoding_of_equal_fresh_object"] = twin.hex()
            ctx.violation(
                f"{cname}-encoding-depends-on-earlier-use-of-returned-buffer", wit,
                f"{cname}: first encoding {enc[:20].hex()}, after the caller wrote into the returned bytearray the same object "
                f"encodes to {again[:20].hex()} and an equal freshly decoded object to {twin[:20].hex()}",
            )
        self.repeat_checked += 1
        if twin_obj is not None:
            self.decode_again_after_scribble(raw, cname, pristine, twin_obj)
        if enc and enc[0] & 0xFC:
            ctx.violation(
                f"{cname}-encoding-carries-transport-layer-bits", wit,
                f"{cname}: APDU encoding {enc[:20].hex()} has bits 7..2 of octet 0 set; CEMILData.to_knx() ORs the TPCI into them, "
                f"so the relayed frame changes its transport-layer meaning",
            )
        if len(enc) != ln:
            ctx.violation(
                f"{cname}-reencode-changes-length",
                wit,
                f"{cname}: {ln} octets received, {len(enc)} octets re-encoded ({raw[:20].hex()} -> {enc[:20].hex()})",
            )
        elif enc[1:] != raw[1:] or (enc[0] ^ raw[0]) & 0x03:
            try:
                diffs = M.differs(cname, raw, enc)
            except KeyError:
                self.unknown_classes.add(cname)
                diffs = []
            if diffs:
                index, was, now = diffs[0]
                where = f"octet-{index}" if index <= 16 else "octet-beyond-16"
                wit["first_difference"] = {"octet": index, "received": f"{was:#04x}", "reencoded": f"{now:#04x}",
                                           "defined_bits_mask": f"{M.mask(cname, raw)[index]:#04x}"}
                ctx.violation(
                    f"{cname}-reencode-alters-defined-bits-{where}",
                    wit,
                    f"{cname}: octet {index} received {was:#04x} re-encoded {now:#04x} (defined bits {M.mask(cname, raw)[index]:#04x}); "
                    f"{raw[:20].hex()} -> {enc[:20].hex()}",
                )
            else:
                self.masked_only[cname] = self.masked_only.get(cname, 0) + 1
                if cname in M.TOLERANT_CODE_CLASSES and (enc[1] ^ raw[1]) & 0x3F:
                    self.tolerant[cname] = self.tolerant.get(cname, 0) + 1
                    if cname == "Restart" and (enc[1] ^ raw[1]) & 0x21:
                        # the Restart docstring reserves only bits 4..1; bit 5 (response) and bit 0 (type) are
                        # normalised away by the tolerant dispatcher as well: recorded, not judged (DESIGN 3.7)
                        self.restart_flag_bits += 1
        elif cname not in M.MASKS:
            self.unknown_classes.add(cname)
        try:
            calc = obj.calculated_length()
        except Exception as exc:  # noqa: BLE001
            ctx.violation(
                f"{cname}-calculated-length-raises-{type(exc).__name__}", wit,
                f"{cname}.calculated_length() raised {exc!r} for an object that encodes to {len(enc)} octets",
            )
        else:
            if calc != len(enc) - 1:
                wit["calculated_length"] = calc
                ctx.violation(
                    f"{cname}-calculated-length-wrong", wit,
                    f"{cname}.calculated_length() = {calc} but the encoding has {len(enc)} octets (expected {len(enc) - 1})",
                )
        try:
            back = APCI.from_knx(enc)
        except Exception as exc:  # noqa: BLE001
            ctx.violation(
                f"{cname}-reencoded-pdu-not-decodable", wit,
                f"{cname}: re-encoded PDU {enc[:20].hex()} does not decode: {exc!r:.150}",
            )
        else:
            if not same(back, obj):
                wit["redecoded"] = str(back)[:300]
                ctx.violation(
                    f"{cname}-reencoded-pdu-decodes-to-different-object", wit,
                    f"{cname}: {raw[:20].hex()} decodes to {obj!s:.120}; its re-encoding decodes to {back!s:.120}",
                )
        self.fps.add((cname, "roundtrip", min(ln, 24)))
        return True

    def decode_again_after_scribble(self, raw, cname, pristine, victim):
        """The consumer rewrites everything reachable from a decoded object; the same octets must still decode to the first result."""
        scribble(victim)
        self.scribbled += 1
        try:
            third = freeze(APCI.from_knx(raw))
        except Exception as exc:  # noqa: BLE001
            third = ("raised", repr(exc)[:120])
        if third != pristine:
            self.ctx.violation(
                f"{cname}-decode-depends-on-earlier-decoded-object",
                {"apdu": raw.hex(), "class": cname, "mode": "decode-twice", "first_decode": repr(pristine)[:300],
                 "decode_after_consumer_mutated_earlier_result": repr(third)[:300]},
                f"{cname}: {raw[:20].hex()} decoded to {pristine!r:.120}; after a consumer rewrote the attributes of an earlier decoded "
                f"object the same octets decode to {third!r:.120}",
            )

    def framed_relay(self, raw, seqs):
        """Encode the decoded APDU inside frames with non-zero TPCI, then bare and as T_Data_Group; all must match `raw`."""
        ctx = self.ctx
        try:
            obj = APCI.from_knx(raw)
            cname = type(obj).__name__
            M.mask(cname, raw)
        except Exception:  # noqa: BLE001 - not accepted / unknown class: handled by one()
            return
        src = IndividualAddress(0x1105)
        plan = [(TDataConnected(seq), IndividualAddress(0x1101)) for seq in seqs]
        plan += [(TDataTagGroup(), GroupAddress(0x0A03)), (TDataIndividual(), IndividualAddress(0x1101)),
                 (None, None), (TDataGroup(), GroupAddress(0x0A03))]
        history = []
        for tpci, dst in plan:
            try:
                if tpci is None:  # the bare APDU in between
                    tpdu, want = bytes(obj.to_knx()), 0
                    label = "bare-apdu"
                else:
                    frame = bytes(CEMILData(src_addr=src, dst_addr=dst, tpci=tpci, payload=obj).to_knx())
                    tpdu, want = frame[7:], tpci.to_knx()
                    label = type(tpci).__name__
            except Exception:  # noqa: BLE001 - encoder refusal (allowed), over-long frame
                self.frame_refused += 1
                return
            history.append(f"{label}:{tpdu[:12].hex()}")
            wit = {"apdu": raw.hex(), "class": cname, "mode": "framed", "sequence_numbers": list(seqs), "encodings_in_order": history}
            if tpdu[0] & 0xFC != want:
                ctx.violation(
                    f"{cname}-framed-encoding-wrong-tpci-bits", wit,
                    f"{cname}: {label} encoding after {len(history) - 1} other frames of the same service has TPCI bits "
                    f"{tpdu[0] & 0xFC:#04x}, expected {want:#04x} ({' -> '.join(history)})",
                )
                return
            plain = bytes([tpdu[0] & 0x03]) + tpdu[1:]
            if len(plain) != len(raw) or M.differs(cname, raw, plain):
                ctx.violation(
                    f"{cname}-framed-encoding-alters-defined-bits", wit,
                    f"{cname}: received {raw[:20].hex()}, {label} encoding carries {plain[:20].hex()} ({' -> '.join(history)})",
                )
                return
            self.framed += 1
        try:
            back = CEMILData.from_knx(frame)
            ok = isinstance(back.tpci, TDataGroup) and same(back.payload, obj)
        except Exception:  # noqa: BLE001
            ok = False
        if not ok:
            ctx.violation(
                f"{cname}-relayed-group-frame-decodes-differently", wit,
                f"{cname}: the T_Data_Group frame {frame.hex()[:60]} relayed after numbered frames does not decode to T_Data_Group + the same service",
            )

    def flush(self):
        ctx = self.ctx
        ctx.ev(self.n)
        ctx.count("second_encoding_after_buffer_mutation_compared", self.repeat_checked)
        ctx.count("framed_encodings_compared", self.framed)
        ctx.count("decoded_again_after_deep_mutation_of_earlier_result", self.scribbled)
        ctx.count("framed_encoder_refusals", self.frame_refused)
        ctx.count("accepted_and_reencoded", self.n - sum(self.refused.values()))
        ctx.count("encoder_refused_decoded_object", sum(self.refused.values()))
        ctx.count("differs_only_in_reserved_bits", sum(self.masked_only.values()))
        ctx.count("tolerant_code_bits_normalised", sum(self.tolerant.values()))
        ctx.count("restart_response_or_type_bit_normalised(recorded)", self.restart_flag_bits)
        for cname, n in self.accepted.items():
            ctx.count(f"accepted:{cname}", n)
        ctx.extra["accepted_per_class"] = dict(sorted(self.accepted.items()))
        ctx.extra["refused_per_class"] = dict(sorted(self.refused.items()))
        ctx.extra["reserved_bit_differences_per_class"] = dict(sorted(self.masked_only.items()))
        ctx.extra["tolerant_code_bits_normalised_per_class"] = dict(sorted(self.tolerant.items()))
        ctx.extra["refusal_exception_types"] = sorted(self.refusal_types)
        for fp in sorted(self.fps):
            ctx.distinct(fp)
        for cname in sorted(self.unknown_classes):
            ctx.inconclusive(f"service class {cname} has no entry in the reserved-bit mask table")


def run(ctx):
    ctx.rule = (
        "domain = inputs of vlib.apci_gen.input_space accepted by APCI.from_knx; per input: to_knx (refusal allowed), length, "
        "bits under mask, calculated_length, re-decode equality; distinct = (service class, roundtrip|refused, length bucket)"
    )
    live = live_service_classes()
    for name in sorted(live):
        if name in G.STUB_CLASSES:
            continue
        if name not in M.MASKS:
            ctx.inconclusive(f"service class {name} has no entry in the reserved-bit mask table")
        # a constructible class with zero accepted inputs would make "held" meaningless for it
        ctx.require(f"accepted:{name}")
    for name in sorted(set(M.MASKS) - set(live)):
        ctx.inconclusive(f"mask table names a service class the library does not define: {name}")
    ctx.require("accepted_and_reencoded", "differs_only_in_reserved_bits", "second_encoding_after_buffer_mutation_compared",
                "framed_encodings_compared", "decoded_again_after_deep_mutation_of_earlier_result")
    ctx.count("service_classes", len(live) - len(G.STUB_CLASSES))

    judge = Judge(ctx)
    offered = 0
    accepted = 0
    for tag, raw in G.input_space(ctx.rng, ctx.quick, ctx.shard, ctx.nshards):
        offered += 1
        if judge.one(raw):
            accepted += 1
            # stateful part: the same service encoded inside numbered / tag-group frames, then bare, then as T_Data_Group
            if tag == "canon":
                judge.framed_relay(raw, range(1, 16))
            elif accepted % 29 == 0:
                first = 1 + accepted // 29 % 15
                judge.framed_relay(raw, (first, 1 + (first + 6) % 15))
    ctx.count("inputs_offered", offered)
    judge.flush()
    ctx.extra["masks"] = "vlib/apci_masks.py (octet 0: 0x03; per-class reserved fields as listed in its docstring)"
    ctx.sample({"apdu": "03d100 11223344", "class": "AuthorizeRequest", "masked": "octet 2 reserved"})
    ctx.sample({"apdu": "01c800000 0b701", "class": "SystemNetworkParameterRead", "masked": "low nibble of octet 5"})
    ctx.sample({"apdu": "fc00", "class": "GroupValueRead", "masked": "TPCI bits of octet 0"})
    ctx.sample({"apdu": "03e5 07 f1", "class": "LinkRead", "masked": "high nibble of octet 3"})


def replay(ctx, witness):
    ctx.rule = "replay of one recorded APDU"
    raw = bytes.fromhex(witness["apdu"])
    judge = Judge(ctx)
    if witness.get("mode") == "framed":
        judge.framed_relay(raw, witness.get("sequence_numbers", (5,)))
    judge.one(raw)
    judge.flush()
    ctx.distinct(("replay", raw.hex()))
    ctx.distinct(("replay-class", witness.get("class")))
