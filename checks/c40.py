"""C40 cover position estimates: in bounds, monotone, on time, never raising.

Part A drives the real `TravelCalculator` under a clock shim with generated
histories of set_position / update_position / start_travel / up / down / stop and
queries it at non-decreasing clock readings (equal ones included).  The oracle is
an exact rational (`fractions.Fraction`) model of "linear travel from the last
known position to the target at the configured speed".

Part B drives the real `Cover` on the virtual loop (real telegram queue, task
registry, periodic updater, auto stopper) and queries `Cover.current_position()`
directly and from a device callback, the way a consumer does.
"""

from __future__ import annotations

from fractions import Fraction
import math
import random

from vlib.dev_harness import EPS, DevHarness, ManualClock, shim_time

LEVEL = "exploration"
TECHNIQUE = (
    "runtime monitor: exact rational travel model compared with the real TravelCalculator under a clock shim; "
    "exception / range monitor on Cover.current_position() on the virtual loop"
)
LEVEL_TEXT = (
    "Generated command/report/query histories (quick 6,000, thorough 16 x 15,000) over random travel times with clock advances "
    "from {0, 2^-10 s, fractions of the remaining travel time, exactly the remaining time, just before/after it, far beyond}; plus "
    "Cover histories (quick 250, thorough 16 x 600) on the virtual loop. Exploration: histories are sampled, not enumerated."
)
LEVEL_NOTE = (
    "Trusted: CPython float/Fraction, the virtual loop, the clock shim (module-level name `time` of travelcalculator/binary_sensor rebound, "
    "restored afterwards). Clock readings lie on a 2^-12 s grid and most travel times are 100*m/2^k so that the code's own float sums are exact "
    "and the boundary 'elapsed == travel time' is the same instant for code and model; histories with non-dyadic travel times never probe within "
    "2^-10 s of that boundary. Judged: query never raises; None only while no position is known; int between last known position and target; "
    "monotone toward the target within a segment; within one position unit of the exact linear position; equal to the target iff the travel "
    "time has elapsed (for travels started by start_travel/up/down). A report that lies beyond the target in the commanded direction may be answered with the "
    "target at once (not judged as early). A report differing from the target while the cover is at rest is not a movement command: staying at the "
    "reported position or travelling back to the old target are both accepted and only counted. "
    "is_traveling()/position_reached()/is_open()... are only required not to raise. For Cover only 'never raises' and 'None or int in 0..100' are judged."
)
SHARDS = {"quick": 1, "thorough": 16}
TIMEOUT = {"quick": 120, "thorough": 1500}

GRID = 2.0**-12
OPS = ("set_position", "update_position", "start_travel", "up", "down", "stop")


def q(x: float) -> float:
    """Quantise a non-negative duration onto the clock grid."""
    return int(x / GRID) * GRID


class Model:
    """Rational reference: linear travel from L (known at t0) to T."""

    def __init__(self, tt_down: float, tt_up: float) -> None:
        self.tt_down = Fraction(tt_down)
        self.tt_up = Fraction(tt_up)
        self.L: int | None = None
        self.T: int | None = None
        self.t0 = Fraction(0)
        self.cmd_dir = 0  # +1 toward 100 (down), -1 toward 0 (up), 0 stopped / none
        self.rest_report = False  # a report differing from the target arrived while at rest

    def travel_time(self, a: int, b: int) -> Fraction:
        return (self.tt_down if b > a else self.tt_up) * abs(b - a) / 100

    def remaining(self, now: float) -> Fraction | None:
        if self.L is None or self.T is None or self.L == self.T:
            return None
        return self.travel_time(self.L, self.T) - (Fraction(now) - self.t0)

    def overshoot(self) -> bool:
        """Last report lies beyond the target in the commanded direction."""
        if self.L is None or self.T is None:
            return False
        return (self.cmd_dir > 0 and self.T < self.L) or (self.cmd_dir < 0 and self.T > self.L)

    def exact(self, now: float) -> tuple[Fraction | None, bool]:
        """(exact position, travel time elapsed?)"""
        if self.L is None:
            return None, True
        if self.T is None or self.L == self.T:
            return Fraction(self.L), True
        d = self.travel_time(self.L, self.T)
        el = Fraction(now) - self.t0
        if el >= d:
            return Fraction(self.T), True
        return self.L + (self.T - self.L) * el / d, False


def _state(calc) -> dict:
    return {
        "last_known": calc._last_known_position,
        "target": calc._travel_to_position,
        "confirmed": calc._position_confirmed,
        "direction": calc.travel_direction.name,
        "timestamp": calc._last_known_position_timestamp,
    }


def run_history(ctx, spec: dict, record: bool = True) -> str | None:
    """Execute one TravelCalculator history. Returns the mechanism of the first violation."""
    from xknx.devices.travelcalculator import TravelCalculator

    clock = ManualClock(spec["start"])
    tt_down, tt_up = spec["tt_down"], spec["tt_up"]
    trace: list = []
    kinds: list[str] = []

    def viol(mech: str, msg: str, extra: dict | None = None) -> str:
        w = {"kind": "travelcalculator", "spec": spec, "trace": trace[-12:], "calc": _state(calc)}
        if extra:
            w.update(extra)
        ctx.violation(mech, w, msg)
        return mech

    with shim_time(clock):
        calc = TravelCalculator(tt_down, tt_up)
        model = Model(tt_down, tt_up)
        seg_last: int | None = None  # last estimate in the current segment

        def query(tag: str) -> tuple[str | None, int | None]:
            nonlocal seg_last
            ctx.ev()
            ctx.count("queries")
            now = clock.now
            try:
                est = calc.current_position()
            except Exception as exc:  # noqa: BLE001
                ctx.count("query_raised")
                el = None if model.L is None else float(Fraction(now) - model.t0)
                same = el == 0
                mech = f"current_position-raises-{type(exc).__name__}" + ("-at-unchanged-clock-after-stop" if same and model.cmd_dir == 0 else "")
                return viol(mech, f"current_position() raised {exc!r} at clock {now} ({tag})", {"exception": repr(exc), "elapsed": el}), None
            for name in ("is_traveling", "position_reached", "is_open", "is_closed", "is_opening", "is_closing"):
                try:
                    getattr(calc, name)()
                except Exception as exc:  # noqa: BLE001
                    return viol(f"{name}-raises-{type(exc).__name__}", f"{name}() raised {exc!r} at clock {now} ({tag})", {"exception": repr(exc)}), None
            trace.append(("q", now, est))
            if model.rest_report:
                # A report that differs from the target arrived while the cover was at rest.  That is not a movement
                # command: the statement's "reaches the target when the travel time has elapsed" is about travels that were
                # started.  Both readings are accepted and only recorded: the report is the new resting position (estimate
                # stays there, whatever is_traveling() says), or the old target stays and the estimate travels back to it.
                if est == model.L:
                    ctx.count("rest_report_estimate_stays_at_report")
                    if not calc.position_reached():
                        ctx.count("rest_report_stays_but_position_reached_false")
                    return None, est
                ctx.count("rest_report_estimate_travels_to_old_target")
                model.rest_report = False
            p, elapsed = model.exact(now)
            if p is None:
                ctx.count("q_unknown")
                if est is not None:
                    return viol("estimate-without-any-known-position", f"estimate {est} although no position was ever set or reported"), None
                return None, est
            if est is None:
                return viol("estimate-unknown-although-position-known", f"estimate is None although position {model.L} is known"), None
            if not isinstance(est, int) or isinstance(est, bool):
                return viol("estimate-not-an-integer", f"estimate {est!r} is not an int"), None
            lo, hi = min(model.L, model.T if model.T is not None else model.L), max(model.L, model.T if model.T is not None else model.L)
            if not lo <= est <= hi:
                return viol("estimate-outside-last-known-and-target", f"estimate {est} outside [{lo},{hi}]"), None
            moving = model.T is not None and model.L != model.T
            if not moving:
                ctx.count("q_at_rest")
                if est != model.L:
                    return viol("estimate-changes-while-at-rest", f"estimate {est} but position {model.L} is known and equals the target"), None
                return None, est
            # segment monotonicity
            if seg_last is not None and abs(model.T - est) > abs(model.T - seg_last):
                return viol("estimate-moves-away-from-target", f"estimate went from {seg_last} to {est}, target {model.T}"), None
            seg_last = est
            if model.overshoot():
                ctx.count("q_overshoot_report")
                if est == model.T:
                    return None, est
            if elapsed:
                ctx.count("q_after_travel_time")
                if est != model.T:
                    return viol("target-not-reached-after-travel-time", f"travel time from {model.L} to {model.T} has elapsed but estimate is {est}",
                                {"elapsed": float(Fraction(now) - model.t0), "needed": float(model.travel_time(model.L, model.T))}), None
                return None, est
            ctx.count("q_mid_travel")
            if abs(est - p) >= 1 + Fraction(1, 10**9):
                return viol("estimate-more-than-one-unit-from-linear-position", f"estimate {est} but exact linear position is {float(p):.6f} (from {model.L} to {model.T})",
                            {"exact": float(p)}), None
            if est == model.T:
                ctx.count("q_target_before_time")
                direction = "up" if model.T < model.L else "down"
                return viol(f"target-reported-before-travel-time-elapsed-moving-{direction}",
                            f"estimate already equals target {model.T} but exact position is {float(p):.6f}: "
                            f"{float(model.travel_time(model.L, model.T) - (Fraction(now) - model.t0)):.6f}s of travel time remain",
                            {"exact": float(p)}), None
            return None, est

        for op in spec["ops"]:
            name, arg, adv = op["op"], op.get("arg"), op["advances"]
            now = clock.now
            pre_est = None
            if name in ("stop", "start_travel", "up", "down") and model.L is not None:
                mech, pre_est = query("before " + name)
                if mech:
                    return mech
            trace.append((name, arg, now))
            if isinstance(arg, int) and not 0 <= arg <= 100:
                ctx.count("position_outside_0_100")
            kinds.append(name[0:2])
            ctx.count("op_" + name)
            try:
                if name == "set_position":
                    calc.set_position(arg)
                elif name == "update_position":
                    calc.update_position(arg)
                elif name == "start_travel":
                    calc.start_travel(arg)
                elif name == "up":
                    calc.start_travel_up()
                elif name == "down":
                    calc.start_travel_down()
                elif name == "stop":
                    calc.stop()
            except Exception as exc:  # noqa: BLE001
                return viol(f"{name}-raises-{type(exc).__name__}", f"{name}({arg}) raised {exc!r} at clock {now}", {"exception": repr(exc)})
            # model transition
            if name == "set_position":
                model.L = model.T = arg
                model.t0 = Fraction(now)
                model.rest_report = False
                seg_last = None
            elif name == "update_position":
                at_rest = model.L is not None and model.T is not None and model.L == model.T
                model.L = arg
                model.t0 = Fraction(now)
                if model.T is not None and arg != model.T and at_rest:
                    model.rest_report = True
                    ctx.count("report_differs_from_target_at_rest")
                if model.T is not None and arg == model.T:
                    model.rest_report = False
                seg_last = None
            elif name == "stop":
                if model.L is not None:
                    model.L = model.T = pre_est
                    model.t0 = Fraction(now)
                    model.cmd_dir = 0
                    model.rest_report = False
                    seg_last = None
            else:
                target = arg if name == "start_travel" else (0 if name == "up" else 100)
                if model.L is None:
                    # nothing known: the statement allows "unknown" or the target
                    try:
                        est = calc.current_position()
                    except Exception as exc:  # noqa: BLE001
                        return viol(f"current_position-raises-{type(exc).__name__}", f"raised {exc!r} after first {name}", {"exception": repr(exc)})
                    if est is None:
                        pass
                    elif est == target:
                        model.L = model.T = target
                        model.t0 = Fraction(now)
                    else:
                        return viol("estimate-without-any-known-position", f"estimate {est} after {name}({target}) from unknown position")
                else:
                    model.L = pre_est
                    model.T = target
                    model.t0 = Fraction(now)
                    model.cmd_dir = 1 if target > pre_est else -1
                    model.rest_report = False
                    seg_last = None
            # queries at non-decreasing clock readings
            for a in adv:
                rem = model.remaining(clock.now)
                if a[0] == "abs":
                    d = a[1]
                elif rem is None or rem <= 0:
                    d = a[2]
                elif a[1].startswith("fine") or a[1] == "pred":
                    # the last instants before arrival (dyadic travel times only, so the arrival instant is an exact float):
                    # arrival - 2^-k, or the float predecessor of the arrival instant where that is not representable
                    arrival = Fraction(clock.now) + rem
                    target = None
                    if a[1] != "pred":
                        cand = arrival - Fraction(1, 2 ** int(a[1][4:]))
                        if Fraction(float(cand)) == cand:
                            target = float(cand)
                    if target is None:
                        target = math.nextafter(float(arrival), 0.0)
                        ctx.count("probe_at_float_predecessor_of_arrival")
                    else:
                        ctx.count("probe_at_arrival_minus_2^-" + a[1][4:])
                    new_now = max(clock.now, target)
                    clock.now = new_now
                    ctx.count("advance_positive")
                    mech, _ = query(f"after {name} at arrival-{a[1]}")
                    if mech:
                        return mech
                    # back onto the 2^-12 grid (the arrival instant itself), so that later float sums in the code stay exact
                    clock.now = max(clock.now, float(arrival))
                    mech, _ = query(f"after {name} at arrival")
                    if mech:
                        return mech
                    continue
                else:
                    r = float(rem)
                    d = {"half": q(r / 2), "quarter": q(r / 4), "before": max(0.0, r - EPS), "at": r, "after": r + EPS,
                         "beyond": q(2 * r) + 1.0, "most": q(r * 0.96875)}[a[1]]
                if not spec["dyadic"] and d > 0:
                    # decimal travel times: the code's float travel time may differ from the rational one by an ulp;
                    # never probe within 2^-11 s of the boundary
                    rem2 = model.remaining(clock.now + d)
                    if rem2 is not None and abs(rem2) < Fraction(EPS) / 2:
                        d += EPS
                clock.now = clock.now + d
                ctx.count("advance_zero" if d == 0 else "advance_positive")
                mech, _ = query(f"after {name} +{d}")
                if mech:
                    return mech
    if record:
        ctx.distinct(("tc", "".join(kinds)))
    return None


def gen_history(rng: random.Random, index: int) -> dict:
    dyadic = rng.random() < 0.75

    def tt() -> float:
        if dyadic:
            return 100.0 * rng.randint(1, 300) / 2 ** rng.randint(0, 6)
        return round(rng.uniform(1.0, 120.0), rng.choice((0, 1, 2, 3)))

    n = rng.randint(2, 10)
    ops = []
    wide_history = rng.random() < 0.3
    tags = ["half", "quarter", "before", "after", "beyond", "most"] + (
        ["at", "fine12", "fine16", "fine20", "fine24", "fine30", "fine40", "pred", "pred"] if dyadic else [])
    for _ in range(n):
        r = rng.random()
        # the TravelCalculator API accepts any int: 12% of the positions lie outside 0..100 (the rational model does not care)
        wide = rng.randint(-20, 130) if wide_history and rng.random() < 0.4 else None
        if r < 0.12:
            op = {"op": "set_position", "arg": wide if wide is not None else rng.choice((0, 100, rng.randint(0, 100)))}
        elif r < 0.30:
            op = {"op": "update_position", "arg": wide if wide is not None else rng.choice((0, 100, rng.randint(0, 100), rng.randint(0, 100)))}
        elif r < 0.58:
            op = {"op": "start_travel", "arg": wide if wide is not None else rng.choice((0, 100, rng.randint(0, 100), rng.randint(0, 100)))}
        elif r < 0.68:
            op = {"op": "up"}
        elif r < 0.78:
            op = {"op": "down"}
        else:
            op = {"op": "stop"}
        adv = [("abs", 0.0)] if rng.random() < 0.7 else []
        for _ in range(rng.randint(0, 3)):
            c = rng.random()
            if c < 0.2:
                adv.append(("abs", 0.0))
            elif c < 0.35:
                adv.append(("abs", EPS))
            elif c < 0.45:
                adv.append(("abs", q(rng.uniform(0, 40))))
            else:
                adv.append(("rel", rng.choice(tags), rng.choice((0.0, EPS, q(rng.uniform(0, 10))))))
        op["advances"] = adv
        ops.append(op)
    return {"index": index, "start": 1000.0 + rng.randint(0, 4096) * GRID, "tt_down": tt(), "tt_up": tt(), "dyadic": dyadic, "ops": ops}


# ---------------------------------------------------------------------------
# Part B: Cover on the virtual loop


def gen_cover(rng: random.Random, index: int) -> dict:
    layout = rng.choice(("updown+stop", "updown+step", "updown", "updown+stop+position", "position", "updown+position"))
    pattern = rng.choice(("random", "random", "random", "second_command_before_auto_stop", "bus_move_after_finished_travel"))
    initial = rng.choice((None, 0, 100, rng.randint(0, 100), rng.randint(0, 100)))
    ops = []
    gaps = (0.0, 0.0, EPS, 0.5, 1.0, "half", "quarter", "before_arrival", "to_arrival", "after_arrival", "after_arrival")
    if pattern == "second_command_before_auto_stop":
        layout = rng.choice(("updown+stop", "updown+step"))
        initial = rng.choice((0, 100, rng.randint(0, 100)))
        mid = rng.choice([p for p in (25, 50, 75, rng.randint(1, 99)) if p != initial] or [50])
        ops.append({"op": "set_position", "arg": mid, "gap": rng.choice(("quarter", "half", EPS, 0.0))})
        second = rng.choice(("set_position", "set_position", "set_up", "set_down", "bus_updown"))
        ops.append({"op": second, "arg": rng.choice((0, 100)) if second == "set_position" else (rng.randint(0, 1) if second == "bus_updown" else None),
                    "gap": rng.choice(("half", "after_arrival", "quarter"))})
        ops.append({"op": rng.choice(("report", "set_position", "stop")), "arg": rng.randint(0, 100), "gap": "after_arrival"})
    elif pattern == "bus_move_after_finished_travel":
        layout = rng.choice(("updown+stop", "updown+step", "updown", "updown+stop+position", "updown+position"))
        initial = rng.choice((0, 100, rng.randint(0, 100)))
        mid = rng.choice([p for p in (50, rng.randint(1, 99), rng.randint(1, 99)) if p != initial] or [50])
        ops.append({"op": "set_position", "arg": mid, "gap": rng.choice(("after_arrival", "to_arrival"))})
        # a long telegram from the bus in the SAME direction as the finished travel (and sometimes the other one)
        ops.append({"op": "bus_move", "arg": rng.choice(("same", "same", "same", "other")), "gap": rng.choice(("half", "after_arrival", "quarter"))})
        ops.append({"op": rng.choice(("bus_stop", "stop", "report", "set_position")), "arg": rng.randint(0, 100), "gap": "after_arrival"})
    else:
        for _ in range(rng.randint(3, 9)):
            kind = rng.choice(("set_up", "set_down", "stop", "set_position", "set_position", "report", "report", "bus_updown", "bus_updown", "bus_stop"))
            arg = None
            if kind in ("set_position", "report"):
                arg = rng.choice((0, 100, rng.randint(0, 100)))
            elif kind == "bus_updown":
                arg = rng.randint(0, 1)
            gap = rng.choice(gaps + (q(rng.uniform(0, 30)), q(rng.uniform(0, 3))))
            ops.append({"op": kind, "arg": arg, "gap": gap})
    return {
        "index": index,
        "layout": layout,
        "pattern": pattern,
        "tt_down": 100.0 * rng.randint(1, 80) / 2 ** rng.randint(1, 5),
        "tt_up": 100.0 * rng.randint(1, 80) / 2 ** rng.randint(1, 5),
        "invert_updown": rng.random() < 0.3,
        "invert_position": rng.random() < 0.3,
        "initial": initial,
        "ops": ops,
    }


class CoverModel(Model):
    """The rational travel model of part A, driven by the Cover command / telegram stream."""

    def __init__(self, tt_down: float, tt_up: float) -> None:
        super().__init__(tt_down, tt_up)
        self.judged = True  # False once a situation arises whose outcome the statement does not fix
        self.stop_expected: Fraction | None = None  # auto-stop of the CURRENT travel
        self.explained: list[float] = []  # instants at which an own stop telegram is explained

    def arrival(self) -> Fraction | None:
        if self.L is None or self.T is None or self.L == self.T:
            return None
        return self.t0 + self.travel_time(self.L, self.T)

    def moving(self, now: float) -> bool:
        a = self.arrival()
        return a is not None and Fraction(now) < a

    def start(self, now: float, est: int, target: int) -> None:
        self.L, self.T, self.t0 = est, target, Fraction(now)
        self.cmd_dir = 1 if target > est else -1
        self.rest_report = False

    def rest(self, pos: int) -> None:
        self.L = self.T = pos
        self.rest_report = False


def run_cover(ctx, spec: dict) -> str | None:
    from xknx.devices import Cover
    from xknx.dpt import DPTArray, DPTBinary

    h = DevHarness()
    found: list[str] = []
    trace: list = []
    cb_errors: list = []
    lay = spec["layout"]
    has_updown, has_stop, has_step, has_pos = "updown" in lay, "stop" in lay, "step" in lay, "position" in lay
    supports_stop = has_stop or has_step
    m = CoverModel(spec["tt_down"], spec["tt_up"])
    seg = {"last": None}
    wire_seen = [0]

    def viol(mech: str, msg: str, extra: dict | None = None) -> None:
        w = {"kind": "cover", "spec": spec, "trace": trace[-14:], "wire": [s.as_tuple() for s in h.iface.sent][-8:],
             "model": {"L": m.L, "T": m.T, "t0": float(m.t0), "stop_expected": None if m.stop_expected is None else float(m.stop_expected)}}
        if extra:
            w.update(extra)
        ctx.violation(mech, w, msg)
        found.append(mech)

    def due_auto_stop(now: float) -> None:
        """The configured auto-stop of the current travel fires at its arrival instant."""
        if m.stop_expected is not None and Fraction(now) >= m.stop_expected:
            m.explained.append(float(m.stop_expected))
            if m.T is not None:
                m.rest(m.T)
            m.stop_expected = None

    def check(cover, tag: str) -> bool:
        ctx.ev()
        ctx.count("cover_queries")
        now = h.now()
        try:
            est = cover.current_position()
            for name in ("is_traveling", "position_reached", "is_open", "is_closed", "is_opening", "is_closing"):
                getattr(cover, name)()
        except Exception as exc:  # noqa: BLE001
            viol(f"cover-query-raises-{type(exc).__name__}", f"Cover query raised {exc!r} at {now} ({tag})", {"exception": repr(exc)})
            return False
        trace.append(("q", now, est))
        if est is not None and (not isinstance(est, int) or not 0 <= est <= 100):
            viol("cover-estimate-out-of-range", f"Cover.current_position() = {est!r}")
            return False
        if cb_errors:
            exc = cb_errors[0]
            viol(f"cover-query-in-device-callback-raises-{type(exc).__name__}",
                 f"current_position() raised {exc!r} inside the device_updated callback ({tag})", {"exception": repr(exc)})
            return False
        for e in h.swallowed_exceptions():
            viol(f"cover-processing-swallowed-{e['exc_type']}", f"xknx logged {e['msg'][:100]} / {e['exception']}", {"log": e})
            return False
        for e in h.loop.exceptions:
            viol(f"cover-loop-exception-{e['type']}", f"event loop exception {e['exception']}", {"loop": e})
            return False
        # ---- own stop telegrams must be explained -------------------------------------
        due_auto_stop(now)
        new = h.iface.sent[wire_seen[0]:]
        wire_seen[0] = len(h.iface.sent)
        for s in new:
            if str(s.dst) in ("1/0/2", "1/0/3") and s.kind == "write":
                ctx.count("cover_own_stop_telegrams")
                if m.judged and not any(abs(s.time - x) < 1e-6 for x in m.explained):
                    viol("cover-stop-telegram-not-explained-by-a-command-or-the-auto-stop-of-the-current-travel",
                         f"own stop/step telegram at {s.time} ({s.dst}); explained instants: {m.explained[-4:]}", {"at": s.time})
                    return False
        if not m.judged:
            ctx.count("cover_queries_not_judged_after_ambiguous_situation")
            return True
        # ---- estimate against the rational model --------------------------------------
        p, elapsed = m.exact(now)
        if p is None:
            if est is not None:
                viol("cover-estimate-without-any-known-position", f"estimate {est} although no position is known ({tag})")
                return False
            return True
        ctx.count("cover_queries_judged")
        if est is None:
            viol("cover-estimate-unknown-although-position-known", f"estimate None, reference {float(p)} ({tag})")
            return False
        if m.T is None or m.L == m.T:
            if est != m.L:
                viol("cover-estimate-differs-from-resting-position", f"estimate {est}, the cover rests at {m.L} ({tag})")
                return False
            return True
        lo, hi = min(m.L, m.T), max(m.L, m.T)
        if not lo <= est <= hi:
            viol("cover-estimate-outside-last-known-and-target", f"estimate {est} outside [{lo},{hi}] ({tag})")
            return False
        if seg["last"] is not None and abs(m.T - est) > abs(m.T - seg["last"]):
            viol("cover-estimate-moves-away-from-target", f"estimate went from {seg['last']} to {est}, target {m.T} ({tag})")
            return False
        seg["last"] = est
        if m.overshoot() and est == m.T:
            return True
        if elapsed:
            ctx.count("cover_queries_after_travel_time")
            if est != m.T:
                viol("cover-target-not-reached-after-travel-time", f"travel from {m.L} to {m.T} should be over, estimate is {est} ({tag})")
                return False
            return True
        ctx.count("cover_queries_mid_travel")
        if abs(est - p) >= 1 + Fraction(1, 10**9):
            viol("cover-estimate-more-than-one-unit-from-linear-position", f"estimate {est}, exact linear position {float(p):.5f} (from {m.L} to {m.T}) ({tag})")
            return False
        if est == m.T:
            viol("cover-target-reported-before-travel-time-elapsed", f"estimate equals target {m.T}, exact position {float(p):.5f} ({tag})")
            return False
        return True

    async def scenario() -> None:
        await h.start()
        kw = {}
        if has_updown:
            kw["group_address_long"] = "1/0/1"
        if has_stop:
            kw["group_address_stop"] = "1/0/2"
        if has_step:
            kw["group_address_short"] = "1/0/3"
        if has_pos:
            kw["group_address_position"] = "1/0/4"
        kw["group_address_position_state"] = "1/0/5"

        def cb(dev) -> None:
            ctx.count("cover_callbacks")
            try:
                dev.current_position()
                dev.is_traveling()
            except Exception as exc:  # noqa: BLE001
                cb_errors.append(exc)

        cover = Cover(h.xknx, "c", travel_time_down=spec["tt_down"], travel_time_up=spec["tt_up"],
                      invert_updown=spec["invert_updown"], invert_position=spec["invert_position"],
                      sync_state=False, device_updated_cb=cb, **kw)
        h.xknx.devices.async_add(cover)
        if spec["initial"] is not None:
            h.incoming_write("1/0/5", DPTArray(cover.position_current.to_knx(spec["initial"]).value))
            await h.settle()
            m.rest(spec["initial"])
        if not check(cover, "init"):
            return

        def begin_travel(now: float, pre, target: int, est_after) -> None:
            m.stop_expected = None
            seg["last"] = None
            if pre is None:
                # nothing known: the calculator assumes the cover is already there (or stays unknown)
                if est_after == target:
                    m.rest(target)
                elif est_after is not None:
                    m.judged = False
                return
            m.start(now, pre, target)

        for op in spec["ops"]:
            name, arg = op["op"], op["arg"]
            now = h.now()
            due_auto_stop(now)
            try:
                pre = cover.current_position()
            except Exception as exc:  # noqa: BLE001
                viol(f"cover-query-raises-{type(exc).__name__}", f"Cover query raised {exc!r} before {name}", {"exception": repr(exc)})
                return
            was_moving = m.moving(now)
            if name == "bus_move":  # resolved against the model: same / other direction as the last travel
                d = m.cmd_dir or 1
                up = (d < 0) if arg == "same" else (d > 0)
                name, arg = "bus_updown", (0 if up else 1) ^ int(spec["invert_updown"])
                ctx.count("cover_bus_move_after_travel_" + op["arg"])
            trace.append((name, arg, now))
            ctx.count("cover_op_" + name)
            try:
                if name == "set_up":
                    await cover.set_up()
                elif name == "set_down":
                    await cover.set_down()
                elif name == "stop":
                    await cover.stop()
                elif name == "set_position":
                    await cover.set_position(arg)
                elif name == "report":
                    h.incoming_write("1/0/5", DPTArray(cover.position_current.to_knx(arg).value))
                elif name == "bus_updown":
                    if has_updown:
                        h.incoming_write("1/0/1", DPTBinary(arg))
                elif name == "bus_stop":
                    if has_stop:
                        h.incoming_write("1/0/2", DPTBinary(1))
                    elif has_step:
                        h.incoming_write("1/0/3", DPTBinary(1))
            except Exception as exc:  # noqa: BLE001
                viol(f"cover-{name}-raises-{type(exc).__name__}", f"Cover.{name}({arg}) raised {exc!r}", {"exception": repr(exc)})
                return
            await h.settle()
            try:
                est_after = cover.current_position()
            except Exception as exc:  # noqa: BLE001
                viol(f"cover-query-raises-{type(exc).__name__}", f"Cover query raised {exc!r} after {name}", {"exception": repr(exc)})
                return
            # ---- advance the reference --------------------------------------------------
            if name in ("set_up", "set_down"):
                if has_updown or has_pos:
                    begin_travel(now, pre, 0 if name == "set_up" else 100, est_after)
            elif name == "set_position":
                if has_pos:
                    begin_travel(now, pre, arg, est_after)
                elif pre is None:
                    if arg in (0, 100):
                        begin_travel(now, pre, arg, est_after)
                elif arg != pre:
                    begin_travel(now, pre, arg, est_after)
                    if supports_stop and arg not in (0, 100):
                        m.stop_expected = Fraction(now) + m.travel_time(pre, arg)
                        ctx.count("cover_auto_stop_scheduled")
                        if was_moving:
                            ctx.count("cover_command_while_travelling")
                elif was_moving:
                    # "already in position" although the cover travels elsewhere: nothing is sent; the statement does not say
                    m.judged = False
                if was_moving and m.judged and has_updown and not has_pos and arg in (0, 100):
                    ctx.count("cover_end_position_command_while_auto_stop_pending")
            elif name == "stop":
                if supports_stop:
                    m.explained.append(now)
                    m.stop_expected = None
                    if pre is not None and was_moving:
                        m.rest(est_after)
                        if abs(est_after - pre) > 0:
                            m.judged = False
                        seg["last"] = None
            elif name == "bus_stop":
                if has_stop or has_step:
                    m.stop_expected = None
                    if pre is not None and was_moving:
                        m.rest(pre)
                        seg["last"] = None
            elif name == "bus_updown":
                if has_updown:
                    up = (arg == 0) != spec["invert_updown"]
                    target = 0 if up else 100
                    m.stop_expected = None
                    if pre is not None and was_moving and m.cmd_dir == (-1 if up else 1):
                        if m.T != target:
                            # a long telegram in the direction the cover already travels toward an intermediate target:
                            # the code keeps the old target, a real cover would go on to the end; not fixed by the statement
                            m.judged = False
                            ctx.count("cover_same_direction_bus_telegram_while_travelling_not_judged")
                    else:
                        begin_travel(now, pre, target, est_after)
                        if not was_moving and pre is not None and pre != target:
                            ctx.count("cover_bus_movement_from_rest")
            elif name == "report":
                seg["last"] = None
                if pre is None or not was_moving:
                    m.rest(arg)
                else:
                    m.L, m.t0 = arg, Fraction(now)
                    if arg == m.T:
                        m.rest(arg)
                    elif m.overshoot() and est_after == m.T:
                        # the report lies beyond the target in the travel direction: answering with the target at once is accepted
                        ctx.count("cover_overshoot_report_taken_as_arrival")
                        m.rest(m.T)
                    if m.stop_expected is not None:
                        m.judged = False  # the pending auto-stop keeps its old timing: where the estimate freezes is not fixed
            if not check(cover, name + " +0"):
                return
            gap = op["gap"]
            arr = m.arrival()
            if isinstance(gap, str):
                if arr is None or Fraction(h.now()) >= arr:
                    gap = {"half": 0.5, "quarter": 0.25, "before_arrival": 0.0, "to_arrival": 1.0, "after_arrival": 2.0}[gap]
                else:
                    rem = float(arr - Fraction(h.now()))
                    gap = {"half": q(rem / 2), "quarter": q(rem / 4), "before_arrival": max(0.0, rem - EPS), "to_arrival": rem,
                           "after_arrival": rem + EPS}[gap]
            if gap > 0:
                await h.sleep_until(h.now() + gap)
                await h.settle()
                if not check(cover, f"{name} +{gap}"):
                    return
        # long quiet period: every travel is over
        await h.sleep_until(h.now() + 2 * max(spec["tt_down"], spec["tt_up"]) + 5)
        await h.settle()
        check(cover, "end")

    try:
        h.run(scenario(), max_vtime=5e4)
    finally:
        h.close()
    if not found:
        ctx.distinct(("cover", spec["layout"], spec["pattern"], "".join(o["op"][0] + o["op"][-1] for o in spec["ops"])))
    return found[0] if found else None


def run(ctx):
    ctx.rule = (
        "TravelCalculator: history = 2..10 commands from {set_position, update_position, start_travel, up, down, stop}, each followed by "
        "(positions 0..100, in 30% of the histories also -20..130) queries at clock advances drawn from {0, 2^-10, half/quarter/31-32nds of the remaining travel time, remaining-2^-10, exactly remaining, "
        "remaining+2^-10, beyond, and (dyadic travel times) remaining-2^-k for k in {12,16,20,24,30,40} resp. the float predecessor of the arrival instant}; travel times 100*m/2^k (75%) or decimal (25%). Cover: 3..9 user commands / bus telegrams with gaps, 6 address "
        "layouts x invert flags. distinct = distinct command-kind strings (per layout for Cover)."
    )
    ctx.require("position_outside_0_100", "probe_at_float_predecessor_of_arrival", "probe_at_arrival_minus_2^-20", "probe_at_arrival_minus_2^-30", "queries", "advance_zero", "advance_positive", "q_mid_travel", "q_after_travel_time", "q_at_rest", "op_stop",
                "op_update_position", "cover_queries", "cover_callbacks", "cover_queries_judged", "cover_queries_mid_travel",
                "cover_queries_after_travel_time", "cover_auto_stop_scheduled", "cover_own_stop_telegrams", "cover_bus_movement_from_rest",
                "cover_bus_move_after_travel_same", "cover_end_position_command_while_auto_stop_pending")
    n_tc = ctx.scale(6000, 15000 * 16)
    n_cover = ctx.scale(250, 600 * 16)
    mech_seen: dict[str, int] = {}
    for i in range(n_tc):
        if not ctx.mine(i):
            continue
        rng = random.Random(f"C40/tc/{ctx.seed}/{i}")
        spec = gen_history(rng, i)
        m = run_history(ctx, spec)
        ctx.count("histories")
        if m:
            mech_seen[m] = mech_seen.get(m, 0) + 1
            ctx.count("histories_with_violation")
        if i < 3:
            ctx.sample({"travelcalculator_history": spec})
    for i in range(n_cover):
        if not ctx.mine(i):
            continue
        rng = random.Random(f"C40/cover/{ctx.seed}/{i}")
        spec = gen_cover(rng, i)
        run_cover(ctx, spec)
        ctx.count("cover_histories")
        if i < 2:
            ctx.sample({"cover_history": spec})


def replay(ctx, witness):
    ctx.rule = "replay of one recorded history"
    if witness.get("kind") == "cover":
        run_cover(ctx, witness["spec"])
        ctx.distinct("replay")
        ctx.distinct("replay2")
        return
    spec = witness["spec"]
    spec["ops"] = [dict(o, advances=[tuple(a) for a in o["advances"]]) for o in spec["ops"]]
    run_history(ctx, spec)
    ctx.distinct("replay")
    ctx.distinct("replay2")
