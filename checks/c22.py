"""C22 transports: no exception escapes; TCP delivers every well-formed frame once, in order, for every chunking;
malformed frames with a readable header length are skipped without losing what follows."""

from __future__ import annotations

import asyncio
import contextlib
import functools
import itertools
import logging
import random
from typing import Any

from vlib import knxip_gen as g
from vlib.vloop import new_loop, patch_multicast
from xknx.exceptions import CouldNotParseKNXIP, IncompleteKNXIPFrame
from vlib import refcrypto_ip as ref
from vlib.peers_secure import SecureRoutingPeer, SecureServer
from xknx.io import ip_secure
from xknx.io.ip_secure import SecureGroup, SecureSession
from xknx.io.transport import TCPTransport, UDPTransport
from xknx.knxip import KNXIPFrame, RoutingIndication, SecureWrapper, SessionRequest, TimerNotify, TunnellingRequest

LEVEL = "exploration"
TECHNIQUE = (
    "runtime monitor: real TCPTransport/UDPTransport fed with generated streams/datagrams (directly and through the in-memory "
    "asyncio transports of the virtual loop); oracle = delivered frame list vs. frame-by-frame parse of the stream, exception and step monitors"
)
LEVEL_TEXT = (
    "TCP: streams of valid frames (all body classes), malformed frames with a readable header length (unknown / unimplemented service, "
    "wrong version, bad body) and partial tails. Short streams are split at every possible boundary set (exhaustive for those streams); "
    "longer ones at every subset of the cut points around each frame boundary, byte by byte, in one chunk and at random boundaries; "
    "one-chunk streams of up to 5000 minimal frames; malformed and valid frames announcing 32767 / 32768 / 40000 / 65535 octets (all present) followed by valid frames. UDP: the C20 hostile corpus and valid frames as datagram sequences. "
    "Exploration: streams are sampled; the chunkings of each short stream are complete."
)
LEVEL_NOTE = (
    "Trusted: CPython, the virtual loop. 'Well-formed' = KNXIPFrame.from_knx accepts the frame's octets in isolation; the expected delivery "
    "list is the list of those frames, compared structurally (body and header) with what the registered callback received. Judged: no "
    "exception out of data_received_callback / into the loop handler (TCP and UDP), LINE-event budget (termination), TCP delivery list for "
    "every chunking. Streams containing an unreadable header (octet 0 != 06h or announced length < 6) lose framing by definition: only "
    "exceptions, termination and the frames before the garbage are judged there. UDP deliveries are counted, not judged. A share of the TCP/UDP/secure histories runs with the xknx loggers at DEBUG (recording handler, restored afterwards); the oracle is the same."
)
SHARDS = {"quick": 1, "thorough": 16}
TIMEOUT = {"quick": 300, "thorough": 3000}

ADDR = ("10.0.0.2", 3671)


# --------------------------------------------------------------------------
# frame pools


def _isolated(data: bytes) -> tuple[Any, Any]:
    """(frame, None) if the octets parse as exactly one frame, else (None, exception)."""
    res = g.budgeted(KNXIPFrame.from_knx, (data,), 3000 + 300 * len(data), wall_s=10, heap=False)
    exc = res["exc"]
    if exc is None:
        frame, rest = res["result"]
        if rest == b"":
            return frame, None
        return None, ValueError("rest")
    return None, exc


class Pools:
    def __init__(self, ctx: Any, rng: Any) -> None:
        self.valid: list[tuple[bytes, Any]] = []
        self.tiny: list[tuple[bytes, Any]] = []
        self.bad_cnp: list[bytes] = []  # readable length, isolated parse raises CouldNotParseKNXIP
        self.bad_other: list[bytes] = []  # readable length, isolated parse raises something else (C20 defect echo)
        self.unreadable: list[bytes] = []
        n_valid = ctx.scale(400, 1500)
        while len(self.valid) < n_valid:
            data = g.gen_frame_bytes(rng, small=rng.random() < 0.9)
            frame, exc = _isolated(data)
            if frame is None or frame.to_knx() != data:
                ctx.count("recorded_valid_frame_not_usable_for_streams")
                continue
            self.valid.append((data, frame))
            if len(data) <= 8:
                self.tiny.append((data, frame))
        for data in (bytes.fromhex("061005300006"), bytes.fromhex("061002040006"), bytes.fromhex("0610095400080400")):
            frame, exc = _isolated(data)
            if frame is not None:
                self.tiny.append((data, frame))
        seen: set[bytes] = set()
        for label, data in g.malformed_frames(rng, ctx.scale(6000, 20000)):
            if len(data) < 6 or data in seen:
                continue
            announced = data[4] * 256 + data[5]
            if data[0] != 6 or announced < 6:
                if len(self.unreadable) < 300 and len(data) <= 64:
                    self.unreadable.append(data)
                    seen.add(data)
                continue
            if announced != len(data) or len(data) > 80:
                continue
            frame, exc = _isolated(data)
            if frame is not None:
                continue
            if isinstance(exc, (g.StepBudgetExceeded, g.WallBackstop)):
                continue
            seen.add(data)
            (self.bad_cnp if isinstance(exc, CouldNotParseKNXIP) else self.bad_other).append(data)
        for svc, ver in ((0x0533, 0x10), (0x0740, 0x10), (0xFFFF, 0x10), (0x0201, 0x11), (0x0530, 0x00)):
            self.bad_cnp.append(g.header(svc, 6, version=ver))
            self.bad_cnp.append(g.header(svc, 8, version=ver) + b"\x00\x00")
        self.bad_cnp.sort(key=lambda d: (len(d), d))
        self.bad_other.sort(key=lambda d: (len(d), d))
        ctx.count("pool_valid", len(self.valid))
        ctx.count("pool_malformed_readable_length", len(self.bad_cnp))
        ctx.count("pool_malformed_readable_length_undeclared_exception", len(self.bad_other))
        ctx.count("pool_unreadable_header", len(self.unreadable))


# --------------------------------------------------------------------------
# running one stream


class UserCallbackError(RuntimeError):
    """What a registered user callback may raise that has nothing to do with KNX/IP parsing."""


# set while streams with a raising callback are run: {"name": str, "exc": class, "at": set of delivery ordinals}
_RAISE: list[Any] = [None]


def _recording_callback(got: list[Any]) -> Any:
    """The registered callback: records the frame; raises on selected deliveries if _RAISE is set."""
    plan = _RAISE[0]

    def callback(frame: Any, src: Any, transport: Any) -> None:
        got.append(frame)
        if plan is not None and (len(got) - 1) in plan["at"]:
            raise plan["exc"]("raised by the registered callback")

    return callback


def _feed_direct(chunks: list[bytes], got: list[Any], state: dict[str, Any]) -> None:
    tr = TCPTransport(ADDR)
    tr.register_callback(_recording_callback(got))
    for i, chunk in enumerate(chunks):
        state["chunk"] = i
        try:
            tr.data_received_callback(chunk)
        except UserCallbackError:
            # an exception class of the user's callback: its own business, recorded only
            state["user_callback_errors"] = state.get("user_callback_errors", 0) + 1
    state["chunk"] = len(chunks)


def _mismatch(expected: list[Any], got: list[Any]) -> int | None:
    for i, (e, d) in enumerate(zip(expected, got)):
        if not (d.header.total_length == e.header.total_length and d.header.service_type_ident == e.header.service_type_ident
                and g.body_equal(d.body, e.body)):
            return i
    if len(expected) != len(got):
        return min(len(expected), len(got))
    return None


def run_stream(ctx: Any, kind: str, items: list[tuple[str, bytes, Any]], chunks: list[bytes], via: str = "direct", loop: Any = None) -> bool:
    """Guarded _run_stream: a harness failure for one stream is counted and skipped."""
    res = g.guarded(ctx, "run_stream " + kind, _run_stream, ctx, kind, items, chunks, via, loop)
    return True if res is None else res


def _run_stream(ctx: Any, kind: str, items: list[tuple[str, bytes, Any]], chunks: list[bytes], via: str = "direct", loop: Any = None) -> bool:
    """items: (item kind, octets, isolated frame or None). Returns True if nothing was flagged."""
    ctx.ev()
    ctx.count("tcp_streams_run")
    ctx.count("tcp_chunks_fed", len(chunks))
    total = sum(len(c) for c in chunks)
    got: list[Any] = []
    state: dict[str, Any] = {"chunk": -1}
    witness = {
        "transport": "tcp",
        "stream_kind": kind,
        "via": via,
        "frames": [{"kind": k, "octets": d if len(d) <= 200 else d[:200], "len": len(d), "constant_filler": len(d) > 200 and len(set(d[199:])) == 1}
                   for k, d, _f in items[:40]],
        "n_frames": len(items),
        "chunk_lengths": [len(c) for c in chunks][:200],
    }
    witness["debug_logging"] = logging.getLogger("xknx.raw_socket").isEnabledFor(logging.DEBUG)
    plan = _RAISE[0]
    if plan is not None:
        witness["callback_raises"] = {"exception": plan["name"], "at_deliveries": sorted(plan["at"])}
        ctx.count("tcp_streams_with_raising_callback_" + plan["name"])
    exc: Any = None
    if via == "direct":
        res = g.budgeted(_feed_direct, (chunks, got, state), 5000 + 2000 * len(chunks) + 400 * total, wall_s=20, heap=False)
        exc = res["exc"]
    else:
        n_before = len(loop.exceptions)
        tr = TCPTransport(ADDR)
        tr.register_callback(_recording_callback(got))

        async def scenario() -> None:
            await tr.connect()
            st = loop.stream_transports[-1]
            for i, chunk in enumerate(chunks):
                st.deliver_later(0.001 * (i + 1), chunk)
            await asyncio.sleep(0.001 * (len(chunks) + 2))
            tr.stop()

        res = g.budgeted(loop.run, (scenario(),), 200000 + 4000 * len(chunks) + 400 * total, wall_s=20, heap=False)
        exc = res["exc"]
        user_errs = [r for r in loop.exceptions[n_before:] if r["type"] == "UserCallbackError"]
        if user_errs:
            state["user_callback_errors"] = len(user_errs)
        others = [r for r in loop.exceptions[n_before:] if r["type"] != "UserCallbackError"]
        if exc is None and others:
            rec = others[0]
            witness["loop_handler"] = rec
            ctx.count("tcp_exceptions_seen_by_loop_handler")
            # asyncio hands BaseExceptions raised in a callback to the handler too: map the monitor's own back
            if rec["type"] == "StepBudgetExceeded":
                exc = g.StepBudgetExceeded(rec["exception"])
            elif rec["type"] == "WallBackstop":
                exc = g.WallBackstop()
            else:
                exc = type(rec["type"] or "Exception", (Exception,), {})(rec["exception"])
    if isinstance(exc, g.WallBackstop):
        ctx.inconclusive(f"wall-clock backstop fired on a TCP stream ({kind})")
        return True
    if isinstance(exc, (KeyboardInterrupt, SystemExit)):
        raise exc
    if exc is not None:
        name = "step-budget-exceeded" if isinstance(exc, g.StepBudgetExceeded) else type(exc).__name__
        witness["exception"] = repr(exc)[:300]
        witness["at_chunk"] = state["chunk"]
        ctx.count("tcp_exception_escaped")
        ctx.violation(
            f"tcp-{name}-{kind}",
            witness,
            f"TCPTransport.data_received_callback let {name} escape ({str(exc)[:100]}) on a '{kind}' stream of {len(items)} frames in {len(chunks)} chunks",
        )
        ctx.distinct(("tcp", kind, via, "exception", name))
        return False
    if plan is not None and plan["exc"] is UserCallbackError:
        # not judged: an unrelated exception class of a user callback ends the processing of that chunk
        expected = [f for _k, _d, f in items if f is not None]
        ctx.count("recorded_tcp_user_callback_error_escaped", state.get("user_callback_errors", 0))
        ctx.count("recorded_tcp_user_callback_error_delivery_" + ("equal" if _mismatch(expected, got) is None else "differs"))
        ctx.distinct(("tcp", kind, via, "recorded"))
        return True
    # delivery oracle
    garbage_at = next((i for i, (k, _d, _f) in enumerate(items) if k in ("unreadable", "partial-tail")), len(items))
    expected_all = [f for k, _d, f in items[:garbage_at] if f is not None]
    judged_got = got
    if garbage_at < len(items) and items[garbage_at][0] == "unreadable":
        # framing is lost after an unreadable header: only the frames before it are judged
        judged_got = got[: len(expected_all)]
        ctx.count("tcp_streams_with_unreadable_header")
    bad = _mismatch(expected_all, judged_got)
    ctx.count("tcp_frames_expected", len(expected_all))
    ctx.count("tcp_frames_delivered", len(got))
    if bad is None:
        ctx.count("tcp_delivery_lists_equal")
        ctx.distinct(("tcp", kind, via, min(len(items), 8), min(len(chunks), 12), "ok"))
        return True
    malformed_before = any(f is None for _k, _d, f in items[: garbage_at])
    if len(judged_got) < len(expected_all):
        mech = "tcp-frame-lost" + ("-after-malformed-frame" if malformed_before else "")
    elif len(judged_got) > len(expected_all):
        mech = "tcp-more-frames-delivered-than-in-stream"
    else:
        mech = "tcp-delivered-frame-differs-or-out-of-order"
    if plan is not None:
        mech += "-when-" + kind
    witness["expected_n"] = len(expected_all)
    witness["delivered_n"] = len(judged_got)
    witness["first_difference_at"] = bad
    witness["delivered"] = [repr(f)[:120] for f in judged_got[:10]]
    ctx.violation(mech, witness,
                  f"TCP '{kind}' stream of {len(items)} frames in {len(chunks)} chunks: {len(judged_got)} frames delivered, {len(expected_all)} well-formed in the stream; first difference at #{bad}")
    ctx.distinct(("tcp", kind, via, "delivery", mech))
    return False


def _split(data: bytes, cuts: list[int]) -> list[bytes]:
    out = []
    prev = 0
    for c in cuts:
        out.append(data[prev:c])
        prev = c
    out.append(data[prev:])
    return out


def _all_chunkings(ctx: Any, kind: str, items: list[tuple[str, bytes, Any]], positions: list[int]) -> None:
    data = b"".join(d for _k, d, _f in items)
    positions = sorted(set(p for p in positions if 0 < p < len(data)))
    for r in range(len(positions) + 1):
        for cuts in itertools.combinations(positions, r):
            ctx.count("tcp_exhaustive_chunkings")
            if not run_stream(ctx, kind, items, _split(data, list(cuts))) and r > 2:
                return  # the same defect would be reported thousands of times


def _boundaries(items: list[tuple[str, bytes, Any]]) -> list[int]:
    out = []
    pos = 0
    for _k, d, _f in items:
        pos += len(d)
        out.append(pos)
    return out


def _mk_stream(rng: Any, pools: Pools, kind: str, n: int, tiny: bool = False) -> list[tuple[str, bytes, Any]]:
    valid = pools.tiny if tiny else pools.valid
    items: list[tuple[str, bytes, Any]] = []
    for _ in range(n):
        r = rng.random()
        if kind == "valid-only" or r < 0.5:
            d, f = rng.choice(valid)
            items.append(("valid", d, f))
        elif kind == "after-malformed-frame":
            pool = [b for b in pools.bad_cnp if len(b) <= 8] if tiny else pools.bad_cnp
            items.append(("malformed", rng.choice(pool), None))
        elif kind == "malformed-body-undeclared-exception":
            items.append(("malformed", rng.choice(pools.bad_other), None))
        elif kind == "unreadable-header":
            items.append(("unreadable", rng.choice(pools.unreadable), None))
    if kind != "valid-only" and all(k == "valid" for k, _d, _f in items):
        sub = {"after-malformed-frame": pools.bad_cnp, "malformed-body-undeclared-exception": pools.bad_other, "unreadable-header": pools.unreadable}[kind]
        pool = [b for b in sub if len(b) <= 8] if tiny else sub
        items.insert(rng.randrange(len(items)), ("unreadable" if kind == "unreadable-header" else "malformed", rng.choice(pool), None))
        d, f = rng.choice(valid)
        items.append(("valid", d, f))
    return items


def tcp_part(ctx: Any, rng: Any, pools: Pools) -> None:
    kinds = ["valid-only", "after-malformed-frame", "unreadable-header"]
    if pools.bad_other:
        kinds.append("malformed-body-undeclared-exception")
    # 1. short streams: every boundary set
    max_len = ctx.scale(14, 16)
    n_short = ctx.scale(12, 64)
    made = 0
    attempts = 0
    while made < n_short and attempts < 5000:
        attempts += 1
        kind = ("valid-only", "after-malformed-frame")[made % 2]
        items = _mk_stream(rng, pools, kind, rng.choice((1, 2)), tiny=True)
        if rng.random() < 0.3:
            d, _f = rng.choice(pools.valid)
            items.append(("partial-tail", d[: rng.randrange(1, min(len(d), 6))], None))
        total = sum(len(d) for _k, d, _f in items)
        if total > max_len or total < (12 if made % 4 else 7):
            continue
        made += 1
        if not ctx.mine(made):
            continue
        ctx.count("tcp_short_streams_all_splits")
        _all_chunkings(ctx, kind, items, list(range(1, total)))
        if made <= 2:
            ctx.sample({"tcp_short_stream": [(k, d) for k, d, _f in items], "splits": 2 ** (total - 1)})
    # 2. medium streams: every subset of the cut points around the frame boundaries
    n_medium = ctx.scale(60, 800)
    npos = ctx.scale(9, 11)
    for i in range(n_medium):
        kind = kinds[i % len(kinds)]
        items = _mk_stream(rng, pools, kind, rng.randrange(2, 6))
        if not ctx.mine(i):
            continue
        cand: list[int] = []
        for b in _boundaries(items)[:-1]:
            cand += [b - 1, b, b + 1, b + 5, b + 6, b + 4]
        rng.shuffle(cand)
        ctx.count("tcp_medium_streams_boundary_subsets")
        _all_chunkings(ctx, kind, items, cand[:npos])
    # 3. long streams: byte by byte, one chunk, random boundaries; directly and through the loop's stream transport
    loop = new_loop()
    try:
        n_long = ctx.scale(300, 6000)
        for i in range(n_long):
            kind = kinds[i % len(kinds)]
            items = _mk_stream(rng, pools, kind, rng.choice((3, 6, 12, 30, rng.randrange(2, 60))))
            if rng.random() < 0.2:
                d, _f = rng.choice(pools.valid)
                if len(d) > 1:
                    items.append(("partial-tail", d[: rng.randrange(1, len(d))], None))
            if not ctx.mine(i):
                continue
            data = b"".join(d for _k, d, _f in items)
            ctx.count("tcp_long_streams")
            run_stream(ctx, kind, items, [data])
            if len(data) <= 600 or i % 10 == 0 and len(data) <= 5000:
                run_stream(ctx, kind, items, [data[j : j + 1] for j in range(len(data))])
            for _ in range(ctx.scale(3, 6)):
                ncuts = rng.choice((1, 2, 3, 5, 10, rng.randrange(1, 40)))
                cuts = sorted(set(rng.randrange(1, len(data)) for _ in range(ncuts))) if len(data) > 1 else []
                via = "loop" if rng.random() < 0.25 else "direct"
                if via == "loop":
                    ctx.count("tcp_streams_through_loop_transport")
                run_stream(ctx, kind, items, _split(data, cuts), via=via, loop=loop)
    finally:
        loop.finish()
    # 5. frames announcing total lengths around the 16-bit sign boundary and the maximum, with that many octets present:
    #    malformed ones (unknown / unimplemented service, wrong version, bad body) must be skipped, valid big ones delivered
    loop2 = new_loop()
    big_totals = (32767, 32768, 40000, 65535)
    big_kinds = (("unknown-service", 0xFFFF, 0x10), ("unimplemented-service", 0x0533, 0x10), ("wrong-version", 0x0530, 0x11), ("bad-body", 0x0421, 0x10))
    cases: list[tuple[str, bytes]] = []
    for j, total in enumerate(big_totals):
        todo = big_kinds if (total == 32768 or not ctx.quick) else (big_kinds[j % len(big_kinds)],)
        for name, svc, ver in todo:
            cases.append(("after-big-malformed-frame", g.header(svc, total, version=ver) + b"\xa5" * (total - 6)))
    for total in (32767, 32768, 65535):
        cases.append(("big-valid-frames", g.header(0x0530, total) + b"\x29" * (total - 6)))  # RoutingIndication, long cEMI
    cases.append(("big-valid-frames", g.header(0x0420, 65535) + bytes((4, 7, 9, 0)) + b"\x11" * (65535 - 10)))  # TunnellingRequest
    cases.append(("big-valid-frames", g.header(0x0310, 40000) + bytes((4, 7, 9, 0)) + b"\x11" * (40000 - 10)))  # DeviceConfigurationRequest
    for j, (kind, big) in enumerate(cases):
        if not ctx.mine(j):
            continue
        frame, exc = _isolated(big)
        if kind == "big-valid-frames":
            if frame is None:
                ctx.count("recorded_big_valid_frame_rejected_in_isolation")
                continue
            big_item = ("valid", big, frame)
        else:
            if frame is not None or not isinstance(exc, CouldNotParseKNXIP):
                ctx.count("recorded_big_malformed_frame_not_rejected_with_CouldNotParseKNXIP")
                continue
            big_item = ("malformed", big, None)
        head = [("valid", *rng.choice(pools.valid)) for _ in range(rng.randrange(0, 2))]
        tail = [("valid", *rng.choice(pools.valid)) for _ in range(rng.randrange(2, 5))]
        items = head + [big_item] + tail
        data = b"".join(d for _k, d, _f in items)
        start = sum(len(d) for _k, d, _f in head)
        end = start + len(big)
        ctx.count("tcp_big_frame_streams")
        run_stream(ctx, kind, items, [data])
        run_stream(ctx, kind, items, _split(data, sorted({start + 3, start + 6, start + 1000, end - 1, end + 2} & set(range(1, len(data))))))
        for _ in range(ctx.scale(1, 4)):
            cuts = sorted(set(rng.randrange(1, len(data)) for _ in range(rng.choice((2, 5, 40)))))
            run_stream(ctx, kind, items, _split(data, cuts), via="loop" if rng.random() < 0.3 else "direct", loop=loop2)
    # 6. registered callbacks that raise on selected well-formed frames: every frame is still delivered exactly once, in order
    try:
        for ci, (name, cls) in enumerate((("CouldNotParseKNXIP", CouldNotParseKNXIP), ("IncompleteKNXIPFrame", IncompleteKNXIPFrame), ("UserCallbackError", UserCallbackError))):
            kind = "callback-raises-" + name

            def plan_for(n_valid: int) -> None:
                at = {rng.randrange(0, max(1, n_valid - 1))}
                if n_valid > 2 and rng.random() < 0.5:
                    at.add(rng.randrange(0, n_valid))
                _RAISE[0] = {"name": name, "exc": cls, "at": at}

            made = 0
            while made < ctx.scale(2, 8):  # short: every boundary set
                items = _mk_stream(rng, pools, "valid-only", 2, tiny=True)
                total = sum(len(d) for _k, d, _f in items)
                if total > ctx.scale(12, 14):
                    continue
                made += 1
                if ctx.mine(made + ci):
                    plan_for(2)
                    ctx.count("tcp_raising_callback_streams")
                    _all_chunkings(ctx, kind, items, list(range(1, total)))
            for i in range(ctx.scale(6, 60)):  # medium: subsets of cut points around the boundaries
                items = _mk_stream(rng, pools, "valid-only", rng.randrange(3, 6))
                if not ctx.mine(i + ci):
                    continue
                cand = []
                for b in _boundaries(items)[:-1]:
                    cand += [b - 1, b, b + 1, b + 6]
                rng.shuffle(cand)
                plan_for(len(items))
                ctx.count("tcp_raising_callback_streams")
                _all_chunkings(ctx, kind, items, cand[: ctx.scale(7, 10)])
            for i in range(ctx.scale(20, 400)):  # long: one chunk, byte by byte, random; also through the loop transport
                items = _mk_stream(rng, pools, rng.choice(("valid-only", "after-malformed-frame")), rng.randrange(3, 25))
                if not ctx.mine(i + ci):
                    continue
                data = b"".join(d for _k, d, _f in items)
                plan_for(sum(1 for _k, _d, f in items if f is not None))
                ctx.count("tcp_raising_callback_streams")
                run_stream(ctx, kind, items, [data])
                if len(data) <= 800:
                    run_stream(ctx, kind, items, [data[j : j + 1] for j in range(len(data))])
                cuts = sorted(set(rng.randrange(1, len(data)) for _ in range(rng.choice((1, 3, 10)))))
                run_stream(ctx, kind, items, _split(data, cuts), via="loop" if i % 3 == 0 else "direct", loop=loop2)
    finally:
        _RAISE[0] = None
    # 7. the logging configuration as a workload dimension: xknx loggers at DEBUG (recording handler), frames longer than
    #    64 / 128 / 256 / 1000 octets split late (after most of the frame arrived), valid frames before and after
    with g.debug_logging(ctx):
        lens = (70, 130, 260, 1000) if ctx.quick else (65, 70, 129, 130, 257, 260, 1000, 4000)
        for j, n in enumerate(lens):
            if not ctx.mine(j):
                continue
            for maker in (lambda k: g.frame_bytes(RoutingIndication(rng.randbytes(k - 6))),
                          lambda k: g.frame_bytes(TunnellingRequest(7, 9, rng.randbytes(k - 10))),
                          lambda k: g.header(0xFFFF, k) + rng.randbytes(k - 6)):
                long_frame = maker(n)
                frame, _exc = _isolated(long_frame)
                item = ("valid", long_frame, frame) if frame is not None else ("malformed", long_frame, None)
                items = [("valid", *rng.choice(pools.valid)), item, ("valid", *rng.choice(pools.valid)), ("valid", *rng.choice(pools.valid))]
                data = b"".join(d for _k, d, _f in items)
                start = len(items[0][1])
                end = start + n
                kind = "debug-logging-long-frame-split-late"
                ctx.count("tcp_debug_logging_streams")
                late = sorted({start + 6, start + 63, start + 64, start + 65, start + 66, start + 127, start + 129, start + 257, end - 30, end - 1} & set(range(start + 1, end)))
                for c in late:
                    run_stream(ctx, kind, items, _split(data, [c]))
                for _ in range(ctx.scale(3, 10)):
                    c1 = rng.randrange(start + 1, end)
                    c2 = rng.randrange(start + 1, end)
                    run_stream(ctx, kind, items, _split(data, sorted({c1, c2})), via="loop" if rng.random() < 0.3 else "direct", loop=loop2)
                run_stream(ctx, kind, items, [data[: end - 1], data[end - 1 :]])
        # and a share of the ordinary long streams again, now with DEBUG logging
        for i in range(ctx.scale(40, 800)):
            kind = kinds[i % len(kinds)]
            items = _mk_stream(rng, pools, kind, rng.randrange(3, 20))
            if not ctx.mine(i):
                continue
            data = b"".join(d for _k, d, _f in items)
            cuts = sorted(set(rng.randrange(1, len(data)) for _ in range(rng.choice((1, 3, 10))))) if len(data) > 1 else []
            ctx.count("tcp_debug_logging_streams")
            run_stream(ctx, kind, items, _split(data, cuts), via="loop" if i % 4 == 0 else "direct", loop=loop2)
            run_stream(ctx, kind, items, [data])
    loop2.finish()
    # 4. many minimal frames in one chunk (a 256 KiB socket read holds > 40000 of them)
    sizes = ctx.scale((200, 990, 1000, 5000), (200, 990, 1000, 5000, 40000))
    for j, n in enumerate(sizes):
        if not ctx.mine(j):
            continue
        d, f = pools.tiny[j % len(pools.tiny)]
        items = [("valid", d, f)] * n
        ctx.count("tcp_many_frames_one_chunk")
        run_stream(ctx, "many-frames-in-one-chunk", items, [d * n])


# --------------------------------------------------------------------------
# UDP


def _udp_call(tr: Any, data: bytes, addr: tuple[str, int]) -> None:
    tr.data_received_callback(data, addr)


def udp_part(ctx: Any, rng: Any, pools: Pools) -> None:
    got: list[Any] = []
    tr = UDPTransport(("10.0.0.1", 0), ADDR)
    tr.register_callback(lambda frame, src, t: got.append(frame))
    corpus: list[tuple[str, bytes]] = g.malformed_frames(rng, ctx.scale(12000, 300000) // ctx.nshards)
    corpus += [("valid", d) for d, _f in pools.valid[: ctx.scale(300, 1500)]]
    corpus += [("empty", b""), ("zero-length-dib", bytes.fromhex("0610020400080003")),
               ("zero-length-dib-search-response", bytes.fromhex("061002020010" + "0801c0a800010e57" + "0002"))]
    for svc in (0x0204, 0x0202, 0x020C):
        corpus.append(("many-minimal-dibs", g.many_tiny_dibs(svc, 2000, rng)))
    rng.shuffle(corpus)
    hanging: set[bytes] = set()
    for label, data in corpus:
        ctx.ev()
        before = len(got)
        res = g.budgeted(_udp_call, (tr, data, ADDR), 4000 + 300 * len(data), wall_s=10, heap=False)
        exc = res["exc"]
        ctx.count("udp_datagrams_fed")
        if isinstance(exc, g.WallBackstop):
            ctx.inconclusive("wall-clock backstop fired in UDP data_received_callback")
            continue
        if isinstance(exc, (KeyboardInterrupt, SystemExit)):
            raise exc
        svc = g.service_label(data)
        if exc is not None:
            name = "step-budget-exceeded" if isinstance(exc, g.StepBudgetExceeded) else type(exc).__name__
            if isinstance(exc, g.StepBudgetExceeded):
                hanging.add(data)
            ctx.count("udp_exception_escaped")
            ctx.violation(
                f"udp-{name}-escapes-data_received",
                {"transport": "udp", "label": label, "service": svc, "data": data if len(data) <= 4096 else data[:600], "len": len(data), "exception": repr(exc)[:300]},
                f"UDPTransport.data_received_callback let {name} escape on a {len(data)}-octet {svc} datagram ({label}): {str(exc)[:100]}",
            )
            ctx.distinct(("udp", svc, label, name))
            continue
        ctx.count("udp_no_exception")
        delivered = len(got) - before
        ctx.count("udp_recorded_delivered" if delivered else "udp_recorded_dropped")
        ctx.distinct(("udp", svc, label, min(len(data), 32), delivered))
    if len(ctx.samples) < 6:
        ctx.sample({"udp_datagram": corpus[0][1][:80], "label": corpus[0][0]})

    # through the virtual loop's datagram transport (unicast and multicast with echo discard)
    patch_multicast()
    loop = new_loop()
    try:
        for multicast in (False, True):
            got2: list[Any] = []
            tr2 = UDPTransport(("10.0.0.1", 0), ("224.0.23.12", 3671) if multicast else ADDR, multicast=multicast)
            tr2.register_callback(lambda frame, src, t: got2.append(frame))
            # datagrams already flagged as non-terminating are not fed again (they would eat the whole scenario budget)
            sample = [c for c in corpus if c[1] not in hanging][: ctx.scale(600, 3000)]

            async def scenario() -> None:
                await tr2.connect()
                dts = [t for t in loop.datagram_transports if not t.closed]
                own = tr2.local_addr_assigned
                for i, (_label, data) in enumerate(sample):
                    dt = dts[i % len(dts)]
                    src = own if (multicast and i % 5 == 0) else ADDR
                    dt.deliver_later(0.001 * (i + 1), data, src)
                await asyncio.sleep(0.001 * (len(sample) + 2))
                tr2.stop()

            n_before = len(loop.exceptions)
            budget = 300000 + sum(2000 + 300 * len(d) for _l, d in sample)
            # the multicast pass runs with the xknx loggers at DEBUG
            with (g.debug_logging(ctx) if multicast else contextlib.nullcontext()):
                res = g.budgeted(loop.run, (scenario(),), budget, wall_s=60, heap=False)
            ctx.count("udp_datagrams_through_loop_transport", len(sample))
            exc = res["exc"]
            if isinstance(exc, g.WallBackstop):
                ctx.inconclusive("wall-clock backstop fired in the UDP loop scenario")
            elif isinstance(exc, g.StepBudgetExceeded):
                ctx.violation("udp-step-budget-exceeded-escapes-data_received", {"transport": "udp", "via": "loop", "multicast": multicast, "where": str(exc)},
                              "UDP datagram handling on the loop did not terminate within the step budget")
            elif exc is not None:
                raise exc
            names = sorted({str(rec["type"]) for rec in loop.exceptions[n_before:]})
            ctx.count("udp_exceptions_seen_by_loop_handler", len(loop.exceptions) - n_before)
            if "WallBackstop" in names:
                names.remove("WallBackstop")
                ctx.inconclusive("wall-clock backstop fired in the UDP loop scenario")
            for name in names:
                rec = next(r for r in loop.exceptions[n_before:] if str(r["type"]) == name)
                if name == "StepBudgetExceeded":
                    name = "step-budget-exceeded"
                ctx.violation(f"udp-{name}-escapes-data_received",
                              {"transport": "udp", "via": "loop", "multicast": multicast, "loop_handler": rec},
                              f"{name} from UDP datagram_received reached the event loop's exception handler: {rec['exception'][:120]}")
            ctx.distinct(("udp-loop", multicast, len(got2) > 0, tuple(names)))
    finally:
        loop.finish()


# --------------------------------------------------------------------------
# secure transports (SecureSession over TCP, SecureGroup over UDP multicast): judged on the no-exception clause only


@contextlib.contextmanager
def _secure_patches(keyrng: list[Any]) -> Any:
    """Memoise the pure PBKDF2 derivations, make ECDH key pairs reproducible, record the frame being handled."""
    saved = (ip_secure.derive_user_password, ip_secure.derive_device_authentication_password, ip_secure.generate_ecdh_key_pair,
             SecureSession.handle_knxipframe, SecureGroup.handle_knxipframe)
    ip_secure.derive_user_password = functools.cache(saved[0])
    ip_secure.derive_device_authentication_password = functools.cache(saved[1])

    def keypair() -> Any:
        priv = ref.x25519_private(keyrng[0].randbytes(32))
        return priv, ref.x25519_public_bytes(priv)

    ip_secure.generate_ecdh_key_pair = keypair

    def observed(orig: Any) -> Any:
        def handle(self: Any, knxipframe: Any, source: Any) -> None:
            state = getattr(self, "initialized", None)
            if state is None:
                state = self.secure_timer.timer_authenticated
            _HANDLING[0] = (knxipframe.header.service_type_ident.name, bool(state))
            orig(self, knxipframe, source)

        return handle

    SecureSession.handle_knxipframe = observed(saved[3])  # type: ignore[method-assign]
    SecureGroup.handle_knxipframe = observed(saved[4])  # type: ignore[method-assign]
    try:
        yield
    finally:
        (ip_secure.derive_user_password, ip_secure.derive_device_authentication_password, ip_secure.generate_ecdh_key_pair,
         SecureSession.handle_knxipframe, SecureGroup.handle_knxipframe) = saved  # type: ignore[method-assign]


_HANDLING: list[Any] = [None]
CREDS = (("secret", "trustme", 2), ("pw-A!", None, 1))
SESSION_PHASES = ("unconnected", "awaiting-session-response", "awaiting-authentication-status", "authenticated")
# nothing is fed after stop(): a closed asyncio transport delivers nothing, such histories would be artificial
GROUP_PHASES = ("before-timer-sync", "timer-synchronised", "timekeeper-after-timeout")


def _small_valid(rng: Any, pools: Pools) -> bytes:
    for _ in range(8):
        inner = rng.choice(pools.valid)[0]
        if len(inner) <= 2000:
            return inner
    return bytes.fromhex("06100421000a04010000")


def _inner_frames(rng: Any, pools: Pools) -> bytes:
    """What goes inside a wrapper: capped so that the wrapper (38 octets more) stays far below 65535 octets."""
    r = rng.random()
    if r < 0.45:
        return _small_valid(rng, pools)
    if r < 0.55:
        inner = _small_valid(rng, pools)  # truncated inner frame: the header announces more than the wrapper carries
        return inner[: rng.randrange(1, len(inner))]
    if r < 0.7:
        return rng.choice(pools.bad_cnp)
    if r < 0.8:
        return rng.choice(pools.unreadable)
    if r < 0.9:
        return ref.session_status(rng.choice((0, 1, 2, 3, 4, 5, 9)))
    return rng.randbytes(rng.choice((0, 1, 5, 6, 30)))


def _session_items(rng: Any, pools: Pools, n: int, key: bytes, sid: int, serial: bytes, seq: list[int], client_pub: bytes, server: Any) -> list[tuple[str, bytes]]:
    """Frames a peer could send on the TCP connection, at the right or wrong time."""
    out: list[tuple[str, bytes]] = []
    for _ in range(n):
        k = rng.randrange(14)
        if k < 3:
            seq[0] += 1
            out.append(("wrapper-genuine", ref.wrap(key, sid, seq[0], serial, b"\x00\x00", _inner_frames(rng, pools))))
        elif k == 3:
            out.append(("wrapper-replayed-or-old", ref.wrap(key, sid, rng.randrange(0, seq[0] + 1), serial, b"\x00\x00", _inner_frames(rng, pools))))
        elif k == 4:
            out.append(("wrapper-forged", ref.wrap(rng.choice((rng.randbytes(16), key)), rng.choice((sid, sid ^ 1, 0)), seq[0] + 5, serial, rng.randbytes(2), _inner_frames(rng, pools))))
        elif k == 5:
            out.append(("wrapper-random", g.frame_bytes(g.gen_body(SecureWrapper, rng))))
        elif k == 6:
            seq[0] += 1
            nested = ref.wrap(key, sid, seq[0] + 1, serial, b"\x00\x00", _small_valid(rng, pools))
            out.append(("wrapper-nested-or-forbidden", ref.wrap(key, sid, seq[0], serial, b"\x00\x00", rng.choice((nested, g.header(0x0740, 6), g.header(0x0743, 8) + b"\x00\x00")))))
        elif k == 7:
            pub = server.public if server is not None and rng.random() < 0.5 else rng.randbytes(32)
            dev = server.device_key if server is not None and rng.random() < 0.5 else rng.randbytes(16)
            out.append(("session-response", ref.session_response(dev, rng.choice((sid, 0, 0xFFFF)), client_pub, pub)))
        elif k == 8:
            out.append(("session-status-plain", ref.session_status(rng.choice((0, 1, 2, 3, 4, 5, 0x77)))))
        elif k == 9:
            out.append(rng.choice((("session-authenticate", ref.session_authenticate(rng.randbytes(16), rng.randrange(256), client_pub, rng.randbytes(32))),
                                   ("session-request", g.frame_bytes(g.gen_body(SessionRequest, rng))),
                                   ("timer-notify", g.frame_bytes(g.gen_body(TimerNotify, rng))))))
        elif k == 10:
            seq[0] += 1
            out.append(("wrapper-genuine-session-status", ref.wrap(key, sid, seq[0], serial, b"\x00\x00", ref.session_status(rng.choice((0, 1, 2, 3, 4, 5))))))
        elif k == 11:
            out.append(("malformed", rng.choice(pools.bad_cnp)))
        elif k == 12:
            out.append(("garbage", rng.choice(pools.unreadable)))
        else:
            out.append(("plain", rng.choice(pools.valid)[0]))
    return out


def _flag(ctx: Any, transport: str, exc_name: str, situation: str, witness: dict[str, Any], callback: str | None = None) -> None:
    ctx.count(f"secure_{transport}_exception_escaped")
    if callback is not None:
        # not raised while a chunk/datagram was processed, but later by one of the transport's own loop callbacks (timers)
        ctx.violation(
            f"secure-{transport}-{exc_name}-escapes-loop-callback-{callback}",
            dict(witness, last_frame_handled=situation),
            f"Secure{transport.capitalize()}: {exc_name} out of the loop callback {callback} reached the event loop after the injected traffic: {str(witness.get('exception'))[:160]}",
        )
        ctx.distinct(("secure", transport, "callback", callback, exc_name))
        return
    ctx.violation(
        f"secure-{transport}-{exc_name}-escapes-data_received-{situation}",
        witness,
        f"Secure{transport.capitalize()} let {exc_name} escape from data_received ({situation}): {str(witness.get('exception'))[:120]}",
    )
    ctx.distinct(("secure", transport, situation, exc_name))


def _callback_name(rec: dict[str, Any]) -> str | None:
    """None if the record stems from an injected chunk/datagram (Fake*Transport.deliver), else the name of the loop callback that raised."""
    msg = str(rec.get("message"))
    if ".deliver(" in msg:
        return None
    if "Exception in callback " in msg:
        return msg.split("Exception in callback ", 1)[1].split("(", 1)[0].strip()
    return "loop"


def _loop_records(loop: Any, start: int) -> list[dict[str, Any]]:
    """Exceptions of callbacks that reached the loop handler (task results of user calls are not transport escapes)."""
    return [r for r in loop.exceptions[start:] if "never retrieved" not in str(r.get("message"))]


def secure_session_history(ctx: Any, rng: Any, pools: Pools, index: int) -> None:
    phase = SESSION_PHASES[index % len(SESSION_PHASES)]
    via = "loop" if (index // len(SESSION_PHASES)) % 3 == 2 else "direct"
    user_pw, dev_pw, user_id = CREDS[index % len(CREDS)]
    loop = new_loop()
    sid = rng.choice((1, 2, 0x1234, 0xFFFF))
    server = SecureServer(loop, server_private_raw=rng.randbytes(32), device_password=dev_pw, users={user_id: user_pw}, session_id=sid,
                          auto_handshake=phase in ("authenticated", "awaiting-authentication-status"), auto_tunnel=False)
    if phase == "awaiting-authentication-status":
        server.auth_status = -1  # sentinel: see below, the status frame is withheld
    loop.on_connection = server.attach
    got: list[Any] = []
    events: list[dict[str, Any]] = []
    ctx.ev()
    ctx.count("secure_session_histories")
    ctx.count("secure_session_phase_" + phase)

    async def scenario() -> None:
        session = SecureSession(remote_addr=ADDR, user_id=user_id, user_password=user_pw, device_authentication_password=dev_pw)
        session.register_callback(lambda frame, src, t: got.append(frame))
        task = None
        if phase != "unconnected":
            if phase == "awaiting-authentication-status":
                orig_later = server.later

                def later(raw: bytes, delay: Any = None, label: str = "") -> None:
                    if server.key is not None and ref.service_of(raw) == ref.HDR_WRAPPER:
                        return  # withhold the authentication status
                    orig_later(raw, delay, label)

                server.later = later  # type: ignore[method-assign]
            task = asyncio.ensure_future(session.connect())
            await asyncio.sleep(0.05)
            if phase == "authenticated":
                await asyncio.wait([task], timeout=5)
                if task.done() and task.exception() is None and session.initialized:
                    ctx.count("secure_session_handshakes_completed")
                else:
                    ctx.count("secure_session_handshake_failed")
        key = server.key if server.key is not None else rng.randbytes(16)
        client_pub = server.client_public or rng.randbytes(32)
        seq = [server.tx_seq + 1]
        items = _session_items(rng, pools, rng.randrange(2, 14), key, sid, server.serial, seq, client_pub, server)
        data = b"".join(d for _k, d in items)
        r = rng.random()
        if r < 0.3:
            chunks = [d for _k, d in items]
        elif r < 0.4:
            chunks = [data]
        else:
            cuts = sorted(set(rng.randrange(1, len(data)) for _ in range(rng.choice((1, 3, 8, 20))))) if len(data) > 1 else []
            chunks = _split(data, cuts)
        stream = loop.stream_transports[-1] if loop.stream_transports else None
        for i, chunk in enumerate(chunks):
            ctx.count("secure_session_chunks_fed")
            _HANDLING[0] = None
            n_loop = len(loop.exceptions)
            exc: Any = None
            if via == "loop" and stream is not None:
                stream.deliver_later(0.0005, chunk)
                await asyncio.sleep(0.001)
            else:
                try:
                    if stream is not None:
                        stream.deliver(chunk)
                    else:
                        session.data_received_callback(chunk)
                except Exception as err:  # noqa: BLE001 - this is the monitor
                    exc = err
                await asyncio.sleep(0.001)
            found = [(type(exc).__name__, None, repr(exc)[:200])] if exc is not None else []
            found += [(str(rec["type"]), _callback_name(rec), str(rec)[:300]) for rec in _loop_records(loop, n_loop)]
            for name, cb, detail in found:
                events.append({"chunk": i, "exception": name, "detail": detail, "handling": _HANDLING[0], "callback": cb})
        if got:
            ctx.count("secure_session_frames_forwarded_to_callbacks", len(got))
        if task is not None:
            task.cancel()
            await asyncio.gather(task, return_exceptions=True)
        session.stop()
        await asyncio.sleep(0.01)
        witness_items.extend((k, d[:120]) for k, d in items[:20])
        witness_chunks.extend(len(c) for c in chunks[:100])

    witness_items: list[Any] = []
    witness_chunks: list[int] = []
    res = g.budgeted(loop.run, (scenario(),), 3_000_000, wall_s=60, heap=False)
    loop.finish()
    exc = res["exc"]
    if isinstance(exc, g.WallBackstop):
        ctx.inconclusive("wall-clock backstop fired in a secure session history")
        return
    base = {"transport": "secure-session", "phase": phase, "via": via, "index": index, "items": witness_items, "chunk_lengths": witness_chunks}
    if isinstance(exc, g.StepBudgetExceeded):
        _flag(ctx, "session", "step-budget-exceeded", phase, dict(base, exception=str(exc)))
        return
    if exc is not None:
        raise exc
    for ev in events:
        name = "step-budget-exceeded" if ev["exception"] == "StepBudgetExceeded" else ev["exception"]
        handling = ev["handling"]
        situation = "in-stream-parsing" if handling is None else ("initialized" if handling[1] else "not-initialized") + "-on-" + handling[0]
        _flag(ctx, "session", name, situation, dict(base, exception=ev["detail"], at_chunk=ev["chunk"]), ev["callback"])
    if not events:
        ctx.count("secure_session_histories_without_exception")
        ctx.distinct(("secure-session", phase, via, min(len(witness_chunks), 10), bool(got)))


def secure_group_history(ctx: Any, rng: Any, pools: Pools, index: int) -> None:
    phase = GROUP_PHASES[index % len(GROUP_PHASES)]
    via = "loop" if (index // len(GROUP_PHASES)) % 3 == 2 else "direct"
    loop = new_loop()
    key = rng.randbytes(16)
    peer = SecureRoutingPeer(key, serial=rng.randbytes(6))
    got: list[Any] = []
    events: list[dict[str, Any]] = []
    sent: list[Any] = []
    ctx.ev()
    ctx.count("secure_group_histories")
    ctx.count("secure_group_phase_" + phase)

    async def scenario() -> None:
        group = SecureGroup(local_addr=("10.0.0.1", 0), remote_addr=("224.0.23.12", 3671), backbone_key=key, latency_ms=rng.choice((500, 1000, 2000)))
        group.register_callback(lambda frame, src, t: got.append(frame))
        task = asyncio.ensure_future(group.connect())
        await asyncio.sleep(0.01)
        dts = [t for t in loop.datagram_transports if not t.closed]
        if phase == "timer-synchronised":
            ours = [d for (_t, dr, d, _a, _tr) in loop.wire if dr == "tx" and ref.service_of(d) == ref.HDR_TIMER_NOTIFY]
            if ours and dts:
                f = ours[0]
                dts[0].deliver(peer.timer_notify(rng.randrange(1, 2**40), f[18:20], serial=f[12:18]), ADDR)
            await asyncio.wait([task], timeout=1)
        elif phase == "timekeeper-after-timeout":
            await asyncio.wait([task], timeout=20)
        if group.secure_timer.timer_authenticated:
            ctx.count("secure_group_synchronised")
        own = group.local_addr_assigned
        for i in range(rng.randrange(3, 16)):
            now = group.secure_timer.current_timer_value()
            t = max(0, min(2**48 - 1, now + rng.choice((0, 1, -1, 50, -50, -150, -900, -1100, -5000, 5000, 10**7, -(10**7), 2**47, 2**48))))
            tag = rng.randbytes(2)
            k = rng.randrange(13)
            if k < 2:
                kind, raw = "timer-notify-valid", peer.timer_notify(t, tag)
            elif k == 2:
                kind, raw = "timer-notify-forged", peer.timer_notify(t, tag, key=rng.randbytes(16))
            elif k == 3:
                raw = peer.timer_notify(t, tag)
                cut = rng.randrange(0, len(raw))
                kind, raw = "timer-notify-truncated", rng.choice((raw[:cut], raw[:4] + len(raw[:cut]).to_bytes(2, "big") + raw[6:cut], raw + b"\x00"))
            elif k < 6:
                kind, raw = "wrapper-genuine", peer.wrapped(_inner_frames(rng, pools), t, tag)
            elif k == 6:
                kind, raw = "wrapper-forged", peer.wrapped(_inner_frames(rng, pools), t, tag, key=rng.choice((rng.randbytes(16), key)), session_id=rng.choice((0, 1, 0xFFFF)))
            elif k == 7:
                nested = peer.wrapped(_small_valid(rng, pools), t, tag)
                kind, raw = "wrapper-nested-or-forbidden", peer.wrapped(rng.choice((nested, g.header(0x0740, 6), peer.timer_notify(t, tag))), t, tag)
            elif k == 8:
                kind, raw = "wrapper-random", g.frame_bytes(g.gen_body(SecureWrapper, rng))
            elif k == 9:
                kind, raw = "malformed", rng.choice(pools.bad_cnp)
            elif k == 10:
                kind, raw = "garbage", rng.choice((rng.choice(pools.unreadable), rng.randbytes(rng.randrange(0, 40)), b""))
            else:
                kind, raw = "plain", rng.choice(pools.valid)[0]
            sent.append((kind, raw[:120]))
            live = [d for d in dts if not d.closed]
            if not live:
                break
            dt = live[i % len(live)]
            src = own if (own is not None and rng.random() < 0.1) else ADDR
            ctx.count("secure_group_datagrams_fed")
            ctx.count("secure_group_datagram_" + kind)
            _HANDLING[0] = None
            n_loop = len(loop.exceptions)
            exc: Any = None
            if via == "loop":
                dt.deliver_later(0.0005, raw, src)
            else:
                try:
                    dt.deliver(raw, src)
                except Exception as err:  # noqa: BLE001 - this is the monitor
                    exc = err
            await asyncio.sleep(rng.choice((0.001, 0.001, 0.3, 2.0, 12.0)))
            found = [(type(exc).__name__, None, repr(exc)[:200])] if exc is not None else []
            found += [(str(rec["type"]), _callback_name(rec), str(rec)[:300]) for rec in _loop_records(loop, n_loop)]
            for name, cb, detail in found:
                events.append({"datagram": i, "kind": kind, "exception": name, "detail": detail, "handling": _HANDLING[0], "callback": cb})
        if got:
            ctx.count("secure_group_frames_forwarded_to_callbacks", len(got))
        task.cancel()
        await asyncio.gather(task, return_exceptions=True)
        group.stop()
        await asyncio.sleep(0.01)

    res = g.budgeted(loop.run, (scenario(),), 3_000_000, wall_s=60, heap=False)
    loop.finish()
    exc = res["exc"]
    if isinstance(exc, g.WallBackstop):
        ctx.inconclusive("wall-clock backstop fired in a secure group history")
        return
    base = {"transport": "secure-group", "phase": phase, "via": via, "index": index, "datagrams": sent[:30]}
    if isinstance(exc, g.StepBudgetExceeded):
        _flag(ctx, "group", "step-budget-exceeded", phase, dict(base, exception=str(exc)))
        return
    if exc is not None:
        raise exc
    for ev in events:
        name = "step-budget-exceeded" if ev["exception"] == "StepBudgetExceeded" else ev["exception"]
        handling = ev["handling"]
        situation = "in-datagram-parsing" if handling is None else ("timer-authenticated" if handling[1] else "timer-not-authenticated") + "-on-" + handling[0]
        _flag(ctx, "group", name, situation, dict(base, exception=ev["detail"], at_datagram=ev["datagram"]), ev["callback"])
    if not events:
        ctx.count("secure_group_histories_without_exception")
        ctx.distinct(("secure-group", phase, via, min(len(sent), 10), bool(got)))


def secure_session_delivery_history(ctx: Any, rng: Any, pools: Pools, index: int) -> None:
    """Authenticated session, only authentic fresh wrappers (some with a truncated inner frame), a callback that raises on selected
    deliveries: every complete inner frame reaches the callback exactly once, in order; nothing of the CouldNotParseKNXIP family escapes."""
    name, cls = (("none", None), ("CouldNotParseKNXIP", CouldNotParseKNXIP), ("IncompleteKNXIPFrame", IncompleteKNXIPFrame))[index % 3]
    user_pw, dev_pw, user_id = CREDS[index % len(CREDS)]
    loop = new_loop()
    sid = rng.choice((1, 2, 0x1234))
    server = SecureServer(loop, server_private_raw=rng.randbytes(32), device_password=dev_pw, users={user_id: user_pw}, session_id=sid, auto_tunnel=False)
    loop.on_connection = server.attach
    got: list[Any] = []
    escapes: list[str] = []
    expected: list[Any] = []
    witness: dict[str, Any] = {"transport": "secure-sessiondelivery", "index": index, "callback_raises": name}
    ctx.ev()
    ctx.count("secure_session_delivery_histories")
    n_items = rng.randrange(3, 12)
    raise_at = set() if cls is None else {rng.randrange(0, n_items) for _ in range(rng.choice((1, 2)))}

    def callback(frame: Any, src: Any, transport: Any) -> None:
        got.append(frame)
        if cls is not None and (len(got) - 1) in raise_at:
            raise cls("raised by the registered callback")

    async def scenario() -> None:
        session = SecureSession(remote_addr=ADDR, user_id=user_id, user_password=user_pw, device_authentication_password=dev_pw)
        await asyncio.wait_for(session.connect(), timeout=10)
        session.register_callback(callback)
        raws = []
        kinds = []
        for _ in range(n_items):
            inner = _small_valid(rng, pools)
            while inner[2:4] in (b"\x09\x50", b"\x09\x54"):
                inner = _small_valid(rng, pools)
            if rng.random() < 0.25:
                kinds.append("truncated-inner")
                inner = inner[: rng.randrange(1, len(inner))]
            else:
                kinds.append("complete-inner")
                expected.append(_isolated(inner)[0])
            raws.append(server.wrapped(inner))
        data = b"".join(raws)
        r = rng.random()
        cuts = [] if r < 0.3 else sorted(set(rng.randrange(1, len(data)) for _ in range(rng.choice((1, 4, 15)))))
        chunks = _split(data, cuts)
        witness.update(inner_kinds=kinds, raise_at_deliveries=sorted(raise_at), chunk_lengths=[len(c) for c in chunks][:60], n_wrappers=n_items)
        stream = loop.stream_transports[-1]
        for i, chunk in enumerate(chunks):
            ctx.count("secure_session_delivery_chunks_fed")
            n_loop = len(loop.exceptions)
            try:
                if index % 4 == 3:
                    stream.deliver_later(0.0005, chunk)
                else:
                    stream.deliver(chunk)
            except Exception as err:  # noqa: BLE001 - this is the monitor
                escapes.append(type(err).__name__)
            await asyncio.sleep(0.001)
            escapes.extend(str(rec["type"]) for rec in _loop_records(loop, n_loop))
        session.stop()
        await asyncio.sleep(0.01)

    res = g.budgeted(loop.run, (scenario(),), 3_000_000, wall_s=60, heap=False)
    loop.finish()
    exc = res["exc"]
    if isinstance(exc, g.WallBackstop):
        ctx.inconclusive("wall-clock backstop fired in a secure session delivery history")
        return
    if isinstance(exc, g.StepBudgetExceeded):
        _flag(ctx, "session", "step-budget-exceeded", "delivery-history", dict(witness, exception=str(exc)))
        return
    if exc is not None:
        raise exc
    suffix = "" if cls is None else "-when-callback-raises-" + name
    for e in sorted(set(escapes)):
        _flag(ctx, "session", "step-budget-exceeded" if e == "StepBudgetExceeded" else e, "initialized-on-SECURE_WRAPPER" + suffix, dict(witness, exception=e))
    if escapes:
        return
    expected_ok = [f for f in expected if f is not None]
    bad = _mismatch(expected_ok, got)
    ctx.count("secure_session_delivery_frames_expected", len(expected_ok))
    if bad is None:
        ctx.count("secure_session_delivery_lists_equal")
        ctx.distinct(("secure-session-delivery", name, min(n_items, 8), len(witness.get("chunk_lengths", [])) > 1))
        return
    mech = "secure-session-inner-frame-lost" if len(got) < len(expected_ok) else (
        "secure-session-more-inner-frames-delivered-than-sent" if len(got) > len(expected_ok) else "secure-session-delivered-inner-frame-differs")
    ctx.violation(mech + suffix, dict(witness, expected_n=len(expected_ok), delivered_n=len(got), first_difference_at=bad),
                  f"SecureSession: {len(got)} inner frames reached the callback, {len(expected_ok)} complete ones were sent in authentic wrappers "
                  f"(callback raises {name} at deliveries {sorted(raise_at)}); first difference at #{bad}")
    ctx.distinct(("secure-session-delivery", name, mech))


def _one_secure_history(ctx: Any, pools: Pools, kind: str, index: int) -> None:
    """Histories draw from their own generator (seed, kind, index) so that a witness can be replayed alone."""
    hrng = random.Random(f"c22-secure/{ctx.seed}/{kind}/{index}")
    random.seed(f"c22-secure-global/{ctx.seed}/{kind}/{index}")  # xknx draws message tags / notify delays from the global generator
    with _secure_patches([random.Random(hrng.randrange(1 << 30))]), (g.debug_logging(ctx) if index % 5 == 4 else contextlib.nullcontext()):
        if index % 5 == 4:
            ctx.count("secure_histories_with_debug_logging")
        {"session": secure_session_history, "group": secure_group_history, "sessiondelivery": secure_session_delivery_history}[kind](ctx, hrng, pools, index)


def secure_part(ctx: Any, rng: Any, pools: Pools) -> None:
    self_test = ref.self_test(with_pbkdf2=False)
    if self_test:
        ctx.inconclusive("reference crypto self test failed: " + "; ".join(self_test)[:200])
        return
    patch_multicast()
    for kind, n in (("session", ctx.scale(160, 4000)), ("group", ctx.scale(120, 3000)), ("sessiondelivery", ctx.scale(60, 1500))):
        for i in range(n):
            if ctx.mine(i):
                g.guarded(ctx, "secure " + kind + " history", _one_secure_history, ctx, pools, kind, i)


def run(ctx: Any) -> None:
    ctx.rule = (
        "TCP: streams = concatenations of valid frames, malformed frames with readable length, unreadable headers, partial tails; "
        "chunkings = all boundary sets (short streams), all subsets of cut points around frame boundaries, byte-by-byte, one chunk, random; "
        "UDP: hostile corpus + valid frames as datagrams. distinct = (transport, stream kind, via, #frames, #chunks, outcome) / (udp, service, label, len, delivered)"
    )
    ctx.require("tcp_streams_run", "tcp_delivery_lists_equal", "tcp_exhaustive_chunkings", "tcp_frames_delivered", "udp_datagrams_fed",
                "udp_no_exception", "pool_valid", "pool_malformed_readable_length", "pool_unreadable_header",
                "tcp_streams_through_loop_transport", "udp_datagrams_through_loop_transport", "tcp_many_frames_one_chunk", "tcp_big_frame_streams", "tcp_raising_callback_streams", "tcp_debug_logging_streams", "debug_log_records_emitted", "secure_histories_with_debug_logging",
                "tcp_streams_with_raising_callback_CouldNotParseKNXIP", "tcp_streams_with_raising_callback_IncompleteKNXIPFrame",
                "secure_session_chunks_fed", "secure_session_handshakes_completed", "secure_session_frames_forwarded_to_callbacks",
                "secure_group_datagrams_fed", "secure_group_synchronised", "secure_group_frames_forwarded_to_callbacks",
                "secure_session_delivery_lists_equal", "secure_session_delivery_frames_expected")
    rng = ctx.rng
    pools = g.guarded(ctx, "pools", Pools, ctx, rng)
    if pools is None:
        ctx.inconclusive(f"frame pools could not be built: {ctx.extra.get('harness_errors')}")
        return
    if not pools.tiny or not pools.bad_cnp or not pools.unreadable:
        ctx.inconclusive("frame pools incomplete")
        return
    for name, part in (("tcp", tcp_part), ("udp", udp_part), ("secure", secure_part)):
        n_before = ctx.counters.get("harness_case_skipped", 0)
        g.guarded(ctx, name + " part", part, ctx, rng, pools)
        if ctx.extra.get("harness_errors") and any(e.startswith(name + " part") for e in ctx.extra["harness_errors"]):
            ctx.inconclusive(f"harness error aborted the {name} part: {ctx.extra['harness_errors'][-1][:200]}")
        del n_before
    g.harness_verdict(ctx)
    ctx.exhaustive = True
    ctx.extra["exhaustive_part"] = (
        "every boundary set of each short TCP stream (<= 14 octets quick / 16 thorough) and every subset of the selected cut points "
        "around the frame boundaries of each medium stream; streams themselves and everything else are sampled"
    )


def replay(ctx: Any, witness: dict[str, Any]) -> None:
    def unhex(x: Any) -> bytes:
        return bytes.fromhex(x[4:]) if isinstance(x, str) and x.startswith("hex:") else bytes(x)

    ctx.distinct("replay-a")
    ctx.distinct("replay-b")
    if witness.get("transport") == "udp":
        if "data" not in witness:
            ctx.inconclusive("loop-level UDP witness: re-run the seed")
            return
        data = unhex(witness["data"])
        ctx.ev()
        tr = UDPTransport(("10.0.0.1", 0), ADDR)
        res = g.budgeted(_udp_call, (tr, data, ADDR), 4000 + 300 * len(data), wall_s=10, heap=False)
        if res["exc"] is not None:
            name = "step-budget-exceeded" if isinstance(res["exc"], g.StepBudgetExceeded) else type(res["exc"]).__name__
            ctx.violation(f"udp-{name}-escapes-data_received", witness, f"replayed: {name} escapes UDP data_received_callback")
        return
    if str(witness.get("transport", "")).startswith("secure-"):
        patch_multicast()
        pools = Pools(ctx, ctx.rng)
        _one_secure_history(ctx, pools, witness["transport"].split("-", 1)[1], witness["index"])
        return
    if witness.get("callback_raises"):
        cr = witness["callback_raises"]
        cls = {"CouldNotParseKNXIP": CouldNotParseKNXIP, "IncompleteKNXIPFrame": IncompleteKNXIPFrame}.get(cr["exception"], UserCallbackError)
        _RAISE[0] = {"name": cr["exception"], "exc": cls, "at": set(cr["at_deliveries"])}
    frames = witness["frames"]
    if witness["n_frames"] > len(frames) or any(f["len"] > 200 and not f.get("constant_filler") for f in frames):
        if witness["stream_kind"] == "many-frames-in-one-chunk":
            d = unhex(frames[0]["octets"])
            f, _ = _isolated(d)
            run_stream(ctx, "many-frames-in-one-chunk", [("valid", d, f)] * witness["n_frames"], [d * witness["n_frames"]])
            return
        ctx.inconclusive("witness stream truncated: re-run the seed")
        return
    items = []
    for f in frames:
        d = unhex(f["octets"])
        if f["len"] > len(d):
            d += d[-1:] * (f["len"] - len(d))
        fr = _isolated(d)[0] if f["kind"] == "valid" else None
        items.append((f["kind"], d, fr))
    data = b"".join(d for _k, d, _f in items)
    chunks = []
    pos = 0
    for n in witness["chunk_lengths"]:
        chunks.append(data[pos : pos + n])
        pos += n
    with (g.debug_logging(ctx) if witness.get("debug_logging") else contextlib.nullcontext()):
        run_stream(ctx, witness["stream_kind"], items, chunks)
