"""Scripted KNX IP Secure peers built only on the independent reference crypto.

* ``SecureServer``: a secure tunnelling server behind a ``FakeStreamTransport``.
  It answers the session handshake, checks every byte string the client writes
  against the reference (is it plain? is its wrapper authentic? which sequence
  number?) and lets a check script arbitrary genuine / forged / replayed frames
  towards the client.
* ``SecureRoutingPeer``: produces TimerNotify and SecureWrapper datagrams of a
  secure multicast group and classifies what the device under test sends.

Plain inner frames (ConnectResponse, TunnellingAck ...) are built with xknx's own
frame classes: they are a convenience for the workload, never part of a verdict.
"""

from __future__ import annotations

from collections.abc import Callable
from typing import Any

from xknx.knxip import (
    HPAI,
    ConnectionStateRequest,
    ConnectionStateResponse,
    ConnectRequest,
    ConnectRequestType,
    ConnectResponse,
    ConnectResponseData,
    DescriptionRequest,
    DescriptionResponse,
    DisconnectRequest,
    DisconnectResponse,
    ErrorCode,
    KNXIPFrame,
    TunnellingRequest,
)
from xknx.telegram import IndividualAddress

from . import refcrypto_ip as ref

STATUS_AUTHENTICATION_SUCCESS = 0x00
STATUS_AUTHENTICATION_FAILED = 0x01
STATUS_UNAUTHENTICATED = 0x02
STATUS_TIMEOUT = 0x03
STATUS_KEEPALIVE = 0x04
STATUS_CLOSE = 0x05


def split_frames(buffer: bytes) -> tuple[list[bytes], bytes]:
    """Cut a TCP byte stream into KNXnet/IP frames by the total length field."""
    out = []
    while len(buffer) >= 6:
        total = int.from_bytes(buffer[4:6], "big")
        if buffer[0] != 0x06 or buffer[1] != 0x10 or total < 6:
            # not a frame: hand over the rest as one piece of garbage
            out.append(buffer)
            return out, b""
        if len(buffer) < total:
            break
        out.append(buffer[:total])
        buffer = buffer[total:]
    return out, buffer


class TxRecord:
    """One frame the client wrote, as judged by the reference."""

    __slots__ = ("authentic", "inner", "kind", "raw", "seq", "serial", "service", "session_id", "tag", "time")

    def __init__(self, time: float, raw: bytes) -> None:
        self.time = time
        self.raw = raw
        self.service = ref.service_of(raw)
        self.kind = "garbage"
        self.authentic = False
        self.inner: bytes | None = None
        self.seq: int | None = None
        self.serial: bytes | None = None
        self.tag: bytes | None = None
        self.session_id: int | None = None

    def as_dict(self) -> dict[str, Any]:
        return {
            "t": round(self.time - 1000, 6),
            "kind": self.kind,
            "service": None if self.service is None else f"{self.service:04x}",
            "seq": self.seq,
            "authentic": self.authentic,
            "inner_service": None if not self.inner else f"{ref.service_of(self.inner) or 0:04x}",
        }


class SecureServer:
    """Scripted secure tunnelling server (one TCP connection)."""

    def __init__(
        self,
        loop: Any,
        *,
        server_private_raw: bytes,
        device_password: str | None,
        users: dict[int, str],
        session_id: int = 1,
        serial: bytes = bytes.fromhex("00fa12345678"),
        delay: float = 0.002,
        auto_handshake: bool = True,
        auto_tunnel: bool = True,
        auth_status: int = STATUS_AUTHENTICATION_SUCCESS,
        channel: int = 7,
    ) -> None:
        self.loop = loop
        self.private = ref.x25519_private(server_private_raw)
        self.public = ref.x25519_public_bytes(self.private)
        self.device_key = ref.device_authentication_key(device_password) if device_password else bytes(16)
        self.user_keys = {uid: ref.user_password_key(pw) for uid, pw in users.items()}
        self.session_id = session_id
        self.serial = serial
        self.delay = delay
        self.auto_handshake = auto_handshake
        self.auto_tunnel = auto_tunnel
        self.auth_status = auth_status
        self.channel = channel
        self.transport: Any = None
        self.buffer = b""
        self.client_public: bytes | None = None
        self.key: bytes | None = None
        self.tx_seq = 0  # next sequence number of the server
        self.received: list[TxRecord] = []
        self.authenticated_user: int | None = None
        self.auth_mac_matches_reference: bool | None = None
        self.tunnel_seq = 0
        self.on_record: Callable[[TxRecord], None] | None = None
        self.sent_log: list[tuple[float, str, bytes]] = []

    # -- wiring -----------------------------------------------------------
    def attach(self, transport: Any) -> None:
        self.transport = transport
        transport.on_send = self.on_bytes

    def on_bytes(self, data: bytes) -> None:
        frames, self.buffer = split_frames(self.buffer + data)
        for raw in frames:
            self._on_frame(raw)

    # -- what the client wrote ---------------------------------------------
    def _on_frame(self, raw: bytes) -> None:
        rec = TxRecord(self.loop.time(), raw)
        self.received.append(rec)
        svc = rec.service
        if svc is None or int.from_bytes(raw[4:6], "big") != len(raw):
            rec.kind = "garbage"
        elif svc == ref.HDR_WRAPPER:
            rec.kind = "wrapper"
            try:
                w = ref.Wrapper(raw)
                rec.seq, rec.serial, rec.tag, rec.session_id = w.seq_int, w.serial, w.tag, w.session_id
            except ref.RefError:
                rec.kind = "garbage"
            if self.key is not None and rec.kind == "wrapper":
                try:
                    _, inner = ref.unwrap(self.key, raw, self.session_id)
                    rec.authentic = True
                    rec.inner = inner
                except ref.RefError:
                    pass
        else:
            rec.kind = "plain"
        if self.on_record is not None:
            self.on_record(rec)
        if rec.kind == "plain" and svc == ref.HDR_SESSION_REQUEST and len(raw) == 6 + 8 + 32:
            self.client_public = raw[14:46]
            self.key = ref.session_key(self.private, self.client_public)
            self.tx_seq = 0
            if self.auto_handshake:
                self.later(self.session_response())
        elif rec.authentic and rec.inner is not None:
            self._on_inner(rec.inner)

    def _on_inner(self, inner: bytes) -> None:
        svc = ref.service_of(inner)
        if svc == ref.HDR_SESSION_AUTHENTICATE and len(inner) == 0x18:
            user_id = inner[7]
            mac = inner[8:24]
            assert self.client_public is not None
            key = self.user_keys.get(user_id)
            self.auth_mac_matches_reference = key is not None and mac == ref.session_authenticate_mac(
                key, user_id, self.client_public, self.public
            )
            if self.auth_mac_matches_reference:
                self.authenticated_user = user_id
            if self.auto_handshake:
                status = self.auth_status if self.auth_mac_matches_reference else STATUS_AUTHENTICATION_FAILED
                self.later(self.wrapped(ref.session_status(status)))
            return
        if not self.auto_tunnel or svc is None or svc >= 0x0900:
            return
        try:
            frame, _ = KNXIPFrame.from_knx(inner)
        except Exception:  # noqa: BLE001 - workload convenience only
            return
        body = frame.body
        reply: Any = None
        if isinstance(body, ConnectRequest):
            self.tunnel_seq = 0
            reply = ConnectResponse(
                communication_channel=self.channel,
                status_code=ErrorCode.E_NO_ERROR,
                data_endpoint=HPAI("10.0.0.2", 3671),
                crd=ConnectResponseData(
                    request_type=ConnectRequestType.TUNNEL_CONNECTION,
                    individual_address=IndividualAddress("1.1.9"),
                ),
            )
        elif isinstance(body, ConnectionStateRequest):
            reply = ConnectionStateResponse(communication_channel_id=body.communication_channel_id)
        elif isinstance(body, DisconnectRequest):
            reply = DisconnectResponse(communication_channel_id=body.communication_channel_id)
        elif isinstance(body, DescriptionRequest):
            reply = DescriptionResponse()
        elif isinstance(body, TunnellingRequest):
            # TCP: no TunnellingAck; the gateway echoes an L_Data.con
            cemi = body.raw_cemi
            if cemi and cemi[0] == 0x11:
                con = bytes((0x2E,)) + cemi[1:]
                reply = TunnellingRequest(
                    communication_channel_id=self.channel,
                    sequence_counter=self.tunnel_seq & 0xFF,
                    raw_cemi=con,
                )
                self.tunnel_seq += 1
        if reply is not None:
            self.later(self.wrapped(KNXIPFrame.init_from_body(reply).to_knx()))

    # -- what the server sends ----------------------------------------------
    def session_response(self, *, device_key: bytes | None = None, session_id: int | None = None) -> bytes:
        assert self.client_public is not None
        return ref.session_response(
            self.device_key if device_key is None else device_key,
            self.session_id if session_id is None else session_id,
            self.client_public,
            self.public,
        )

    def next_seq(self) -> int:
        s = self.tx_seq
        self.tx_seq += 1
        return s

    def wrapped(
        self,
        inner: bytes,
        *,
        seq: int | None = None,
        key: bytes | None = None,
        session_id: int | None = None,
        serial: bytes | None = None,
        tag: bytes = b"\x00\x00",
    ) -> bytes:
        """A wrapper around `inner`; with no overrides it is genuine and fresh."""
        assert self.key is not None
        return ref.wrap(
            self.key if key is None else key,
            self.session_id if session_id is None else session_id,
            self.next_seq() if seq is None else seq,
            self.serial if serial is None else serial,
            tag,
            inner,
        )

    def now(self, raw: bytes, label: str = "") -> None:
        self.sent_log.append((self.loop.time(), label, raw))
        self.transport.deliver(raw)

    def later(self, raw: bytes, delay: float | None = None, label: str = "") -> None:
        self.loop.call_later(self.delay if delay is None else delay, self.now, raw, label)


class SecureRoutingPeer:
    """Another member of a secure multicast group (holds the backbone key)."""

    def __init__(self, backbone_key: bytes, serial: bytes = bytes.fromhex("00fa0000beef")) -> None:
        self.key = backbone_key
        self.serial = serial

    def timer_notify(self, timer: int, tag: bytes, *, serial: bytes | None = None, key: bytes | None = None) -> bytes:
        return ref.timer_notify(self.key if key is None else key, timer, self.serial if serial is None else serial, tag)

    def wrapped(
        self,
        inner: bytes,
        timer: int,
        tag: bytes,
        *,
        serial: bytes | None = None,
        key: bytes | None = None,
        session_id: int = 0,
    ) -> bytes:
        return ref.wrap(
            self.key if key is None else key,
            session_id,
            timer,
            self.serial if serial is None else serial,
            tag,
            inner,
        )

    def classify(self, raw: bytes) -> dict[str, Any]:
        """What did the device under test put on the multicast group?"""
        svc = ref.service_of(raw)
        if svc == ref.HDR_TIMER_NOTIFY:
            try:
                f = ref.TimerNotifyFields(raw)
            except ref.RefError:
                return {"kind": "garbage"}
            return {
                "kind": "timer_notify",
                "timer": f.timer,
                "serial": f.serial,
                "tag": f.tag,
                "authentic": ref.timer_notify_valid(self.key, raw),
            }
        if svc == ref.HDR_WRAPPER:
            try:
                w = ref.Wrapper(raw)
            except ref.RefError:
                return {"kind": "garbage"}
            out = {"kind": "wrapper", "timer": w.seq_int, "serial": w.serial, "tag": w.tag, "session_id": w.session_id, "authentic": False, "inner": None}
            try:
                _, inner = ref.unwrap(self.key, raw, 0)
                out["authentic"] = True
                out["inner"] = inner
            except ref.RefError:
                pass
            return out
        return {"kind": "plain", "service": svc}


# --------------------------------------------------------------------------
# workload: plain KNXnet/IP frames of every body type xknx implements
# --------------------------------------------------------------------------
RECORDED_SEARCH_RESPONSE_EXTENDED = bytes.fromhex(
    "0610020c006608010a0100280e57360102001000000000082d40834de000170c"
    "000ab3274a3247697261204b4e582f49502d526f757465720000000000000000"
    "000000000e02020203020402050207010901140700dc10f1fffe10f2ffff10f3"
    "ffff10f4ffff"
)


def _hpai(rng: Any) -> HPAI:
    from xknx.knxip import HostProtocol

    if rng.random() < 0.2:
        return HPAI(protocol=HostProtocol.IPV4_TCP)
    return HPAI(f"{rng.randrange(1, 255)}.{rng.randrange(256)}.{rng.randrange(256)}.{rng.randrange(1, 255)}", rng.randrange(1, 65536))


def _cemi(rng: Any, maxlen: int = 60) -> bytes:
    return rng.randbytes(rng.choice((0, 1, 2, 9, 10, 11, 15, 16, 17, 23, rng.randrange(0, maxlen))))


def plain_frame_makers() -> dict[str, Callable[[Any], Any]]:
    """name -> fn(rng) -> KNXIPBody, one entry per body class of xknx.knxip."""
    from xknx import knxip as k
    from xknx.knxip.knxip_enum import SecureSessionStatusCode
    from xknx.knxip.tunnelling_feature import ReturnCode

    def ia(rng: Any) -> IndividualAddress:
        return IndividualAddress(rng.randrange(65536))

    def err(rng: Any) -> Any:
        return rng.choice(list(k.ErrorCode))

    def feat(rng: Any) -> Any:
        return rng.choice(list(k.TunnellingFeatureType))

    def search_response(cls: Any) -> Callable[[Any], Any]:
        def make(rng: Any) -> Any:
            body = cls(control_endpoint=_hpai(rng))
            if rng.random() < 0.7:
                donor, _ = KNXIPFrame.from_knx(RECORDED_SEARCH_RESPONSE_EXTENDED)
                body.dibs = list(donor.body.dibs)[: rng.randrange(1, 6)]
            return body

        return make

    def description_response(rng: Any) -> Any:
        body = k.DescriptionResponse()
        if rng.random() < 0.7:
            donor, _ = KNXIPFrame.from_knx(RECORDED_SEARCH_RESPONSE_EXTENDED)
            body.dibs = list(donor.body.dibs)[: rng.randrange(1, 6)]
        return body

    def srps(rng: Any) -> list[Any]:
        out = []
        if rng.random() < 0.5:
            out.append(k.SRP.with_programming_mode())
        if rng.random() < 0.5:
            out.append(k.SRP.with_mac_address(rng.randbytes(6)))
        if rng.random() < 0.5:
            out.append(k.SRP.with_service(rng.choice(list(k.DIBServiceFamily)), rng.randrange(1, 3)))
        return out

    return {
        "ConnectRequest": lambda r: k.ConnectRequest(
            control_endpoint=_hpai(r),
            data_endpoint=_hpai(r),
            cri=k.ConnectRequestInformation(
                connection_type=k.ConnectRequestType.TUNNEL_CONNECTION,
                knx_layer=r.choice(list(k.TunnellingLayer)),
                individual_address=ia(r) if r.random() < 0.5 else None,
            ),
        ),
        "ConnectResponse": lambda r: k.ConnectResponse(
            communication_channel=r.randrange(256),
            status_code=k.ErrorCode.E_NO_ERROR,
            data_endpoint=_hpai(r),
            crd=k.ConnectResponseData(request_type=k.ConnectRequestType.TUNNEL_CONNECTION, individual_address=ia(r)),
        ),
        "ConnectionStateRequest": lambda r: k.ConnectionStateRequest(communication_channel_id=r.randrange(256), control_endpoint=_hpai(r)),
        "ConnectionStateResponse": lambda r: k.ConnectionStateResponse(communication_channel_id=r.randrange(256), status_code=err(r)),
        "DescriptionRequest": lambda r: k.DescriptionRequest(control_endpoint=_hpai(r)),
        "DescriptionResponse": description_response,
        "DeviceConfigurationAck": lambda r: k.DeviceConfigurationAck(r.randrange(256), r.randrange(256), err(r)),
        "DeviceConfigurationRequest": lambda r: k.DeviceConfigurationRequest(r.randrange(256), r.randrange(256), _cemi(r)),
        "DisconnectRequest": lambda r: k.DisconnectRequest(communication_channel_id=r.randrange(256), control_endpoint=_hpai(r)),
        "DisconnectResponse": lambda r: k.DisconnectResponse(communication_channel_id=r.randrange(256), status_code=err(r)),
        "RoutingBusy": lambda r: k.RoutingBusy(r.randrange(4), r.randrange(65536), r.randrange(65536)),
        "RoutingIndication": lambda r: k.RoutingIndication(raw_cemi=_cemi(r, 300)),
        "RoutingLostMessage": lambda r: k.RoutingLostMessage(r.randrange(4), r.randrange(65536)),
        "SearchRequest": lambda r: k.SearchRequest(discovery_endpoint=_hpai(r)),
        "SearchRequestExtended": lambda r: k.SearchRequestExtended(discovery_endpoint=_hpai(r), srps=srps(r)),
        "SearchResponse": search_response(k.SearchResponse),
        "SearchResponseExtended": search_response(k.SearchResponseExtended),
        "SecureWrapper": lambda r: k.SecureWrapper(r.randrange(65536), r.randbytes(6), r.randbytes(6), r.randbytes(2), r.randbytes(r.randrange(2, 40)), r.randbytes(16)),
        "SessionAuthenticate": lambda r: k.SessionAuthenticate(r.randrange(256), r.randbytes(16)),
        "SessionRequest": lambda r: k.SessionRequest(control_endpoint=HPAI(protocol=k.HostProtocol.IPV4_TCP), ecdh_client_public_key=r.randbytes(32)),
        "SessionResponse": lambda r: k.SessionResponse(r.randrange(65536), r.randbytes(32), r.randbytes(16)),
        "SessionStatus": lambda r: k.SessionStatus(r.choice(list(SecureSessionStatusCode))),
        "TimerNotify": lambda r: k.TimerNotify(r.randrange(1 << 48), r.randbytes(6), r.randbytes(2), r.randbytes(16)),
        "TunnellingAck": lambda r: k.TunnellingAck(r.randrange(256), r.randrange(256), err(r)),
        "TunnellingFeatureGet": lambda r: k.TunnellingFeatureGet(r.randrange(256), r.randrange(256), feat(r)),
        "TunnellingFeatureInfo": lambda r: k.TunnellingFeatureInfo(r.randrange(256), r.randrange(256), feat(r), r.randbytes(r.randrange(1, 5))),
        "TunnellingFeatureResponse": lambda r: k.TunnellingFeatureResponse(r.randrange(256), r.randrange(256), feat(r), r.choice(list(ReturnCode)), r.randbytes(r.randrange(1, 5))),
        "TunnellingFeatureSet": lambda r: k.TunnellingFeatureSet(r.randrange(256), r.randrange(256), feat(r), r.randbytes(r.randrange(1, 5))),
        "TunnellingRequest": lambda r: k.TunnellingRequest(r.randrange(256), r.randrange(256), _cemi(r, 260)),
    }


_MAKERS: dict[str, Callable[[Any], Any]] | None = None


def all_body_class_names() -> list[str]:
    """Every KNXIPBody subclass with a service type that xknx.knxip exports."""
    import inspect

    from xknx import knxip as k

    return sorted(
        n
        for n in dir(k)
        if inspect.isclass(getattr(k, n))
        and issubclass(getattr(k, n), k.KNXIPBody)
        and getattr(getattr(k, n), "SERVICE_TYPE", None) is not None
    )


def random_plain_frame(rng: Any, name: str) -> tuple[Any, bytes] | None:
    """A frame of body class `name` that xknx itself serialises and re-parses to the same octets.

    Returns None if this draw is not stable under xknx's own plain codec (that is
    another property's business; such draws are skipped and counted by callers).
    """
    global _MAKERS
    if _MAKERS is None:
        _MAKERS = plain_frame_makers()
    body = _MAKERS[name](rng)
    try:
        frame = KNXIPFrame.init_from_body(body)
        raw = frame.to_knx()
        again, rest = KNXIPFrame.from_knx(raw)
        if rest or again.to_knx() != raw:
            return None
    except Exception:  # noqa: BLE001
        return None
    return frame, raw
